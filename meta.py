"""Static per-property metadata: claimed level, rule text, assumptions.
MANIFEST.json is generated from this (./check --manifest) so the two never
disagree."""
import json

COMMON_ASSUME = [
    "verdict covers only the executions this run produced (counts in coverage)",
    "zmq.rs built from /repo's working tree with feature verif-hooks (additive hooks, src/verif.rs)",
]
SIM_ASSUME = COMMON_ASSUME + [
    "in-memory pipes model a byte-stream transport (partial reads/writes, back-pressure, EOF, reset, broken pipe); kernel-level socket behaviour is covered only by the real-transport legs",
    "reference ZMTP codec (harness/src/refcodec.rs) written from RFC 23/28/29 is the wire oracle",
]

PROPS = {
    "C01": dict(
        built=True, level="exploration", design_ref="4/C01",
        technique="runtime differential monitor: library encoder/decoder vs independent RFC-23 reference codec over a boundary grid, plus wire taps of every socket type",
        rule="messages = all frame-length vectors over the boundary grid for N<=3 (quick) / N<=4 (thorough) plus seeded random shapes up to several MiB; handshakes = 9 socket types x identity options, tapped from real sockets. A case is non-trivial when it has a frame at a size-form boundary (0,255,256), >64 KiB, or is a multi-frame message; distinct by shape/content hash",
        text="Every message/handshake produced in the run was encoded by the real library code and judged byte-for-byte by an independent decoder; boundary grid crossed exhaustively for small N. Exploration, not proof: lengths outside the grid are sampled.",
        note="trusted: reference codec; hook H1 wraps the production ZmqCodec without altering it",
        assumptions=SIM_ASSUME,
    ),
    "C02": dict(
        built=True, level="exploration", design_ref="4/C02",
        technique="runtime monitor: every segmentation of a byte stream fed to the real decoder / real FramedRead hand-over is compared with the one-shot decode and with the reference decoder",
        rule="streams = greeting + READY(0..3 properties) + messages (empty, 255/256, >8 KiB and >16 KiB frames) with commands in between; partitions = all 2^15 partitions of the 16 bytes after the greeting for 3 (quick) / 5 (thorough) tails, every single cut and every pair of cuts over the first 420 bytes of 6 streams, byte-at-a-time, strides 1/2/3/7/64/8191/8192/8193, seeded random partitions; socket level = single cuts, pairs around the handshake end, strides, random partitions through pipes into all 8 receiving/PUB socket types in chunked and parked-then-released delivery. Every partition is non-trivial (it has at least one cut or is the coalesced whole); distinct by (stream, cut set, mode)",
        text="Segmentation independence is checked on the executions produced: exhaustive over all partitions of short tails and all 1-/2-cut partitions of bounded streams, sampled beyond; both at codec level (hook H1) and through the real FramedRead that is handed from the handshake to the socket.",
        note="trusted: reference codec; in-memory pipe delivers exactly the scripted chunks",
        assumptions=SIM_ASSUME,
        exhaustive={"quick": False, "thorough": False},
    ),
    "C03": dict(
        built=True, level="fault_enumeration", design_ref="4/C03",
        technique="runtime monitoring under hostile input: byte streams fed to the real decoder and to all 9 socket types in isolated child processes (2 MiB stack); oracles = panic hook, abnormal child exit (abort / stack overflow), counting global allocator (peak and largest request vs bytes received), healthy-second-peer exchange",
        rule="faults = hostile byte streams: exhaustive over the alphabet {00..07,FF,'R'} up to length 5 (quick) / 6 (thorough) after a valid greeting; 46 structure-aware classes (malformed commands/properties, 64-bit sizes incl. sign bit, 10^3..10^6 MORE frames in one write, random bytes) x 4 handshake stages x {one write, 1-byte, 7-byte reads} at codec level and x 9 socket types at socket level, plus write-failure variants. A stream is non-trivial when it gets past the greeting (stage>=2) ; distinct by construction (enumeration)",
        text="Every generated hostile stream was executed against the real code with crash, panic and allocation monitors; a fault-enumeration claim over the listed classes and stages, not a proof for all byte streams.",
        note="trusted: counting allocator (thread-local attribution), child exit status; heap bound 256 KiB + 128 x bytes received (legitimate worst case measured at ~50x)",
        assumptions=SIM_ASSUME + ["non-termination is reported as inconclusive by this property (the statement lists panic, stack overflow, abort, allocation)",
                                  "checks run on an optimised build with debug assertions and overflow checks on, child stack 2 MiB"],
        timeout={"quick": 1800, "thorough": 7200},
    ),
    "C04": dict(
        built=True, level="exploration", design_ref="4/C04",
        technique="runtime monitor: full scripted-peer admission grid through the production handshake (hook H2) compared with a reference admission predicate; follow-up monitors for usability, single registration, release and silence of rejected connections; all 12x12 compatible() queries under catch_unwind",
        rule="grid = local type(9) x peer Socket-Type(12 names, unknown, missing) x version(5) x mechanism(4) x signature(3) x identity(5) x first item(6: READY, other command, message, and the latter two or a PING followed by a valid READY) = 226 800 scripted peers, enumerated completely in both tiers (thorough repeats it byte-at-a-time and with the READY split); follow-up exchange on every admitted point and a seeded 10% (quick) / all (thorough) of the rejected ones; every grid point is non-trivial (a distinct handshake actually executed); distinct by grid coordinates",
        text="The stated finite grid is executed exhaustively against the real handshake code and each outcome compared with the reference predicate; behaviour outside the grid values (other versions, other malformed inputs) is covered by C03, not here.",
        note="trusted: reference predicate and RFC compatibility table in harness/src/props/c04.rs",
        assumptions=SIM_ASSUME + ["duplicate identities are not generated (the statement is silent on them)", "PLAIN and CURVE greetings count as 'known mechanism' and are expected to be admitted"],
        exhaustive={"quick": True, "thorough": True},
    ),
    "C05": dict(
        built=True, level="exploration", design_ref="4/C05",
        technique="runtime monitor: exactly-once / in-order / whole-message history checker over (a) the real fair queue driven through hook H3 by scripted streams with re-entrant (mid-poll) actions, exhaustive to a bounded depth, (b) truly parallel short runs, (c) real sockets fed tagged multipart messages through pipes under seeded byte-release, join and leave schedules",
        rule="probe level: every action sequence over {arrive, insert, close, remove, poll, mid-poll arrive/insert/close} to depth 6/5/4 for 1/2/3 streams (quick; 8/7/6 thorough) replayed against the real queue, seeded random walks (200 steps, 1..8 streams) and saturation walks, 120k (quick) very short 2-4-producer threaded runs; socket level: PULL, SUB, DEALER, ROUTER, REP, XPUB x 1..6 peers (+0..2 late joiners, optional leavers by EOF at boundary / mid-frame / between frames / reset, REP envelope violations) under seeded schedules. Non-trivial = sequences with at least one action (all) / socket runs with >= 2 peers; distinct by action sequence (interleaving id = hash of the action sequence) or seed",
        text="Bounded-exhaustive at the fair-queue level for small stream counts, seeded exploration beyond and at socket level; each delivery is checked against per-connection ground truth derived from the bytes the harness fed.",
        note="trusted: scripted streams / pipes faithfully report what was made readable; tag checksum detects merged/split/partial messages",
        assumptions=SIM_ASSUME + ["remove() is only issued between polls (peer_disconnected is never concurrent with a poll of the same socket)", "errors returned after a connection ended are left to C16"],
    ),
    "C06": dict(
        built=True, level="exploration", design_ref="4/C06",
        technique="runtime monitor: bounded-progress restatement of liveness - lost-wake-up probe at logical quiescence (a parked, never-woken receiver must not be able to return an item), overtaking bound 2n per delivery; closed-system criterion in a truly parallel leg (no wall-clock verdicts)",
        rule="same action-sequence space as C05 (exhaustive to bounded depth for <= 3 streams, random and saturation walks to 8 streams, 120k threaded runs in quick / 2.4M in thorough) with the receiver modelled as a faithful executor (polls only when runnable); socket-level repeat through the six fair-queue socket types incl. saturated peers. Non-trivial = all sequences; distinct by action sequence",
        text="Liveness is restated as a safety property over quiescent points and decided on logical steps; exploration is bounded-exhaustive for small configurations and seeded beyond. No universal liveness claim.",
        note="trusted: the receiver model (poll iff never polled / last poll returned an item / woken since parking) is what a conforming executor does",
        assumptions=SIM_ASSUME + ["fairness bound 2n other-peer deliveries per ready peer (observed maximum n-1)", "behaviour-preserving edits (waker stored once per poll_next, stream wake not take()-ing the receiver waker) are deliberately not flagged"],
        hang_is_violation=True,
    ),
    "C07": dict(
        built=True, level="exploration", design_ref="4/C07",
        technique="runtime monitor: frame-exact comparison of API results and reference-decoded wire taps for REQ and REP facing scripted peers over the full payload-shape x routing-prefix grid, plus degenerate requests",
        rule="payloads = all 340 shapes of 1..4 frames with sizes {0,5,256,70000}; routing prefixes = all 40 lists of 0..3 identity frames of {1,5,255} bytes (quick: 32 of them incl. none/all three-hop, thorough: all 40); directions request and reply; degenerate requests (delimiter last, single frame, single empty frame, no delimiter). Every case is non-trivial (a real request/reply round trip); distinct by (prefix, request shape, reply shape)",
        text="The envelope rules are checked frame-for-frame on every executed round trip of the stated finite shape grid; shapes outside the grid are not explored.",
        note="trusted: reference codec for reading the taps",
        assumptions=SIM_ASSUME + ["requests without any empty frame are undefined by the statement: only 'no panic, no zero-frame message' is asserted for them"],
    ),
    "C08": dict(
        built=True, level="exploration", design_ref="4/C08",
        technique="runtime monitor: every {send,recv} call sequence up to a bound on REQ and REP compared step by step with a reference lock-step state machine and with the wire taps; seeded interleavings of 1..8 concurrent scripted clients with a tagged-reply history checker",
        rule="all call sequences over {send,recv} up to length 6 (quick) / 8 (thorough) on REQ (scripted REP answering immediately / after the recv parked / never; 1 or 2 peers) and on REP (two scripted clients, request available or arriving after the recv parked), plus seeded concurrent histories of 1..8 clients x 4 requests with byte-level release schedules; non-trivial = every sequence (each contains at least one call); distinct by sequence/mode or seed; interleaving ids = hash of the scheduler's action sequence",
        text="Sequences are enumerated exhaustively to the bound and each API result, returned message and tap delta is compared with the reference machine; concurrency is explored by seeded schedules, not exhaustively.",
        note="trusted: reference state machine in harness/src/props/c08.rs",
        assumptions=SIM_ASSUME + ["a second recv on REP before replying is exercised for crash-freedom only (statement does not define it)"],
    ),
    "C09": dict(
        built=True, level="exploration", design_ref="4/C09",
        technique="runtime monitor: tagged-message history checker over ROUTER recv results and per-connection wire taps (identity labelling, routing, unknown and gone targets) under seeded byte-release schedules",
        rule="1..6 scripted DEALER/REQ peers with auto, 1-byte, 16-byte, 255-byte and NUL-containing identities, 3 tagged messages each released in seeded byte increments; then sends to every live peer, to a never-seen identity and to a peer whose connection ended (EOF / reset / mid-frame) after the socket observed it; non-trivial = runs with >= 2 peers; distinct by seed",
        text="Labelling and routing are checked on every delivery/send of the seeded runs; schedules are sampled.",
        note="trusted: tag checksum identifies the connection a payload was fed on",
        assumptions=SIM_ASSUME + ["single-frame send on ROUTER (an assert! in the library) is outside the statement and not issued"],
    ),
    "C10": dict(
        built=True, level="exploration", design_ref="4/C10",
        technique="runtime monitor: wire-tap growth judged at the instant send returns (exactly one peer, complete reference encoding), rotation-window and late-joiner checks, credit-based back-pressure with partial writes",
        rule="PUSH, DEALER, REQ with 0..6 scripted peers joining at seeded times, 6n+6 sends of 6 message shapes, seeded partial-write limits and withheld write credit; non-trivial = runs with 0 or >= 2 peers; distinct by seed",
        text="Every successful send of the run is judged at return time against the taps; rotation is checked over every window of n sends on a stable peer set.",
        note="trusted: in-memory pipe credit model for back-pressure",
        assumptions=SIM_ASSUME,
    ),
    "C11": dict(
        built=True, level="exploration", design_ref="4/C11",
        technique="runtime monitor: reference multiset-prefix model compared with wire taps at quiescent points after every history step; XPUB hand-over history check",
        rule="all subscribe/unsubscribe/garbage histories up to length 3 (quick) / 4 (thorough) over 7 topics + 5 garbage kinds for one subscriber on PUB and XPUB (exhaustive), seeded random histories of length 30 for 1..5 subscribers; after every step all 7 probe first-frames x {1,2 frames} are published; non-trivial = histories of length >= 2; distinct by history; states = distinct subscription multisets reached",
        text="Exhaustive over short histories of the stated alphabet, sampled beyond; each delivery decision compared with the model.",
        note="trusted: reference model in harness/src/props/c11.rs",
        assumptions=SIM_ASSUME + ["pipes accept all writes in this property (back-pressure is C12)", "whether XPUB hands malformed subscription messages to the application is not asserted"],
    ),
    "C12": dict(
        built=True, level="fault_enumeration", design_ref="4/C12",
        technique="runtime monitoring under injected back-pressure: credit-limited pipes per subscriber; oracles = publish future never pending at logical quiescence, reference-decoded taps (well-formed, whole, order-preserving subsequence, complete for accepting subscribers), retained-byte accounting against HWM + one message, counting allocator charged only inside the publish call",
        rule="faults = back-pressure scripts per subscriber connection {accept everything, partial writes of 1..5000 bytes, accept k in {0,1,2,5,9,100,70000} bytes then stall and resume later, never drain, broken pipe at a seeded publish} x 2..5 subscribers x PUB/XPUB, 200 publishes of sizes {10 B..1 MiB incl. 131071/131072/131073} per run plus runs of 2000 (quick) / 5000 small publishes; every run is non-trivial (>= 1 non-healthy subscriber in > 90% of runs, measured by the stall/broken counters); distinct by seed",
        text="Seeded enumeration of back-pressure patterns against the real PUB/XPUB send path; verdicts on logical quiescence, never on wall-clock.",
        note="trusted: pipe credit model; high-water mark 131072 bytes of asynchronous-codec's FramedWrite",
        assumptions=SIM_ASSUME + ["retained bytes are only flushed by the next matching publish (best-effort flush in try_send): the harness publishes drain messages after a resume and asserts no delivery deadline for a subscriber that stalled"],
        hang_is_violation=True,
    ),
    "C13": dict(
        built=True, level="exploration", design_ref="4/C13",
        technique="runtime monitor: per-peer fold of the subscription traffic on each wire tap compared with the API call history at every logical quiescent point; joins stalled by write credit between 'socket read its set' and 'peer registered' with an API call issued inside",
        rule="targeted sweep: 8 prefix histories x {no earlier peer, one earlier peer} x join stalled after 0..15 bytes of re-subscription traffic x 6 calls issued inside the stalled join, followed by a plain late joiner and one more change (1536 histories, complete); plus seeded random histories of 12 operations over {subscribe, unsubscribe (4 topics, incl. repeated and absent), plain join, stalled join with inner call, one peer's connection failing}; non-trivial = every history (each has >= 1 join and >= 1 call); distinct by operation list. A run must be consistent with set semantics or with counted semantics at all points and for all peers",
        text="Join points are enumerated byte by byte for the re-subscription window on one thread; true-parallel windows without a suspension point are out of reach of this leg.",
        note="trusted: the publisher-side fold (multiset with floor-0 removal) is what a ZMTP publisher computes",
        assumptions=SIM_ASSUME + ["the statement does not say whether repeated subscribes are counted: either reading is accepted if used consistently"],
    ),
    "C14": dict(
        built=True, level="fault_enumeration", design_ref="4/C14",
        technique="runtime monitoring with injected cancellation: the pending recv future is dropped after j polls at every byte-arrival position; exactly-once/in-order history checker over later recv calls plus protocol-state probes (REQ still owes the recv, REP still refuses a reply)",
        rule="faults = cancellation points: for each of the 7 receiving socket types, every byte-arrival position 0..len+1 of a 3-frame message x 0..4 polls before the drop x 1..3 consecutive abandoned calls (targeted sweep, complete), plus seeded multi-peer histories (1..5 peers) where every recv call is abandoned after 0..3 polls with probability 2/3; non-trivial = every case (each contains at least one recv call, >95% at least one drop); distinct by (type, position, polls, repeats) or seed",
        text="The cancellation-point grid for a single message is enumerated completely per socket type; multi-peer interleavings are seeded. Nothing is claimed for cancellation inside code that has no suspension point (there is none to cancel at).",
        note="trusted: dropping the boxed future is exactly what select!/timeout do",
        assumptions=SIM_ASSUME,
    ),
    "C15": dict(
        built=True, level="exploration", design_ref="4/C15",
        technique="runtime monitor: offline history checker over clock-stamped wire taps on both sides of a real proxy() future (exactly-once, verbatim incl. routing envelope, per-connection order, capture copies), driven by seeded schedules that make both sides ready in the same poll; real REQ -> ROUTER/proxy/DEALER -> REP chains over in-memory wires with seeded segmentation",
        rule="scripted leg: 1..4 scripted REQ/DEALER clients x 1..3 scripted REP/DEALER workers x {no capture, PUSH capture with scripted PULL peer}, 5 pipelined requests per client of 6 payload shapes, seeded byte-release schedules incl. 'release everything on both sides, then poll the proxy once'; chain leg: 1..4 real REQ sockets and 1..3 real REP sockets connected through in-memory wires pumped in seeded chunk sizes {1,7,96,4096,all}; non-trivial = runs with more than one client or worker; distinct by seed; interleaving id = hash of scheduler actions",
        text="Forwarding is checked message by message on every executed schedule; schedules are sampled, the select! tie-break inside proxy() is the library's own.",
        note="trusted: tag checksum ties each forwarded message to the request/reply it came from",
        assumptions=SIM_ASSUME + ["ROUTER/DEALER proxies only (the statement is about the request-reply chain); the proxy future with a capture socket is not Send and is polled on the driver thread"],
        hang_is_violation=True,
    ),
    "C16": dict(
        built=True, level="fault_enumeration", design_ref="4/C16",
        technique="runtime monitoring with injected connection faults through in-memory pipes: error-count, spin, routing and release monitors (pipe halves dropped = transport handle released) at logical quiescent points, healthy-peer exchange for isolation",
        rule="faults = every socket type (9) x cut position in the dying peer's stream (7 positions inside/around its second message; 7 handshake offsets) x {orderly close, reset, protocol error at item boundaries; + write error during handshake} x discovery order {read side first, write side first} x 0..3 other live peers, enumerated completely; non-trivial = every case (a connection actually ends); distinct by grid coordinates. 'Observed' = the pipe handed the end/undecodable bytes to the library's read side, or an awaited send returned the write error",
        text="The fault grid is enumerated completely against the real sockets; descriptor/task accounting over real TCP/IPC is a separate leg. Faults outside the grid (one-directional failures) are deliberately not generated.",
        note="trusted: pipe Drop hooks as the definition of 'transport handle released'",
        assumptions=SIM_ASSUME + ["an ended connection is dead in both directions (close: EOF + EPIPE, reset: ECONNRESET both ways)", "PUB/XPUB send is fire-and-forget: write-first discovery on a publisher only requires release after the read side was polled"],
        hang_is_violation=True,
    ),
    "C17": dict(
        built=True, level="fault_enumeration", design_ref="4/C17",
        technique="runtime monitoring on the real runtime: per-case tokio multi-thread runtime, real TCP v4/v6 and IPC listeners, raw peers; observations = OS-level connect refused / IPC file gone, raw peers reading end-of-stream, runtime alive-task metric back to 0; bounded waits guarded by a canary (inconclusive if the canary is slow); in-memory mirror with pipe-drop and gated-task monitors",
        rule="grid = socket type (9) x transport {tcp4, tcp6, ipc} x history prefix {bound only, bound + 2 accepted peers, connected out, mid-traffic with a parked-then-abandoned recv, raw client stuck mid-handshake} x {close, drop} = 270 cells (thorough: all; quick: all tcp4 cells + a seeded third of the others) plus the in-memory mirror 9 types x {idle, recv parked then dropped, after traffic} x {close, drop}; every cell is non-trivial; distinct by grid coordinates",
        text="Every grid cell executed is a complete create/use/close-or-drop lifecycle on real OS sockets; 'close reports each failure it met' is only checked in the no-failure direction (failures cannot be injected at OS level).",
        note="trusted: tokio's num_alive_tasks metric; OS connect semantics for 'refuses new connections'",
        assumptions=COMMON_ASSUME + ["'shortly afterwards' after drop = within a 6 s bounded wait while a plain tokio canary completes connect/accept/close/EOF in < 1 s; otherwise inconclusive", "close() returning a non-empty error list when nothing failed counts as a violation; the converse direction is not reachable"],
        hang_is_violation=True,
    ),
    "C18": dict(
        built=True, level="exploration", design_ref="4/C18",
        technique="runtime monitor: model-based operation sequences on the real runtime (real TCP v4/v6/localhost and IPC listeners) compared with a reference model of the bind set after every operation; OS-level connect probes and tagged exchanges over every connection ever made",
        rule="seeded operation sequences of length 10..40 over {bind tcp4:0, tcp6:0, localhost:0, fresh ipc path, duplicate of a bound endpoint, unbind bound, unbind unknown / already unbound, connect-in to every bound endpoint + exchange on every earlier connection} for REP, PULL, PUB, ROUTER sockets (12 sequences per type quick, 100 thorough); every sequence is non-trivial (>= 10 operations); distinct by seed",
        text="Each operation's effect on binds(), on OS-level connectability (checked immediately after unbind returns) and on established connections is compared with the model on every executed sequence; sequences are sampled.",
        note="trusted: reference bind-set model in harness/src/props/c18.rs; OS connect semantics",
        assumptions=COMMON_ASSUME + ["bounded waits (6 s) apply only to message delivery over loopback, not to the by-the-time-it-returns checks"],
        hang_is_violation=True,
    ),
    "C19": dict(
        built=True, level="exploration", design_ref="4/C19",
        technique="runtime differential monitor: library parser vs independent reference parser over exhaustive small-alphabet strings, grammar-based and random Unicode strings; panic, accept/reject, classification and round-trip oracles",
        rule="every string over the 15-symbol alphabet up to length 5 (quick) / 6 (thorough) after each of 5 prefixes, enumerated exhaustively, plus seeded grammar-based near-valid endpoints and random Unicode; a string is non-trivial when it contains '://' (gets past the scheme split); distinct by string",
        text="All strings of the reduced alphabet up to the bound are enumerated (exhaustive within that space) and compared against a reference parser written from the statement; beyond it, seeded sampling.",
        note="trusted: reference parser (harness/src/props/c19.rs) and std::net address parsing",
        assumptions=COMMON_ASSUME + ["strings containing a line feed are expected to be rejected (single-line grammar)"],
        exhaustive={"quick": False, "thorough": False},
    ),
}

PROPS["C20"] = dict(
    built=True, level="fault_enumeration", design_ref="4/C20",
    technique="runtime monitoring on the real runtime with injected handshake faults: raw clients that stop / close / switch to garbage at a chosen byte offset of greeting+READY while well-behaved raw clients connect before, during and after and exchange tagged messages; socket monitor event stream checked for AcceptFailed / Accepted counts; canary-guarded bounded waits",
    rule="faults = byte offset 0..N+3 of a valid greeting+READY (N ~ 95; thorough: every offset, quick: boundaries 0,9,10,63,64,65,N, multiples of 8 and a seeded quarter) x {stop sending, close, garbage} x 1..8 simultaneous bad clients x bound socket types {REP, ROUTER, PULL, PUB, XPUB} x {tcp4, ipc}; every scenario is non-trivial (>= 1 bad client and 4 good clients); distinct by (type, transport, bad-client list)",
    text="Each (offset, behaviour) pair is executed against a live listener with good clients interleaved; progress of good clients is a bounded wait guarded by a canary, never a bare timeout verdict.",
    note="trusted: socket monitor channel (1024 events) is not overflowed by these scenarios",
    assumptions=COMMON_ASSUME + ["a client that closes mid-handshake must produce exactly one AcceptFailed; a garbage client produces at most one (garbage inside a variable-length READY field is data and may even complete a valid handshake)", "stalled handshakes produce no event until they end"],
    hang_is_violation=True,
)

# scenarios added after the first build (DESIGN.md sections 4, 8, 9); appended to the rule texts
ADDENDA = {
    "C01": "Also messages encoded while earlier bytes are still queued for the connection (PUB/XPUB with a stalled subscriber, abandoned sends on PUSH/DEALER/ROUTER), and a real-transport leg: greeting and READY of all 9 types read by a raw peer over tcp4/tcp6/ipc from the bound end and from the connecting end; READY judged for every configured identity length 1..255 on all 9 types; messages of 17..5000 tiny frames.",
    "C03": "Also well-formed greetings naming PLAIN/CURVE/GSSAPI/random mechanisms, as-server 1 and other versions, and a real-transport leg: 4 types x {tcp4, ipc} x 8 hostile or incomplete prefixes whose connection stays open while a healthy peer connects and exchanges (each case in a child process with a kill timer, half with a dropped monitor receiver); complete messages of 1023..1026, 2050, 4096/7, 65536/7 frames; the built-in proxy(ROUTER, DEALER) as consumer of every hostile class from either side; READY with every RFC socket-type name.",
    "C02": "Also a stream with messages of 1025 and 3000 tiny frames and nothing behind them, a stream of small frames in the 8-octet size form, and a real-transport leg: 8 raw peers writing 1500 (quick) / 6000 (thorough) tagged messages each in 2-3 pieces to PULL/ROUTER/SUB/DEALER on a 4-worker runtime.",
    "C04": "A valid peer after 260 rejected or abandoned handshakes on one socket. The first-item dimension also has 'other command / PING / message followed by a perfectly valid READY' (226 800 grid points). Also every wrong value (255 each) of either signature byte with everything else valid (whole and byte-at-a-time, 9 local types), and a real-transport leg: 9 types x {tcp4, ipc} x 4 stall offsets, a valid peer and a PAIR peer connecting while another connection sits silent mid-handshake, with the monitor requested before bind / after bind / again; generated identities checked against peers announcing their big-endian successors.",
    "C05": "Also: cooperative-yield / new-waker / re-insert actions at the probe level; socket histories with peers reconnecting under their identity and yielding pipes; a busy recv loop in block_on (child process); real library socket pairs over TCP on a 4-worker runtime (PUSH-PULL, PUB-SUB, DEALER-ROUTER, REQ-REP x 1/4/8 senders x 300 (quick) / 3000 (thorough) tagged messages); a fifth of the socket histories with abandoned recv calls; 33..130 idle connected peers of which one then speaks; frames of 70000/140000 bytes in a tenth of the history messages; targeted: noticed end + reconnect + 4 messages, unknown command followed by a short message.",
    "C06": "Also: cooperative-yield / new-waker / re-insert actions, the busy recv loop child (CPU time tells a spin from a block), the real socket pairs of C05 (receiver starvation), and 33..130 idle connected peers of which one then speaks (the parked receiver must be woken); scripted cases in which one key is inserted again 3..17 times while busy (it must not collect one more turn per re-insertion; F25).",
    "C07": "Also two requests through one REP (answered / abandoned / requester gone), REQ after a server died with a request outstanding, and a real ROUTER hop: 1..3 raw REQ clients with no / empty / 1-byte / 255-byte Identity property -> library ROUTER -> frames forwarded verbatim -> library REP and back, over the shape grid, followed by a client restarting under its identity with the old connection still open. One scripted-peer message in eight uses the 8-octet size form for every frame.",
    "C08": "Also base-3 sequences with abandoned recv (REQ) and envelope-violating requests (REP), a REP client reconnecting under its identity between request and reply, a REQ send that fails, reconnect in the turn the old end is noticed, concurrent clients with no / an empty Identity property, a command frame between a request and its reply on REQ, and a REP send abandoned under back-pressure.",
    "C09": "Also peers announcing an Identity property of length 0 (several per socket), peers reconnecting under their identity before/after the old end was observed, FIN-only departure, and a send abandoned while pending under back-pressure followed by further sends to the same identity; the same send not abandoned (complete on the connection when it returns); reconnect in the turn the end is noticed; a valid peer that is not admitted is a violation.",
    "C10": "Also peers dying mid-run, peers reconnecting under their identity (old end unseen / seen by send / seen by recv), REQ peers answering with malformed replies, and a real-transport leg: raw peers joining a bound PUSH/DEALER socket on a 4-worker runtime while the application keeps sending, then a window of 3n sends in which every connected peer must be served; sends abandoned while waiting for a peer that does not read (the rotation stays intact, no send fails while a peer is connected).",
    "C11": "Also 2..7 subscribers under random identities with one connection failing writes (broken pipe / reset / zero-length write) while 50-140 KB bodies push its buffer past the high-water mark, and a subscriber reconnecting under its old identity (old connection open / closed unnoticed / closed noticed); subscribers announcing an identity, none, or an empty Identity property; non-UTF-8 topics; a large last publish (open known finding K1).",
    "C12": "Also a connection reset while at the high-water mark fan-out to 96 / 200 subscribers with churn, stalled subscribers that send subscription changes while stalled, and a child-process leg: PUB/XPUB over TCP on a 4-worker runtime publishing 20000 (quick) / 200000 (thorough) messages while 1 or 3 subscribers write bursts of subscribe/unsubscribe pairs.",
    "C13": "Also a peer rejoining under its identity, and a real-transport leg: SUB bound on TCP, 120 subscribe/unsubscribe calls in a loop while 8 raw publishers connect from other tasks of a 4-worker runtime at seeded delays (joins landing inside the loop are counted); failing peers fail by close / reset / write-only reset / zero-length write; per-case identities; calls made while a peer is not reading.",
    "C14": "Also REP owing a reply while further recv calls are abandoned, and a burst of 600 messages drained by polling each recv future once (dropping it if not finished) within one poll of the task.",
    "C15": "Also a client reconnecting under its identity, an idle worker leaving while requests are in flight, pipes that yield cooperatively, and clients that stop reading for a while.",
    "C16": "Also FIN-only faults, a connection replaced by a new one under the same identity (old one ended-unnoticed / parked / half-open), SUB subscription updates after the fault, and a child-process leg: a bound socket of each type serving 60 (quick) / 600 (thorough) connect-exchange-disconnect cycles over tcp and ipc with /proc/self/fd and alive-task counts compared before/after; a live peer with a message waiting when the end is noticed; reconnect after the old end was noticed (EOF / error / reset); a send blocked on a silent peer while another peer is being registered and the first one fails (executor must not deadlock).",
    "C17": "Also a peer stalled with data queued, two live connections announcing one identity, a connect() abandoned mid-handshake, re-binding the same TCP port after close/drop (peers still open / closed), SUB with a joiner parked in the subscription announcement, and close/drop of an IPC listener after an accept-error episode (child process).",
    "C18": "Also unbind of another host spelling carrying a live listener's port, 1..12 blocking connects racing an unbind (none may be admitted afterwards), a silent client, unbind immediately followed by bind of the same ipc endpoint, and a child-process leg (4 types x tcp4/tcp6/ipc) in which accept() itself fails for ~120 ms (descriptor table full; failures counted through the monitor) and must recover. A probe of an unbound endpoint is attributed to the socket under test only by the Accepted event carrying the probe's one-off identity (ephemeral ports are recycled among parallel cases).",
    "C19": "Also random IPv4/IPv6 values rendered in every textual form (zero-padded, upper case, '::' anywhere, dotted-quad tails up to 45 characters), bracketed or not; every string also through the TryIntoEndpoint conversion used by bind()/connect(); white-space-padded variants.",
    "C20": "Also the behaviour 'fin' (orderly half-close, connection kept open), 40 stalled / 24 mixed simultaneous bad clients, the accept-error child of C18 with 12 silent clients connected (5 types x tcp4/ipc), and a monitor overflow (1300 failed handshakes while the monitor is not read, then further failures and a good client must still be reported).",
}
for _pid, _t in ADDENDA.items():
    PROPS[_pid]["rule"] += " " + _t

# sanitizer legs of the thorough tier (see legs.py)
for _pid, _legs in {"C01": ["miri"], "C02": ["miri"], "C03": ["miri", "asan", "plain-release"],
                    "C05": ["miri-seeds"], "C06": ["miri-seeds"], "C16": ["miri", "asan"], "C17": ["miri", "asan"]}.items():
    PROPS[_pid]["legs"] = {"thorough": _legs}
    PROPS[_pid]["technique"] += "; thorough tier adds sanitizer legs over a reduced in-memory workload: " + ", ".join(_legs)
    PROPS[_pid].setdefault("timeout", {})["thorough"] = 14400

ORDER = ["C%02d" % i for i in range(1, 21)]


def write_manifest(path):
    checks = []
    na = []
    for pid in ORDER:
        m = PROPS.get(pid)
        if not m or not m.get("built"):
            na.append({"property_id": pid,
                       "reason": "monitor not built yet in this session (design in DESIGN.md section 4); not claimed until its check exists and is silent on the unchanged tree"})
            continue
        checks.append({
            "property_id": pid,
            "quick_cmd": "./check %s --tier quick" % pid,
            "thorough_cmd": "./check %s --tier thorough" % pid,
            "evidence_file": "evidence/%s.json" % pid,
            "replay_cmd_template": "./check %s --replay {path}" % pid,
            "engine": "zmqmon",
            "level_claimed": {"category": m["level"], "text": m["text"], "design_ref": "DESIGN.md section " + m["design_ref"]},
            "level_note": m["note"],
            "technique": m["technique"],
        })
    man = {
        "version": 1,
        "setup_cmd": "./check --setup",
        "hooks": {
            "guard": "verif-hooks",
            "enable": "cargo feature: the harness crate depends on zeromq = { path = \"/repo\", features = [\"verif-hooks\"] }",
            "baseline_off_cmd": "cd /repo && cargo test --workspace --no-fail-fast --offline",
            "source_commits": HOOK_COMMITS,
            "add_only": True,
        },
        "engines": [{
            "name": "zmqmon",
            "path": "harness/",
            "serves_properties": [c["property_id"] for c in checks],
            "kind_free_text": "Rust harness linking the real zmq.rs with hooks on: in-memory pipes with wire taps and fault injection, seeded single-threaded simulation driver with logical quiescence and lost-wake-up probe, independent reference codec, history/ordering/conservation oracles, counting allocator, child-process isolation, real-transport rig; python driver ./check applies the known-findings filter and writes evidence",
        }],
        "checks": checks,
        "not_applicable": na,
        "notes": "Runtime monitoring family only. Verdicts are three-valued: exit 0 held on what was observed, exit 1 VIOLATION with replayable witness, exit 2 INCONCLUSIVE (never a VIOLATION line). See DESIGN.md.",
    }
    with open(path, "w") as f:
        json.dump(man, f, indent=1)
        f.write("\n")


HOOK_COMMITS = ["c9656b6"]
FIX_COMMITS = ["48acad6", "f3d84e9", "be9d015", "f1a8fb7", "1cfb825", "8c4f97d", "f5bbfca", "5a43de4", "bb4d285", "5ad7c15", "d7cbe1d", "4a082f5", "870d37c", "bbdc498", "8f19308", "42821fe", "3b285b1", "b9c5421", "7c27ddf", "cd5aa0b", "9b1811c", "8ae0075", "fa5418c", "9583e08", "00e00b3"]
