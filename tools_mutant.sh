#!/bin/bash
# usage: tools_mutant.sh <patch-file> <ID> [<ID>...]  — apply a patch to /repo, run the checks, always undo
set -u
patch=$1; shift
cd /repo && git apply "$patch" || { echo "patch does not apply"; exit 9; }
for id in "$@"; do
  (cd /verif && timeout 3000 ./check $id --tier ${TIER:-quick}); echo "[$id] exit=$?"
done
cd /repo && git checkout -- . && git status --short
