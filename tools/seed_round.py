#!/usr/bin/env python3
"""Prepare a round of seeded changes: one scratch git worktree of /repo per property under
<dir>/CNN (with Cargo.lock copied in) and a prompt file <dir>/CNN.prompt.txt containing the
property text, the ideas already used for that property (summaries of seeded/*/meta.json)
and this round's emphasis.  A fresh sub-agent per property is then told to read its prompt
file; it sees nothing of /verif.
Usage: tools/seed_round.py <dir> <round-no> "<emphasis text>" [CNN ...]"""
import json, glob, os, subprocess, sys

def main():
    base, rnd, emphasis = sys.argv[1], sys.argv[2], sys.argv[3]
    only = sys.argv[4:]
    os.makedirs(base, exist_ok=True)
    props = {}
    for l in open('/verif/properties.jsonl'):
        d = json.loads(l); props[d['id']] = d
    prior = {}
    for f in sorted(glob.glob('/verif/seeded/C*/meta.json')):
        pid = f.split('/')[3].split('-')[0]
        m = json.load(open(f))
        prior.setdefault(pid, []).append((m.get('summary') or '')[:330].replace('\n', ' '))
    for pid, d in props.items():
        if only and pid not in only:
            continue
        wt = f'{base}/{pid}'
        subprocess.run(['git', '-C', '/repo', 'worktree', 'add', '--detach', wt, 'HEAD'], check=True, stdout=subprocess.DEVNULL, stderr=subprocess.DEVNULL)
        subprocess.run(['cp', '/repo/Cargo.lock', wt + '/Cargo.lock'], check=True)
        anchors = d.get('anchors', {})
        anchor_txt = json.dumps({k: anchors[k] for k in anchors if k in ('files', 'state', 'mechanism')}, indent=1)
        ideas = '\n'.join(f'  - {x}' for x in prior.get(pid, []))
        prompt = f'''You are helping to evaluate a test-and-verification setup for the Rust crate zeromq (zmq.rs, a native async implementation of ZeroMQ/ZMTP 3.0).
You work ONLY inside your own scratch git worktree of the crate: {wt}   (never touch /repo, never look at /verif, never commit anything).
Everything is offline: always pass --offline to cargo (CARGO_NET_OFFLINE=true). A Cargo.lock is already in place. Builds take ~1 minute the first time.

The crate is supposed to satisfy this semantic property (id {pid}):

TITLE: {d['title']}

STATEMENT: {d['statement']}

QUANTIFIER: {d['quantifier']['text']}

WHY THE EXISTING TESTS CANNOT SETTLE IT: {d['why_tests_cant']}

WHERE IT LIVES (anchors): {anchor_txt}

YOUR TASK: produce up to TWO independent source changes ("A" and "B") to the crate, each of which
  1. BREAKS the property above (for some input / schedule / history that the statement quantifies over),
  2. still COMPILES (cargo build --offline, and also cargo build --offline --features verif-hooks) and
  3. still PASSES the crate's existing test suite unchanged (cargo test --workspace --no-fail-fast --offline; a few tests talk to libzmq over TCP and take some seconds), and
  4. needs something SPECIFIC to manifest (a particular input class, boundary, interleaving, peer behaviour, transport, error kind ...) so that ordinary use looks fine, and
  5. looks like a change a real developer could plausibly make (a refactoring, an "optimisation", a "simplification", a well-meant robustness tweak) - not sabotage guarded by magic constants.

These ideas were ALREADY USED in earlier rounds for this property - do something different in mechanism AND trigger:
{ideas}

This is round {rnd}. Emphasis for this round: {emphasis} Keep each change small (a few lines to a few dozen).

For EACH change write a demonstration: an integration test file tests/mutant_a_demo.rs (resp. mutant_b_demo.rs) that FAILS with the change applied and PASSES on the unchanged tree (run it several times on the unchanged tree to be sure it is not flaky; use generous timeouts; the build uses -D unsafe-code so put #![allow(unsafe_code)] at the top if you need unsafe). Use only the crate's public API plus raw tokio TCP/Unix sockets speaking ZMTP by hand where needed (dev-dependencies already in Cargo.toml are available; do not add dependencies).

DELIVERABLES (per change X in A, B), written into {wt}/OUT/X/ :
  - patch.diff   : `git diff -- src Cargo.toml` of ONLY the source change (not the demo test), must apply with `git apply` to the unchanged tree
  - demo.rs      : copy of the demo test file
  - meta.json    : {{"property": "{pid}", "summary": "<what was changed and why it looks plausible>", "trigger": "<what exactly is needed to see the break>", "why_suite_passes": "...", "demo_cmd": "cargo test --offline --test mutant_x_demo", "demo_fails_with_change": true/false, "demo_passes_without_change": true/false, "suite_passes_with_change": true/false}}
with the three booleans being what you actually OBSERVED.
When you are done: leave src/ UNCHANGED (git checkout -- src Cargo.toml), leave the demo tests in tests/ and OUT/ in place, commit nothing. Report in a few lines what each change is, its trigger, and the observed booleans. If you cannot find a second good change, deliver one. If you notice that the UNCHANGED tree already misbehaves (hangs, loses a message, ...), say so in your report with the exact scenario.
'''
        open(f'{base}/{pid}.prompt.txt', 'w').write(prompt)
    print("prepared", base)

main()
