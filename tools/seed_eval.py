#!/usr/bin/env python3
"""Confirm a seeded change in its scratch worktree, run the checks against it the
brief's way (git -C /repo apply ... checkout), and file it under /verif/seeded/.

  tools/seed_eval.py <worktree> <A|B> <seed-id> <check-id>[,<check-id>...] [--thorough]
"""
import json, os, subprocess, sys, shutil, time

def sh(cmd, cwd=None, timeout=3000):
    p = subprocess.run(cmd, cwd=cwd, shell=True, stdout=subprocess.PIPE, stderr=subprocess.STDOUT, text=True, timeout=timeout,
                       env=dict(os.environ, CARGO_NET_OFFLINE="true"))
    return p.returncode, p.stdout

def main():
    wt, which, sid, checks = sys.argv[1], sys.argv[2], sys.argv[3], sys.argv[4].split(",")
    thorough = "--thorough" in sys.argv
    out = os.path.join(wt, "OUT", which)
    patch = os.path.join(out, "patch.diff")
    meta = json.load(open(os.path.join(out, "meta.json")))
    demo_cmd = meta["demo_cmd"]
    rec = {"property": meta.get("property"), "summary": meta.get("summary"), "needs": meta.get("needs"),
           "why_tests_pass": meta.get("why_tests_pass"), "demo_cmd": demo_cmd, "source": "independent sub-agent, worktree of /repo at %s" % sh("git rev-parse --short HEAD", wt)[1].strip()}
    # 1. confirmation in the scratch worktree
    sh("git checkout -- src", wt)
    rc0, o0 = sh(demo_cmd, wt)
    rec["confirmed_demo_passes_without_change"] = rc0 == 0
    rc, o = sh("git apply %s" % patch, wt)
    if rc != 0:
        print("patch does not apply in worktree", o); return 2
    rc1, o1 = sh("cargo build --offline", wt)
    rec["confirmed_builds_with_change"] = rc1 == 0
    rc2, o2 = sh("cargo test --workspace --no-fail-fast --offline -- --skip mutant 2>&1 | grep -E '^test result|FAILED|failed' ; exit ${PIPESTATUS[0]}", wt)
    # run the original suite only: exclude the demo test binaries
    rcs, os_ = sh("for t in $(ls tests/*.rs | grep -v mutant | xargs -n1 basename | sed 's/.rs$//'); do cargo test --offline --test $t 2>&1 | grep -E '^test result|FAILED' ; done; cargo test --offline --lib 2>&1 | grep -E '^test result|FAILED'; cargo test --offline --doc 2>&1 | grep -E '^test result|FAILED'", wt)
    failed = [l for l in os_.splitlines() if "FAILED" in l or ("test result" in l and " 0 failed" not in l)]
    rec["confirmed_suite_passes_with_change"] = len(failed) == 0
    rec["suite_output"] = os_.strip().splitlines()[-14:]
    rc3, o3 = sh(demo_cmd, wt)
    rec["confirmed_demo_fails_with_change"] = rc3 != 0
    rec["demo_failure_excerpt"] = [l for l in o3.splitlines() if "panicked" in l or "FAILED" in l or "assert" in l][:6]
    sh("git checkout -- src", wt)
    # 2. the checks, against /repo itself
    rc, o = sh("git -C /repo status --short")
    if o.strip():
        print("/repo is dirty, refusing"); return 2
    rebased = None
    alt = os.path.join(out, "patch.for_repo.diff")  # hand-rebased onto the current tree
    if os.path.exists(alt):
        patch_repo = alt
        rebased = open(alt).read()
        rec["patch_rebased_onto"] = sh("git -C /repo rev-parse --short HEAD")[1].strip() + " (by hand: the original conflicted with a later fix)"
    else:
        patch_repo = patch
    rc, o = sh("git -C /repo apply %s" % patch_repo)
    if rc != 0:
        # the tree moved on since the change was written: three-way merge against the blobs it was made on
        rc, o = sh("git -C /repo apply --3way %s && git -C /repo reset -q" % patch)
        if rc != 0:
            sh("git -C /repo reset -q --hard")
            print("patch does not apply to /repo", o); return 2
        # refresh the stored patch so that it applies to the current tree
        rc2, newdiff = sh("git -C /repo diff -- src")
        if rc2 == 0 and newdiff.strip():
            rec["patch_rebased_onto"] = sh("git -C /repo rev-parse --short HEAD")[1].strip()
            rebased = newdiff
    results = {}
    try:
        for cid in checks:
            t0 = time.time()
            rcq, oq = sh("./check %s --tier quick" % cid, "/verif")
            results[cid] = {"quick_exit": rcq, "quick_s": round(time.time() - t0, 1),
                            "quick_lines": [l for l in oq.splitlines() if l.startswith(("VIOLATION", "  signature", "INCONCLUSIVE", "KNOWN"))][:12]}
            if rcq != 1 and thorough:
                t0 = time.time()
                rct, ot = sh("./check %s --tier thorough" % cid, "/verif", timeout=14000)
                results[cid].update({"thorough_exit": rct, "thorough_s": round(time.time() - t0, 1),
                                     "thorough_lines": [l for l in ot.splitlines() if l.startswith(("VIOLATION", "  signature", "INCONCLUSIVE"))][:12]})
    finally:
        sh("git -C /repo checkout -- .")
    rec["checks"] = results
    rec["caught_by"] = sorted([c for c, r in results.items() if r.get("quick_exit") == 1 or r.get("thorough_exit") == 1])
    rec["what_was_run"] = ["in the scratch worktree: demo on unchanged src, git apply, cargo build, original test suite, demo again, git checkout",
                           "against /repo: git apply, ./check <id> --tier quick for " + ",".join(checks) + ", git checkout -- ."]
    ok = all(rec[k] for k in ["confirmed_demo_passes_without_change", "confirmed_builds_with_change", "confirmed_suite_passes_with_change", "confirmed_demo_fails_with_change"])
    rec["confirmed"] = ok
    d = os.path.join("/verif/seeded", sid)
    if ok:
        os.makedirs(d, exist_ok=True)
        if rebased:
            open(os.path.join(d, "patch.diff"), "w").write(rebased)
        else:
            shutil.copy(patch, os.path.join(d, "patch.diff"))
        shutil.copy(os.path.join(out, "demo.rs"), os.path.join(d, "demo.rs"))
        json.dump(rec, open(os.path.join(d, "meta.json"), "w"), indent=1)
    print(json.dumps({k: rec[k] for k in ["confirmed", "confirmed_demo_passes_without_change", "confirmed_suite_passes_with_change", "confirmed_demo_fails_with_change", "caught_by"]}))
    for c, r in results.items():
        print(c, r)
    return 0

sys.exit(main())
