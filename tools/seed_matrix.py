#!/usr/bin/env python3
"""Run every registered check (quick tier) against every seeded change, the brief's way:
git -C /repo apply <patch>; ./check ...; git -C /repo checkout -- .   Updates
seeded/<id>/meta.json (checks, caught_by, caught_by_own_property) and writes
seeded/MATRIX.md.   Usage: tools/seed_matrix.py [id ...]"""
import json, os, subprocess, sys, time, glob

ALL = ["C%02d" % i for i in range(1, 21)]

def sh(cmd, cwd=None, timeout=6000):
    p = subprocess.run(cmd, cwd=cwd, shell=True, stdout=subprocess.PIPE, stderr=subprocess.STDOUT, text=True, timeout=timeout,
                       env=dict(os.environ, CARGO_NET_OFFLINE="true"))
    return p.returncode, p.stdout

def main():
    ids = sys.argv[1:] or sorted(os.path.basename(d) for d in glob.glob("/verif/seeded/C*"))
    if sh("git -C /repo status --short")[1].strip():
        print("/repo is dirty"); return 2
    for sid in ids:
        d = os.path.join("/verif/seeded", sid)
        meta = json.load(open(os.path.join(d, "meta.json")))
        rc, o = sh("git -C /repo apply %s" % os.path.join(d, "patch.diff"))
        if rc != 0:
            # /repo moved on (later fix commits): three-way merge, then store the rebased patch
            rc, o = sh("git -C /repo apply --3way %s && git -C /repo reset -q" % os.path.join(d, "patch.diff"))
            if rc != 0:
                sh("git -C /repo reset -q --hard")
                print(sid, "patch does not apply:", o[:200]); continue
            rc2, newdiff = sh("git -C /repo diff -- src Cargo.toml")
            if rc2 == 0 and newdiff.strip():
                open(os.path.join(d, "patch.diff"), "w").write(newdiff)
                meta["patch_rebased_onto"] = sh("git -C /repo rev-parse --short HEAD")[1].strip()
        results = {}
        scope = [meta.get("property")] if os.environ.get("MATRIX_SCOPE") == "own" else ALL
        try:
            for cid in scope:
                t0 = time.time()
                rcq, oq = sh("./check %s --tier quick" % cid, "/verif")
                results[cid] = {"quick_exit": rcq, "quick_s": round(time.time() - t0, 1),
                                "signatures": [l.strip()[len("signature: "):].split(" (seen")[0] for l in oq.splitlines() if l.strip().startswith("signature:")][:6],
                                "inconclusive": [l for l in oq.splitlines() if l.startswith("INCONCLUSIVE")][:1]}
        finally:
            sh("git -C /repo checkout -- .")
        meta["checks"] = results
        meta["caught_by"] = sorted(c for c, r in results.items() if r["quick_exit"] == 1)
        own = meta.get("property")
        meta["caught_by_own_property"] = bool(own in meta["caught_by"])
        meta["matrix_run_at_repo_commit"] = sh("git -C /repo rev-parse --short HEAD")[1].strip()
        meta["matrix_run_at_verif_commit"] = sh("git -C /verif rev-parse --short HEAD")[1].strip()
        json.dump(meta, open(os.path.join(d, "meta.json"), "w"), indent=1)
        print(sid, "own" if meta["caught_by_own_property"] else "NOT-OWN", meta["caught_by"], flush=True)
    # table
    rows = ["| seeded change | property | what it needs to manifest | caught by its own check (signature) | also caught by |", "|---|---|---|---|---|"]
    for d in sorted(glob.glob("/verif/seeded/C*")):
        m = json.load(open(os.path.join(d, "meta.json")))
        own = m.get("property")
        c = m.get("checks", {})
        sig = ", ".join(c.get(own, {}).get("signatures", [])[:2]) if m.get("caught_by_own_property") else ("*equivalent on the current tree* (" + m["obsolete_on_current_tree"][:200] + ")" if m.get("obsolete_on_current_tree") else ("*not claimed* (" + m["not_claimed"][:200] + ")" if m.get("not_claimed") else "**missed**"))
        others = ", ".join(x for x in m.get("caught_by", []) if x != own)
        rows.append("| %s | %s | %s | %s | %s |" % (os.path.basename(d), own, (m.get("needs") or m.get("trigger") or "")[:160].replace("|", "/").replace("\n", " "), sig, others))
    open("/verif/seeded/MATRIX.md", "w").write("\n".join(rows) + "\n")
    return 0

sys.exit(main())
