#!/usr/bin/env python3
import json,sys
r=json.load(open(sys.argv[1]))
for k in ['evaluations','distinct','distinct_nontrivial','interleavings','states','cases','counters','maxima','signature_counts','inconclusive','wall_s']:
    print(k, r.get(k))
print('floors unmet', [f for f in r.get('floors',[]) if not f['met']])
for v in r.get('violations',[])[:12]: print('VIOL', v['signature'], '|', v['message'][:400], '|', json.dumps(v['case'])[:200])
if 'hang' in r: print('HANG', r['hang'])
