#!/usr/bin/env python3
"""Validate MANIFEST.json and evidence/*.json against the given schemas (uses the tooling venv's jsonschema)."""
import json, sys, glob
import jsonschema
ok = True
def v(path, schema):
    global ok
    try:
        jsonschema.validate(json.load(open(path)), json.load(open(schema)))
        print("ok   ", path)
    except Exception as e:
        ok = False
        print("FAIL ", path, str(e)[:300])
v('/verif/MANIFEST.json', '/root/.vp/MANIFEST.schema.json')
for p in sorted(glob.glob('/verif/evidence/*.json')):
    v(p, '/root/.vp/EVIDENCE.schema.json')
sys.exit(0 if ok else 1)
