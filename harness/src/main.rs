//! zmqmon — runtime monitors for zeromq/zmq.rs (see /verif/DESIGN.md).
//!
//!   zmqmon run <ID> --tier quick|thorough --seed N [--threads T] --out FILE
//!   zmqmon replay <witness.json> --out FILE
//!   zmqmon child <kind> ...            (isolated children, C03)

#[cfg(feature = "heapmon")]
pub mod heap;
pub mod fq;
pub mod hist;
pub mod pipe;
pub mod prng;
pub mod props;
pub mod refcodec;
pub mod report;
pub mod rig;
pub mod sim;
pub mod sock;

use report::{Ctx, Tier};
use serde_json::{json, Value};
use std::cell::RefCell;
use std::panic::{catch_unwind, AssertUnwindSafe};
use std::sync::atomic::{AtomicUsize, Ordering};
use std::sync::{Arc, Mutex};
use std::time::{Duration, Instant};

/// One property = a generator of case descriptors and an executor of one case.
/// A case descriptor is plain JSON so a witness file can be replayed as is.
pub trait Prop: Sync + Send {
    fn id(&self) -> &'static str;
    fn cases(&self, tier: Tier, seed: u64) -> Vec<Value>;
    fn run(&self, case: &Value, ctx: &mut Ctx);
    /// (reach counter, minimum) — below a floor the run is inconclusive
    fn floors(&self, _tier: Tier) -> Vec<(&'static str, u64)> {
        vec![]
    }
    /// per-case watchdog
    fn case_timeout(&self) -> Duration {
        // in-memory cases take milliseconds; a minute without returning is a hang
        Duration::from_secs(60)
    }
    /// worker threads (the rig-based properties want fewer)
    fn max_threads(&self) -> usize {
        16
    }
    /// Reduced, single-threaded, in-memory workload for the sanitizer legs
    /// (Miri interprets ~1000x slower; no child processes, no real sockets).
    fn sanitizer_cases(&self, _seed: u64) -> Vec<Value> {
        vec![]
    }
}

thread_local! {
    static LAST_PANIC: RefCell<Option<(String, String)>> = const { RefCell::new(None) };
}

pub fn take_last_panic() -> Option<(String, String)> {
    LAST_PANIC.with(|p| p.borrow_mut().take())
}

fn install_panic_hook() {
    let verbose = std::env::var("VERIF_VERBOSE").is_ok();
    std::panic::set_hook(Box::new(move |info| {
        let loc = info
            .location()
            .map(|l| format!("{}:{}", l.file(), l.line()))
            .unwrap_or_else(|| "?".into());
        let msg = if let Some(s) = info.payload().downcast_ref::<&str>() {
            s.to_string()
        } else if let Some(s) = info.payload().downcast_ref::<String>() {
            s.clone()
        } else {
            "<non-string panic payload>".into()
        };
        if verbose {
            eprintln!("[panic] {loc}: {msg}");
        }
        let _ = LAST_PANIC.try_with(|p| {
            if let Ok(mut p) = p.try_borrow_mut() {
                *p = Some((loc, msg));
            }
        });
    }));
}

/// Is this panic location inside the harness (a harness bug) rather than in
/// zmq.rs or one of its dependencies?
pub fn is_harness_location(loc: &str) -> bool {
    loc.contains("/verif/harness/") || loc.starts_with("src/")
}

/// Stable, line-free form of a panic location for signatures.
pub fn panic_site(loc: &str) -> String {
    let file = loc.rsplit_once(':').map(|x| x.0).unwrap_or(loc);
    if let Some(i) = file.rfind("/src/") {
        // crate-relative path, prefixed by the crate directory name
        let head = &file[..i];
        let krate = head.rsplit('/').next().unwrap_or("");
        let krate = if krate == "repo" { "zeromq" } else { krate };
        return format!("{krate}{}", &file[i..]);
    }
    file.to_string()
}

fn run_case_guarded(prop: &dyn Prop, case: &Value, ctx: &mut Ctx) {
    ctx.current_case = case.clone();
    let r = catch_unwind(AssertUnwindSafe(|| prop.run(case, ctx)));
    if r.is_err() {
        let (loc, msg) = take_last_panic().unwrap_or(("?".into(), "?".into()));
        if is_harness_location(&loc) {
            ctx.inconclusive(format!("harness panic at {loc}: {msg}"));
        } else {
            ctx.violation(
                &format!("{}/panic/{}", prop.id(), panic_site(&loc)),
                format!("library panicked at {loc}: {msg}"),
            );
        }
    }
    ctx.current_case = Value::Null;
}

fn arg_value(args: &[String], name: &str) -> Option<String> {
    args.iter()
        .position(|a| a == name)
        .and_then(|i| args.get(i + 1).cloned())
}

fn write_out(path: &str, v: &Value) {
    let tmp = format!("{path}.tmp");
    std::fs::write(&tmp, serde_json::to_vec_pretty(v).unwrap()).expect("write result");
    std::fs::rename(&tmp, path).expect("rename result");
}

fn cmd_run(args: &[String]) -> i32 {
    let id = args.first().cloned().unwrap_or_default();
    let tier = match arg_value(args, "--tier").as_deref() {
        Some("thorough") => Tier::Thorough,
        _ => Tier::Quick,
    };
    let seed: u64 = arg_value(args, "--seed")
        .and_then(|s| s.parse().ok())
        .unwrap_or(0);
    let out = arg_value(args, "--out").unwrap_or_else(|| "/dev/stdout".into());
    let prop = match props::find(&id) {
        Some(p) => p,
        None => {
            eprintln!("unknown property {id}");
            return 2;
        }
    };
    let threads: usize = arg_value(args, "--threads")
        .and_then(|s| s.parse().ok())
        .unwrap_or(16)
        .min(prop.max_threads())
        .max(1);
    let t0 = Instant::now();
    let cases = Arc::new(prop.cases(tier, seed));
    let next = Arc::new(AtomicUsize::new(0));
    let current: Arc<Vec<Mutex<Option<(Instant, usize)>>>> =
        Arc::new((0..threads).map(|_| Mutex::new(None)).collect());
    let mut handles = Vec::new();
    for t in 0..threads {
        let cases = cases.clone();
        let next = next.clone();
        let current = current.clone();
        let prop = prop.clone();
        handles.push(
            std::thread::Builder::new()
                .name(format!("w{t}"))
                .stack_size(64 << 20)
                .spawn(move || {
                    let mut ctx = Ctx::new(tier, seed);
                    loop {
                        let i = next.fetch_add(1, Ordering::SeqCst);
                        if i >= cases.len() {
                            break;
                        }
                        let c0 = Instant::now();
                        *current[t].lock().unwrap() = Some((c0, i));
                        run_case_guarded(prop.as_ref(), &cases[i], &mut ctx);
                        *current[t].lock().unwrap() = None;
                        let ms = c0.elapsed().as_millis() as u64;
                        ctx.max("slowest_case_ms", ms);
                        if ms > 2000 {
                            let d = cases[i].to_string();
                            ctx.sample("slow_case", || json!({"ms": ms, "case": d.chars().take(200).collect::<String>()}));
                        }
                    }
                    ctx
                })
                .expect("spawn worker"),
        );
    }
    // watchdog: a case that does not return is reported, never waited for
    let limit = prop.case_timeout();
    loop {
        if handles.iter().all(|h| h.is_finished()) {
            break;
        }
        for c in current.iter() {
            if let Some((since, i)) = *c.lock().unwrap() {
                if since.elapsed() > limit {
                    let v = json!({
                        "property": id, "tier": tier.as_str(), "seed": seed,
                        "hang": {"case": cases[i], "elapsed_s": since.elapsed().as_secs_f64()},
                        "wall_s": t0.elapsed().as_secs_f64(),
                    });
                    write_out(&out, &v);
                    eprintln!("watchdog: case {i} did not return within {limit:?}");
                    std::process::exit(3);
                }
            }
        }
        std::thread::sleep(Duration::from_millis(50));
    }
    let mut total = Ctx::new(tier, seed);
    for h in handles {
        match h.join() {
            Ok(c) => total.merge(c),
            Err(_) => total.inconclusive("worker thread died".into()),
        }
    }
    let mut v = total.to_json();
    let floors: Vec<Value> = prop
        .floors(tier)
        .into_iter()
        .map(|(k, min)| {
            let have = total
                .counters
                .get(k)
                .copied()
                .or_else(|| total.maxima.get(k).copied())
                .unwrap_or(0);
            json!({"counter": k, "min": min, "have": have, "met": have >= min})
        })
        .collect();
    let o = v.as_object_mut().unwrap();
    o.insert("property".into(), json!(id));
    o.insert("tier".into(), json!(tier.as_str()));
    o.insert("seed".into(), json!(seed));
    o.insert("cases".into(), json!(cases.len()));
    o.insert("threads".into(), json!(threads));
    o.insert("floors".into(), json!(floors));
    o.insert("wall_s".into(), json!(t0.elapsed().as_secs_f64()));
    write_out(&out, &v);
    0
}

fn cmd_replay(args: &[String]) -> i32 {
    let path = args.first().cloned().unwrap_or_default();
    let out = arg_value(args, "--out").unwrap_or_else(|| "/dev/stdout".into());
    let w: Value = match std::fs::read(&path)
        .ok()
        .and_then(|b| serde_json::from_slice(&b).ok())
    {
        Some(v) => v,
        None => {
            eprintln!("cannot read witness {path}");
            return 2;
        }
    };
    let id = w["property"].as_str().unwrap_or("").to_string();
    let prop = match props::find(&id) {
        Some(p) => p,
        None => {
            eprintln!("unknown property {id}");
            return 2;
        }
    };
    let tier = if w["tier"] == "thorough" {
        Tier::Thorough
    } else {
        Tier::Quick
    };
    let seed = w["seed"].as_u64().unwrap_or(0);
    let t0 = Instant::now();
    let mut ctx = Ctx::new(tier, seed);
    run_case_guarded(prop.as_ref(), &w["case"], &mut ctx);
    let mut v = ctx.to_json();
    let o = v.as_object_mut().unwrap();
    o.insert("property".into(), json!(id));
    o.insert("tier".into(), json!(tier.as_str()));
    o.insert("seed".into(), json!(seed));
    o.insert("cases".into(), json!(1));
    o.insert("floors".into(), json!([]));
    o.insert("replay_of".into(), json!(path));
    o.insert("wall_s".into(), json!(t0.elapsed().as_secs_f64()));
    write_out(&out, &v);
    0
}

/// `zmqmon sanitize <ID> [--seed N]`: run the property's reduced workload on
/// this thread only and print one `SANITIZE-RESULT {json}` line. Used under
/// Miri and in the ASan/LSan build, whose own reports are the extra oracle
/// (UB, data races, leaks at exit); the ordinary monitors stay active too.
fn cmd_sanitize(args: &[String]) -> i32 {
    let id = args.first().cloned().unwrap_or_default();
    let seed: u64 = arg_value(args, "--seed").and_then(|s| s.parse().ok()).unwrap_or(0);
    let prop = match props::find(&id) {
        Some(p) => p,
        None => return 2,
    };
    let cases = prop.sanitizer_cases(seed);
    let mut ctx = Ctx::new(Tier::Quick, seed);
    for c in &cases {
        run_case_guarded(prop.as_ref(), c, &mut ctx);
    }
    let v = ctx.to_json();
    // one write call for the whole line: under -Zmiri-many-seeds several interpreted
    // runs share the host's stdout and piecewise writes interleave
    let line = format!(
        "SANITIZE-RESULT {}\n",
        json!({"property": id, "cases": cases.len(), "evaluations": v["evaluations"], "violations": v["violations"],
               "inconclusive": v["inconclusive"], "counters": v["counters"]})
    );
    {
        use std::io::Write;
        let mut so = std::io::stdout().lock();
        let _ = so.flush();
        let _ = so.write_all(line.as_bytes());
        let _ = so.flush();
    }
    // everything the run created must be gone before the leak checker looks
    drop(ctx);
    drop(cases);
    drop(prop);
    0
}

fn main() {
    install_panic_hook();
    let args: Vec<String> = std::env::args().skip(1).collect();
    let code = match args.first().map(|s| s.as_str()) {
        Some("run") => cmd_run(&args[1..]),
        Some("replay") => cmd_replay(&args[1..]),
        Some("child") => props::child_main(&args[1..]),
        Some("sanitize") => cmd_sanitize(&args[1..]),
        Some("list") => {
            for p in props::all() {
                println!("{}", p.id());
            }
            0
        }
        _ => {
            eprintln!("usage: zmqmon run <ID> --tier T --seed N --out FILE | replay <file> | list");
            2
        }
    };
    std::process::exit(code);
}
