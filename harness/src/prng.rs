//! Small deterministic PRNG (SplitMix64). Every random choice of the harness
//! comes from a stream derived from (VERIF_SEED, property, case index, actor),
//! never from the OS, so a case can be regenerated from its descriptor.

#[derive(Clone, Debug)]
pub struct Rng(u64);

pub fn mix(mut z: u64) -> u64 {
    z = z.wrapping_add(0x9E37_79B9_7F4A_7C15);
    z = (z ^ (z >> 30)).wrapping_mul(0xBF58_476D_1CE4_E5B9);
    z = (z ^ (z >> 27)).wrapping_mul(0x94D0_49BB_1331_11EB);
    z ^ (z >> 31)
}

pub fn hash_bytes(data: &[u8]) -> u64 {
    // FNV-1a folded through mix(); only used for case/interleaving ids.
    let mut h: u64 = 0xcbf2_9ce4_8422_2325;
    for b in data {
        h ^= *b as u64;
        h = h.wrapping_mul(0x0000_0100_0000_01B3);
    }
    mix(h)
}

pub fn hash_str(s: &str) -> u64 {
    hash_bytes(s.as_bytes())
}

impl Rng {
    pub fn new(seed: u64) -> Self {
        Rng(mix(seed ^ 0xA076_1D64_78BD_642F))
    }

    /// Independent stream for a sub-actor.
    pub fn fork(&self, tag: u64) -> Rng {
        Rng(mix(self.0 ^ mix(tag.wrapping_add(0x1234_5678_9ABC_DEF1))))
    }

    pub fn keyed(seed: u64, keys: &[u64]) -> Rng {
        let mut s = mix(seed);
        for k in keys {
            s = mix(s ^ mix(*k));
        }
        Rng(s)
    }

    pub fn next_u64(&mut self) -> u64 {
        self.0 = self.0.wrapping_add(0x9E37_79B9_7F4A_7C15);
        let mut z = self.0;
        z = (z ^ (z >> 30)).wrapping_mul(0xBF58_476D_1CE4_E5B9);
        z = (z ^ (z >> 27)).wrapping_mul(0x94D0_49BB_1331_11EB);
        z ^ (z >> 31)
    }

    /// Uniform in 0..n (n > 0).
    pub fn below(&mut self, n: usize) -> usize {
        debug_assert!(n > 0);
        (self.next_u64() % (n as u64)) as usize
    }

    /// Uniform in lo..=hi.
    pub fn range(&mut self, lo: usize, hi: usize) -> usize {
        lo + self.below(hi - lo + 1)
    }

    pub fn chance(&mut self, num: usize, den: usize) -> bool {
        self.below(den) < num
    }

    pub fn pick<'a, T>(&mut self, xs: &'a [T]) -> &'a T {
        &xs[self.below(xs.len())]
    }

    pub fn fill(&mut self, buf: &mut [u8]) {
        for chunk in buf.chunks_mut(8) {
            let v = self.next_u64().to_le_bytes();
            chunk.copy_from_slice(&v[..chunk.len()]);
        }
    }

    pub fn bytes(&mut self, n: usize) -> Vec<u8> {
        let mut v = vec![0u8; n];
        self.fill(&mut v);
        v
    }

    pub fn shuffle<T>(&mut self, xs: &mut [T]) {
        for i in (1..xs.len()).rev() {
            let j = self.below(i + 1);
            xs.swap(i, j);
        }
    }

    /// Log-uniform in 0..=max.
    pub fn log_uniform(&mut self, max: usize) -> usize {
        if max == 0 {
            return 0;
        }
        let bits = 64 - (max as u64).leading_zeros() as usize;
        let b = self.below(bits + 1);
        if b == 0 {
            return 0;
        }
        let lo = 1usize << (b - 1);
        let hi = ((1usize << b) - 1).min(max);
        if lo > hi {
            return max;
        }
        self.range(lo, hi)
    }
}
