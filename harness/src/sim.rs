//! Single-threaded simulation driver (DESIGN.md §3.3): a tokio current-thread
//! runtime built without I/O or time drivers, managed futures polled by the
//! harness with a recording waker, logical quiescence, the lost-wake-up probe,
//! and observation/gating of library-spawned tasks through hook H4.

use crate::pipe::{activity, bump_activity};
use std::cell::{Cell, RefCell};
use std::collections::{BTreeMap, BTreeSet};
use std::future::Future;
use std::pin::Pin;
use std::sync::atomic::{AtomicBool, AtomicI64, AtomicU64, Ordering};
use std::sync::Arc;
use std::task::{Context, Poll, Wake, Waker};

// ------------------------------------------------------------ task observer

thread_local! {
    static LIVE: RefCell<BTreeSet<u64>> = const { RefCell::new(BTreeSet::new()) };
    static SPAWNED: Cell<u64> = const { Cell::new(0) };
    static TASK_POLLS: Cell<u64> = const { Cell::new(0) };
    static GATE_CLOSED: Cell<bool> = const { Cell::new(false) };
    static GATE_WAITERS: RefCell<BTreeMap<u64, Waker>> = const { RefCell::new(BTreeMap::new()) };
    static SIM_THREAD: Cell<bool> = const { Cell::new(false) };
}

pub static GLOBAL_LIVE: AtomicI64 = AtomicI64::new(0);
pub static GLOBAL_SPAWNED: AtomicU64 = AtomicU64::new(0);

struct Observer;

impl zeromq::__verif::TaskObserver for Observer {
    fn on_spawn(&self, id: u64) {
        GLOBAL_LIVE.fetch_add(1, Ordering::SeqCst);
        GLOBAL_SPAWNED.fetch_add(1, Ordering::SeqCst);
        if SIM_THREAD.with(|s| s.get()) {
            LIVE.with(|l| l.borrow_mut().insert(id));
            SPAWNED.with(|s| s.set(s.get() + 1));
            bump_activity();
        }
    }
    fn gate(&self, id: u64, waker: &Waker) -> bool {
        if SIM_THREAD.with(|s| s.get()) && GATE_CLOSED.with(|g| g.get()) {
            GATE_WAITERS.with(|w| w.borrow_mut().insert(id, waker.clone()));
            return false;
        }
        true
    }
    fn after_poll(&self, _id: u64, _ready: bool) {
        if SIM_THREAD.with(|s| s.get()) {
            TASK_POLLS.with(|p| p.set(p.get() + 1));
            bump_activity();
        }
    }
    fn on_drop(&self, id: u64) {
        GLOBAL_LIVE.fetch_sub(1, Ordering::SeqCst);
        // thread-locals may already be gone during thread teardown
        let _ = LIVE.try_with(|l| {
            if let Ok(mut l) = l.try_borrow_mut() {
                l.remove(&id);
            }
        });
        let _ = GATE_WAITERS.try_with(|w| {
            if let Ok(mut w) = w.try_borrow_mut() {
                w.remove(&id);
            }
        });
    }
}

/// Mark this thread as (not) driving a single-threaded simulation: on rig
/// threads library tasks migrate between workers and are counted globally.
pub fn set_sim_thread(on: bool) {
    SIM_THREAD.with(|s| s.set(on));
}

pub fn install_observer() {
    static DONE: AtomicBool = AtomicBool::new(false);
    if !DONE.swap(true, Ordering::SeqCst) {
        zeromq::__verif::set_task_observer(Arc::new(Observer));
    }
}

/// Library tasks alive on this sim thread.
pub fn live_tasks() -> usize {
    LIVE.with(|l| l.borrow().len())
}

pub fn spawned_tasks() -> u64 {
    SPAWNED.with(|s| s.get())
}

pub fn task_polls() -> u64 {
    TASK_POLLS.with(|p| p.get())
}

/// Hold every library-spawned task at its gate (they stay un-polled).
pub fn close_gate() {
    GATE_CLOSED.with(|g| g.set(true));
}

pub fn open_gate() {
    GATE_CLOSED.with(|g| g.set(false));
    let ws: Vec<Waker> = GATE_WAITERS.with(|w| {
        let mut w = w.borrow_mut();
        let v = w.values().cloned().collect();
        w.clear();
        v
    });
    for w in ws {
        w.wake();
    }
    bump_activity();
}

// ------------------------------------------------------------------ runtime

/// Run `f` as the main future of a fresh driverless current-thread runtime.
/// Nothing external can wake anything; every wake-up comes from the harness'
/// pipes or from the library itself.
pub fn run<F: Future>(f: F) -> F::Output {
    install_observer();
    SIM_THREAD.with(|s| s.set(true));
    GATE_CLOSED.with(|g| g.set(false));
    // bookkeeping of an earlier case on this thread must not leak into this one
    LIVE.with(|l| l.borrow_mut().clear());
    let rt = tokio::runtime::Builder::new_current_thread()
        .build()
        .expect("runtime");
    let out = rt.block_on(f);
    // dropping the runtime drops every task still alive
    drop(rt);
    GATE_WAITERS.with(|w| w.borrow_mut().clear());
    out
}

/// Yield to the runtime until nothing moves any more: the activity counter
/// (pipe operations + library task polls) is unchanged across two consecutive
/// yields. Returns false if that did not happen within the step bound (a
/// task keeps itself busy: a spin).
pub async fn settle() -> bool {
    let mut last = activity();
    let mut stable = 0;
    for _ in 0..20_000 {
        tokio::task::yield_now().await;
        let a = activity();
        if a == last {
            stable += 1;
            if stable >= 2 {
                return true;
            }
        } else {
            stable = 0;
            last = a;
        }
    }
    false
}

// --------------------------------------------------------- managed futures

pub struct WakeFlag {
    woken: AtomicBool,
    count: AtomicU64,
}

impl Wake for WakeFlag {
    fn wake(self: Arc<Self>) {
        self.wake_by_ref();
    }
    fn wake_by_ref(self: &Arc<Self>) {
        self.woken.store(true, Ordering::SeqCst);
        self.count.fetch_add(1, Ordering::SeqCst);
        bump_activity();
    }
}

/// A library call under test, polled only when the harness says so.
pub struct Managed<'a, T> {
    fut: Option<Pin<Box<dyn Future<Output = T> + 'a>>>,
    flag: Arc<WakeFlag>,
    pub polls: u32,
}

impl<'a, T> Managed<'a, T> {
    pub fn new(fut: impl Future<Output = T> + 'a) -> Self {
        Managed {
            fut: Some(Box::pin(fut)),
            flag: Arc::new(WakeFlag {
                woken: AtomicBool::new(true),
                count: AtomicU64::new(0),
            }),
            polls: 0,
        }
    }

    pub fn woken(&self) -> bool {
        self.flag.woken.load(Ordering::SeqCst)
    }

    pub fn wake_count(&self) -> u64 {
        self.flag.count.load(Ordering::SeqCst)
    }

    pub fn done(&self) -> bool {
        self.fut.is_none()
    }

    /// Poll once (clears the woken flag first).
    pub fn poll_once(&mut self) -> Poll<T> {
        let fut = self.fut.as_mut().expect("polled after completion");
        self.flag.woken.store(false, Ordering::SeqCst);
        let waker = Waker::from(self.flag.clone());
        let mut cx = Context::from_waker(&waker);
        self.polls += 1;
        bump_activity();
        match fut.as_mut().poll(&mut cx) {
            Poll::Ready(v) => {
                self.fut = None;
                Poll::Ready(v)
            }
            Poll::Pending => Poll::Pending,
        }
    }

    /// Behave like a faithful executor: poll whenever woken, let the library's
    /// own tasks run in between, stop at completion or at quiescence.
    /// `Err(Stuck::Spin)` if it keeps waking itself beyond the step bound.
    pub async fn drive(&mut self) -> Result<Option<T>, Stuck> {
        for _ in 0..100_000 {
            if self.woken() {
                if let Poll::Ready(v) = self.poll_once() {
                    return Ok(Some(v));
                }
                continue;
            }
            if !settle().await {
                return Err(Stuck::Spin);
            }
            if !self.woken() {
                return Ok(None);
            }
        }
        Err(Stuck::Spin)
    }

    /// Lost-wake-up probe: call at quiescence on a pending, un-woken future.
    /// A real executor would never poll it again; if a spurious poll makes it
    /// complete, state changed after its last poll without waking it.
    pub fn probe(&mut self) -> Option<T> {
        debug_assert!(!self.woken());
        match self.poll_once() {
            Poll::Ready(v) => Some(v),
            Poll::Pending => None,
        }
    }
}

#[derive(Debug, Clone, Copy, PartialEq, Eq)]
pub enum Stuck {
    Spin,
}

/// Drive a future that is expected to complete without outside help.
pub async fn complete<'a, T>(fut: impl Future<Output = T> + 'a) -> Result<T, String> {
    let mut m = Managed::new(fut);
    match m.drive().await {
        Ok(Some(v)) => Ok(v),
        Ok(None) => Err("pending at quiescence".into()),
        Err(Stuck::Spin) => Err("spinning".into()),
    }
}
