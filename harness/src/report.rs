//! Per-run accumulation of what the monitors observed (DESIGN.md §3.4).

use serde_json::{json, Value};
use std::collections::{BTreeMap, HashSet};

#[derive(Clone, Copy, Debug, PartialEq, Eq)]
pub enum Tier {
    Quick,
    Thorough,
}

impl Tier {
    pub fn as_str(&self) -> &'static str {
        match self {
            Tier::Quick => "quick",
            Tier::Thorough => "thorough",
        }
    }
    pub fn pick<T>(&self, quick: T, thorough: T) -> T {
        match self {
            Tier::Quick => quick,
            Tier::Thorough => thorough,
        }
    }
}

#[derive(Clone, Debug)]
pub struct Violation {
    pub signature: String,
    pub message: String,
    pub case: Value,
}

pub struct Ctx {
    pub tier: Tier,
    pub seed: u64,
    pub evaluations: u64,
    pub distinct: HashSet<u64>,
    pub nontrivial: HashSet<u64>,
    pub interleavings: HashSet<u64>,
    pub states: HashSet<u64>,
    pub counters: BTreeMap<String, u64>,
    pub maxima: BTreeMap<String, u64>,
    pub samples: BTreeMap<String, Vec<Value>>,
    pub violations: Vec<Violation>,
    pub sig_counts: BTreeMap<String, u64>,
    pub inconclusive: Vec<String>,
    /// the case descriptor currently being run (for witnesses)
    pub current_case: Value,
}

impl Ctx {
    pub fn new(tier: Tier, seed: u64) -> Self {
        Ctx {
            tier,
            seed,
            evaluations: 0,
            distinct: HashSet::new(),
            nontrivial: HashSet::new(),
            interleavings: HashSet::new(),
            states: HashSet::new(),
            counters: BTreeMap::new(),
            maxima: BTreeMap::new(),
            samples: BTreeMap::new(),
            violations: Vec::new(),
            sig_counts: BTreeMap::new(),
            inconclusive: Vec::new(),
            current_case: Value::Null,
        }
    }

    /// One execution / evaluated case. `hash` identifies the case content;
    /// `nontrivial` says whether it satisfies the property's stated rule.
    pub fn eval(&mut self, hash: u64, nontrivial: bool) {
        self.evaluations += 1;
        self.distinct.insert(hash);
        if nontrivial {
            self.nontrivial.insert(hash);
        }
    }

    /// Bulk variant for exhaustive sweeps where every case is distinct by
    /// construction (no hash set needed): adds to a separate counter.
    pub fn eval_bulk(&mut self, n: u64, nontrivial: u64) {
        self.evaluations += n;
        *self.counters.entry("bulk_distinct".into()).or_insert(0) += n;
        *self.counters.entry("bulk_nontrivial".into()).or_insert(0) += nontrivial;
    }

    pub fn count(&mut self, key: &str) {
        *self.counters.entry(key.to_string()).or_insert(0) += 1;
    }

    pub fn add(&mut self, key: &str, n: u64) {
        *self.counters.entry(key.to_string()).or_insert(0) += n;
    }

    pub fn max(&mut self, key: &str, v: u64) {
        let e = self.maxima.entry(key.to_string()).or_insert(0);
        if v > *e {
            *e = v;
        }
    }

    pub fn interleaving(&mut self, h: u64) {
        self.interleavings.insert(h);
    }

    pub fn state(&mut self, h: u64) {
        self.states.insert(h);
    }

    pub fn sample(&mut self, kind: &str, f: impl FnOnce() -> Value) {
        let e = self.samples.entry(kind.to_string()).or_default();
        if e.len() < 2 {
            e.push(f());
        }
    }

    pub fn violation(&mut self, signature: &str, message: String) {
        let case = self.current_case.clone();
        self.violation_with(signature, message, case);
    }

    pub fn violation_with(&mut self, signature: &str, message: String, case: Value) {
        let n = self.sig_counts.entry(signature.to_string()).or_insert(0);
        *n += 1;
        if *n <= 3 {
            self.violations.push(Violation {
                signature: signature.to_string(),
                message,
                case,
            });
        }
    }

    pub fn inconclusive(&mut self, why: String) {
        if self.inconclusive.len() < 20 {
            self.inconclusive.push(why);
        }
    }

    pub fn merge(&mut self, o: Ctx) {
        self.evaluations += o.evaluations;
        self.distinct.extend(o.distinct);
        self.nontrivial.extend(o.nontrivial);
        self.interleavings.extend(o.interleavings);
        self.states.extend(o.states);
        for (k, v) in o.counters {
            *self.counters.entry(k).or_insert(0) += v;
        }
        for (k, v) in o.maxima {
            let e = self.maxima.entry(k).or_insert(0);
            if v > *e {
                *e = v;
            }
        }
        for (k, v) in o.samples {
            let e = self.samples.entry(k).or_default();
            for s in v {
                if e.len() < 2 {
                    e.push(s);
                }
            }
        }
        for (k, v) in o.sig_counts {
            *self.sig_counts.entry(k).or_insert(0) += v;
        }
        for v in o.violations {
            let have = self
                .violations
                .iter()
                .filter(|x| x.signature == v.signature)
                .count();
            if have < 3 {
                self.violations.push(v);
            }
        }
        for i in o.inconclusive {
            self.inconclusive(i);
        }
    }

    pub fn to_json(&self) -> Value {
        let bulk_d = self.counters.get("bulk_distinct").copied().unwrap_or(0);
        let bulk_n = self.counters.get("bulk_nontrivial").copied().unwrap_or(0);
        let samples: Vec<Value> = self
            .samples
            .iter()
            .flat_map(|(k, v)| v.iter().map(move |s| json!({"kind": k, "case": s})))
            .collect();
        json!({
            "evaluations": self.evaluations,
            "distinct": self.distinct.len() as u64 + bulk_d,
            "distinct_nontrivial": self.nontrivial.len() as u64 + bulk_n,
            "interleavings": self.interleavings.len(),
            "states": self.states.len(),
            "counters": self.counters,
            "maxima": self.maxima,
            "samples": samples,
            "violations": self.violations.iter().map(|v| json!({
                "signature": v.signature, "message": v.message, "case": v.case,
            })).collect::<Vec<_>>(),
            "signature_counts": self.sig_counts,
            "inconclusive": self.inconclusive,
        })
    }
}
