//! Real-transport rig (DESIGN.md §3.6): tokio multi-thread runtime, real
//! TCP v4/v6 and IPC endpoints, raw peers speaking through the reference
//! codec, bounded waits guarded by a canary.

use crate::refcodec::{self as rc, Frames};
use std::sync::atomic::{AtomicU64, Ordering};
use std::time::{Duration, Instant};
use tokio::io::{AsyncReadExt, AsyncWriteExt};
use tokio::net::{TcpListener, TcpStream, UnixListener, UnixStream};

pub const WAIT: Duration = Duration::from_secs(6);

/// Fresh multi-thread runtime per case: its task metrics are then per case.
pub fn run<F: std::future::Future>(workers: usize, f: F) -> (F::Output, usize) {
    crate::sim::install_observer();
    crate::sim::set_sim_thread(false);
    let rt = tokio::runtime::Builder::new_multi_thread()
        .worker_threads(workers)
        .enable_all()
        .build()
        .expect("runtime");
    let handle = rt.handle().clone();
    let out = rt.block_on(f);
    let alive = handle.metrics().num_alive_tasks();
    rt.shutdown_timeout(Duration::from_millis(200));
    (out, alive)
}

pub fn alive_tasks() -> usize {
    tokio::runtime::Handle::current().metrics().num_alive_tasks()
}

static IPC_SEQ: AtomicU64 = AtomicU64::new(0);
static PORT_SEQ: AtomicU64 = AtomicU64::new(0);

/// An explicit TCP port from a range the harness manages itself (21000..29000,
/// partitioned by process id, handed out round-robin). The OS never assigns these
/// to port-0 binds or outgoing connections (ephemeral range 32768..60999), and no
/// other case of this process gets the same one at the same time, so "a connect to
/// this port succeeds" can only mean the socket under test is still listening.
pub fn explicit_port() -> u16 {
    let base = 21000 + (std::process::id() as u64 % 40) * 200;
    (base + PORT_SEQ.fetch_add(1, Ordering::SeqCst) % 200) as u16
}

/// Endpoint text with an explicit harness-managed port for a tcp transport name.
pub fn explicit_endpoint(transport: &str) -> String {
    let p = explicit_port();
    match transport {
        "tcp4" => format!("tcp://127.0.0.1:{p}"),
        "tcp6" => format!("tcp://[::1]:{p}"),
        "localhost" => format!("tcp://localhost:{p}"),
        _ => format!("ipc://{}", ipc_path()),
    }
}

/// A socket path no other process, past or present, has used: process ids wrap around
/// (pid_max is 32768 here) and children that are killed leave their files behind, so the
/// pid alone would sooner or later name a stale file ("Address already in use").
pub fn ipc_path() -> String {
    static START: std::sync::OnceLock<u64> = std::sync::OnceLock::new();
    let dir = "/verif/.work/ipc";
    let start = *START.get_or_init(|| {
        let _ = std::fs::create_dir_all(dir);
        // leftovers of processes long gone (no run of a check lasts hours)
        if let Ok(rd) = std::fs::read_dir(dir) {
            for e in rd.flatten() {
                let old = e.metadata().ok().and_then(|m| m.modified().ok()).and_then(|t| t.elapsed().ok()).map(|d| d.as_secs() > 3 * 3600).unwrap_or(false);
                if old {
                    let _ = std::fs::remove_file(e.path());
                }
            }
        }
        std::time::SystemTime::now().duration_since(std::time::UNIX_EPOCH).map(|d| d.as_nanos() as u64).unwrap_or(0)
    });
    let path = format!("{dir}/{}-{:x}-{}.sock", std::process::id(), start & 0xffff_ffff_ffff, IPC_SEQ.fetch_add(1, Ordering::SeqCst));
    let _ = std::fs::remove_file(&path);
    path
}

/// Endpoint text to bind for a transport name.
pub fn bind_endpoint(transport: &str) -> String {
    match transport {
        "tcp4" => "tcp://127.0.0.1:0".into(),
        "tcp6" => "tcp://[::1]:0".into(),
        "localhost" => "tcp://localhost:0".into(),
        _ => format!("ipc://{}", ipc_path()),
    }
}

pub enum Raw {
    Tcp(TcpStream),
    Unix(UnixStream),
}

#[derive(Debug)]
pub enum ReadEnd {
    Eof,
    Timeout,
    Error(String),
}

fn split_ep(ep: &str) -> Result<(bool, String), String> {
    if let Some(rest) = ep.strip_prefix("tcp://") {
        Ok((true, rest.to_string()))
    } else if let Some(rest) = ep.strip_prefix("ipc://") {
        Ok((false, rest.to_string()))
    } else {
        Err(format!("unknown endpoint {ep}"))
    }
}

impl Raw {
    /// Plain OS-level connect to the text form of an endpoint.
    pub async fn connect(ep: &str) -> Result<Raw, std::io::Error> {
        let (tcp, addr) = split_ep(ep).map_err(|e| std::io::Error::new(std::io::ErrorKind::InvalidInput, e))?;
        if tcp {
            Ok(Raw::Tcp(TcpStream::connect(addr.as_str()).await?))
        } else {
            Ok(Raw::Unix(UnixStream::connect(addr.as_str()).await?))
        }
    }

    /// Blocking OS-level connect (no await point between several of these and whatever the
    /// caller does next): the connection sits in the listener's queue.
    pub fn connect_blocking(ep: &str) -> Result<Raw, std::io::Error> {
        let (tcp, addr) = split_ep(ep).map_err(|e| std::io::Error::new(std::io::ErrorKind::InvalidInput, e))?;
        if tcp {
            let s = std::net::TcpStream::connect(addr.as_str())?;
            s.set_nonblocking(true)?;
            Ok(Raw::Tcp(TcpStream::from_std(s)?))
        } else {
            let s = std::os::unix::net::UnixStream::connect(addr.as_str())?;
            s.set_nonblocking(true)?;
            Ok(Raw::Unix(UnixStream::from_std(s)?))
        }
    }

    pub async fn write_all(&mut self, b: &[u8]) -> std::io::Result<()> {
        match self {
            Raw::Tcp(s) => s.write_all(b).await,
            Raw::Unix(s) => s.write_all(b).await,
        }
    }

    /// Half-close: the peer sees an orderly end of stream (FIN, never a reset) while
    /// this side stays open.
    pub async fn shutdown_write(&mut self) -> std::io::Result<()> {
        match self {
            Raw::Tcp(s) => s.shutdown().await,
            Raw::Unix(s) => s.shutdown().await,
        }
    }

    async fn read_some(&mut self, buf: &mut [u8]) -> std::io::Result<usize> {
        match self {
            Raw::Tcp(s) => s.read(buf).await,
            Raw::Unix(s) => s.read(buf).await,
        }
    }

    /// Read until `want` more bytes have arrived or the stream ends.
    pub async fn read_exact_or(&mut self, acc: &mut Vec<u8>, want: usize, wait: Duration) -> Result<(), ReadEnd> {
        let target = acc.len() + want;
        let deadline = Instant::now() + wait;
        let mut buf = [0u8; 16384];
        while acc.len() < target {
            let left = deadline.saturating_duration_since(Instant::now());
            if left.is_zero() {
                return Err(ReadEnd::Timeout);
            }
            let cap = (target - acc.len()).min(buf.len());
            match tokio::time::timeout(left, self.read_some(&mut buf[..cap])).await {
                Err(_) => return Err(ReadEnd::Timeout),
                Ok(Ok(0)) => return Err(ReadEnd::Eof),
                Ok(Ok(n)) => acc.extend_from_slice(&buf[..n]),
                Ok(Err(e)) => return Err(ReadEnd::Error(e.to_string())),
            }
        }
        Ok(())
    }

    /// Complete a ZMTP handshake as `my_type`; returns the bytes the library sent.
    pub async fn handshake(&mut self, my_type: &str, identity: Option<&[u8]>) -> Result<Vec<u8>, String> {
        self.write_all(&rc::handshake(my_type, identity)).await.map_err(|e| format!("write: {e}"))?;
        let mut acc = Vec::new();
        self.read_exact_or(&mut acc, 64, WAIT).await.map_err(|e| format!("greeting: {e:?}"))?;
        // READY: parse the frame header instead of assuming a length
        self.read_exact_or(&mut acc, 2, WAIT).await.map_err(|e| format!("ready header: {e:?}"))?;
        let flags = acc[64];
        let body = if flags & 2 != 0 {
            self.read_exact_or(&mut acc, 7, WAIT).await.map_err(|e| format!("ready size: {e:?}"))?;
            let mut b = [0u8; 8];
            b.copy_from_slice(&acc[65..73]);
            u64::from_be_bytes(b) as usize
        } else {
            acc[65] as usize
        };
        self.read_exact_or(&mut acc, body, WAIT).await.map_err(|e| format!("ready body: {e:?}"))?;
        Ok(acc)
    }

    pub async fn send_msg(&mut self, frames: &[Vec<u8>]) -> Result<(), String> {
        self.write_all(&rc::message(frames)).await.map_err(|e| e.to_string())
    }

    /// Read one complete message (commands are skipped).
    pub async fn read_msg(&mut self, wait: Duration) -> Result<Frames, ReadEnd> {
        let mut frames = Vec::new();
        loop {
            let mut h = Vec::new();
            self.read_exact_or(&mut h, 2, wait).await?;
            let flags = h[0];
            let len = if flags & 2 != 0 {
                self.read_exact_or(&mut h, 7, wait).await?;
                let mut b = [0u8; 8];
                b.copy_from_slice(&h[1..9]);
                u64::from_be_bytes(b) as usize
            } else {
                h[1] as usize
            };
            let mut body = Vec::new();
            self.read_exact_or(&mut body, len, wait).await?;
            if flags & 4 != 0 {
                continue;
            }
            frames.push(body);
            if flags & 1 == 0 {
                return Ok(frames);
            }
        }
    }

    /// Does this peer observe end-of-stream within the bounded wait? Data
    /// before the end is allowed. A reset counts as an end too.
    pub async fn sees_end(&mut self, wait: Duration) -> Result<(), String> {
        let deadline = Instant::now() + wait;
        let mut buf = [0u8; 4096];
        loop {
            let left = deadline.saturating_duration_since(Instant::now());
            if left.is_zero() {
                return Err("no end-of-stream within the bounded wait".into());
            }
            match tokio::time::timeout(left, self.read_some(&mut buf)).await {
                Err(_) => return Err("no end-of-stream within the bounded wait".into()),
                Ok(Ok(0)) => return Ok(()),
                Ok(Ok(_)) => continue,
                Ok(Err(_)) => return Ok(()),
            }
        }
    }
}

/// Harness-side listener (for sockets that connect out).
pub enum RawListener {
    Tcp(TcpListener),
    Unix(UnixListener, String),
}

impl RawListener {
    pub async fn bind(transport: &str) -> Result<(RawListener, String), String> {
        match transport {
            "tcp4" | "tcp6" => {
                let addr = if transport == "tcp4" { "127.0.0.1:0" } else { "[::1]:0" };
                let l = TcpListener::bind(addr).await.map_err(|e| e.to_string())?;
                let a = l.local_addr().map_err(|e| e.to_string())?;
                let ep = if transport == "tcp4" { format!("tcp://127.0.0.1:{}", a.port()) } else { format!("tcp://[::1]:{}", a.port()) };
                Ok((RawListener::Tcp(l), ep))
            }
            _ => {
                let p = ipc_path();
                let l = UnixListener::bind(&p).map_err(|e| e.to_string())?;
                Ok((RawListener::Unix(l, p.clone()), format!("ipc://{p}")))
            }
        }
    }

    pub async fn accept(&self) -> Result<Raw, String> {
        match self {
            RawListener::Tcp(l) => l.accept().await.map(|(s, _)| Raw::Tcp(s)).map_err(|e| e.to_string()),
            RawListener::Unix(l, _) => l.accept().await.map(|(s, _)| Raw::Unix(s)).map_err(|e| e.to_string()),
        }
    }
}

impl Drop for RawListener {
    fn drop(&mut self) {
        if let RawListener::Unix(_, p) = self {
            let _ = std::fs::remove_file(p);
        }
    }
}

/// Is a fresh OS-level connect to `ep` refused (or the IPC path missing)?
pub async fn connect_refused(ep: &str) -> Result<bool, String> {
    match tokio::time::timeout(WAIT, Raw::connect(ep)).await {
        Err(_) => Err("connect attempt timed out".into()),
        Ok(Ok(_)) => Ok(false),
        Ok(Err(e)) => match e.kind() {
            std::io::ErrorKind::ConnectionRefused | std::io::ErrorKind::NotFound => Ok(true),
            // accepted into the backlog of a listener that is being torn down: it was
            // still listening at that instant
            std::io::ErrorKind::ConnectionReset | std::io::ErrorKind::ConnectionAborted => Ok(false),
            _ => Err(format!("unexpected connect error {e}")),
        },
    }
}

pub fn ipc_file_exists(ep: &str) -> bool {
    ep.strip_prefix("ipc://").map(|p| std::path::Path::new(p).exists()).unwrap_or(false)
}

/// Canary: a plain tokio listener/stream doing connect, accept, close, EOF at
/// this very moment. If even that is slow the machine is the problem and a
/// missed bounded wait is inconclusive, not a violation.
pub async fn canary_ok() -> bool {
    let t0 = Instant::now();
    let r = tokio::time::timeout(Duration::from_secs(3), async {
        let l = TcpListener::bind("127.0.0.1:0").await.ok()?;
        let a = l.local_addr().ok()?;
        let (c, s) = tokio::join!(TcpStream::connect(a), l.accept());
        let mut c = c.ok()?;
        let (s, _) = s.ok()?;
        drop(s);
        let mut b = [0u8; 8];
        let n = c.read(&mut b).await.ok()?;
        Some(n == 0)
    })
    .await;
    matches!(r, Ok(Some(true))) && t0.elapsed() < Duration::from_secs(1)
}

/// Poll `cond` until it holds or the bounded wait expires.
pub async fn eventually(wait: Duration, mut cond: impl FnMut() -> bool) -> bool {
    let deadline = Instant::now() + wait;
    loop {
        if cond() {
            return true;
        }
        if Instant::now() > deadline {
            return false;
        }
        tokio::time::sleep(Duration::from_millis(5)).await;
    }
}

pub fn open_fds() -> usize {
    std::fs::read_dir("/proc/self/fd").map(|d| d.count()).unwrap_or(0)
}
