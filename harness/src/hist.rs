//! Socket-level receive histories (C05-B, C06 socket repeat, C14): scripted
//! peers write tagged messages into pipes; a seeded scheduler interleaves
//! byte releases, joins, leaves, receiver polls and (optionally) drops of the
//! pending recv future; an exactly-once / in-order checker judges the results.

use crate::fq::Finding;
use crate::pipe::EndKind;
use crate::prng::{mix, Rng};
use crate::refcodec::{self as rc, Frames};
use crate::sim::{self, Managed};
use crate::sock::{peer_type_for, Peer, Sock};
use std::task::Poll;

#[derive(Clone, Debug)]
pub struct HistOpts {
    pub ty: String,
    pub peers: usize,
    pub per_peer: u32,
    pub seed: u64,
    pub late_joiners: usize,
    pub leavers: bool,
    pub envelope_violations: bool,
    /// C14: drop the pending recv future at seeded poll counts
    pub drops: bool,
    /// one busy peer set + one quiet peer (C06 socket-level fairness)
    pub saturate: bool,
}

#[derive(Default, Clone, Debug)]
pub struct HistCounters {
    pub deliveries: u64,
    pub errors_returned: u64,
    pub errors_after_peer_end: u64,
    pub joins_while_recv_pending: u64,
    pub peers_cut_mid_message: u64,
    pub peers_left_at_boundary: u64,
    pub peers_reset: u64,
    pub partial_releases: u64,
    pub recv_parks: u64,
    pub drops_total: u64,
    pub drops_with_partial_frame: u64,
    pub drops_after_waker_registered: u64,
    pub drops_with_full_message_buffered: u64,
    pub drops_never_polled: u64,
    pub envelope_violations_sent: u64,
    pub messages_ending_in_empty_frame: u64,
    pub frames_beyond_64k: u64,
    pub reconnects_same_identity: u64,
    pub cooperative_yields: u64,
    pub max_overtaken: u64,
    pub probes: u64,
}

pub struct HistOutcome {
    pub findings: Vec<Finding>,
    pub counters: HistCounters,
    pub trace: u64,
}

struct P {
    peer: Peer,
    /// wire messages fed completely, in order: (seq, is_violation)
    fed: Vec<(u32, bool)>,
    next_seq: u32,
    delivered: u32, // next expected index into `fed` among non-violating messages
    to_send: u32,
    ended: bool,
    cut: bool,
    /// global delivery count when this peer had a complete message readable
    ready_since: Option<u64>,
    complete_unread: u32,
    /// bytes of an incomplete message have been released
    partial_out: bool,
}

fn wire_for(ty: &str, payload: &Frames) -> Frames {
    match ty {
        "REP" => {
            let mut w = vec![vec![]];
            w.extend(payload.clone());
            w
        }
        _ => payload.clone(),
    }
}

pub async fn run(o: &HistOpts) -> HistOutcome {
    let mut r = Rng::keyed(o.seed, &[0x4157, o.peers as u64, o.per_peer as u64]);
    let mut c = HistCounters::default();
    let mut findings: Vec<Finding> = Vec::new();
    let mut trace = 0x4157u64;
    let ty = o.ty.as_str();
    let mut sock = Sock::new(ty, None);
    let mut ps: Vec<P> = Vec::new();
    let pfx = |p: &str| if o.drops { format!("C14/{p}/{ty}") } else { format!("C05/{p}/{ty}") };
    macro_rules! newpeer {
        () => {{
            let k = ps.len();
            match Peer::attach(&sock, peer_type_for(ty), Some(format!("h{k}").as_bytes())).await {
                Ok(p) => ps.push(P {
                    peer: p,
                    fed: vec![],
                    next_seq: 0,
                    delivered: 0,
                    to_send: o.per_peer,
                    ended: false,
                    cut: false,
                    ready_since: None,
                    complete_unread: 0,
                    partial_out: false,
                }),
                Err(e) => {
                    findings.push(Finding { signature: "harness".into(), message: format!("attach failed: {e}") });
                    return HistOutcome { findings, counters: c, trace };
                }
            }
        }};
    }
    let mut joins_left = o.late_joiners;
    // the backend handle lets peers join while `recv` borrows the socket
    let backend = sock.backend();
    let _ = &backend;
    for _ in 0..o.peers {
        newpeer!();
    }
    if o.saturate {
        // everybody but the last peer has everything readable at once
        let n = ps.len();
        for (i, p) in ps.iter_mut().enumerate() {
            if i + 1 != n {
                while p.to_send > 0 {
                    let payload = rc::tagged(i as u16, p.next_seq, &[r.below(40)]);
                    p.peer.send(&wire_for(ty, &payload));
                    p.fed.push((p.next_seq, false));
                    p.next_seq += 1;
                    p.to_send -= 1;
                    p.complete_unread += 1;
                }
                p.ready_since = Some(0);
            } else {
                p.to_send = 1;
            }
        }
    }
    let mut deliveries: u64 = 0;
    let mut err_budget: u64 = 0; // envelope-violating messages not yet reported
    let mut steps = 0u64;
    let mut pending_join: Vec<Peer> = Vec::new();
    let _ = &mut pending_join;
    let mut drop_plan: Option<u32> = None;
    'outer: loop {
        // a fresh recv call
        let all_done = |ps: &Vec<P>| ps.iter().all(|p| (p.to_send == 0 || p.ended) && p.peer.conn.held() == 0);
        let mut joined_now: Vec<(Peer, usize)> = Vec::new();
        let _ = &mut joined_now;
        let mut rv = Managed::new(sock.recv());
        if o.drops {
            drop_plan = Some(match r.below(6) {
                0 => 0,
                1 => 1,
                2 => 2,
                3 => 3,
                _ => u32::MAX,
            });
        }
        let mut polls_this_call = 0u32;
        let res: Option<Result<Frames, String>> = loop {
            steps += 1;
            if steps > 400_000 {
                findings.push(Finding { signature: "harness".into(), message: "step bound".into() });
                break 'outer;
            }
            // C14: abandon this recv?
            if let Some(n) = drop_plan {
                if polls_this_call >= n {
                    c.drops_total += 1;
                    if polls_this_call == 0 {
                        c.drops_never_polled += 1;
                    } else {
                        c.drops_after_waker_registered += 1;
                    }
                    if ps.iter().any(|p| p.partial_out && p.peer.conn.unread() == 0) {
                        c.drops_with_partial_frame += 1;
                    }
                    if ps.iter().any(|p| p.complete_unread > 0 && p.peer.conn.unread() == 0) {
                        c.drops_with_full_message_buffered += 1;
                    }
                    trace = mix(trace ^ 0xD0);
                    break None;
                }
            }
            // enabled actions
            let mut acts: Vec<(u8, usize)> = vec![(3, 0), (3, 0)];
            for (i, p) in ps.iter().enumerate() {
                if !p.ended && p.to_send > 0 && p.peer.conn.held() == 0 {
                    acts.push((0, i));
                }
                if p.peer.conn.held() > 0 {
                    acts.push((1, i));
                    acts.push((1, i));
                }
                if o.leavers && !p.ended && p.peer.conn.held() == 0 && (p.to_send == 0 || r.chance(1, 40)) {
                    acts.push((2, i));
                }
            }
            if joins_left > 0 {
                acts.push((4, 0));
            }
            for (i, p) in ps.iter().enumerate() {
                if !p.ended && p.peer.conn.unread() > 0 && r.chance(1, 6) {
                    acts.push((6, i)); // its next reads yield cooperatively
                }
            }
            // a peer whose messages were all delivered goes away and comes back under its
            // identity (its next messages continue the same sequence)
            if o.late_joiners > 0 && !o.saturate && !o.leavers {
                for (i, p) in ps.iter().enumerate() {
                    if err_budget == 0 && !p.ended && p.to_send > 0 && p.peer.conn.held() == 0 && p.complete_unread == 0 && p.peer.conn.unread() == 0 && !p.partial_out && r.chance(1, 12) {
                        acts.push((5, i));
                    }
                }
            }
            if all_done(&ps) && joins_left == 0 {
                // only polling is left
                acts.retain(|a| a.0 == 3 || a.0 == 2);
            }
            let (a, i) = *r.pick(&acts);
            trace = mix(trace ^ ((a as u64) << 12 | i as u64));
            match a {
                0 => {
                    let p = &mut ps[i];
                    let violate = o.envelope_violations && ty == "REP" && r.chance(1, 6);
                    if violate {
                        // single-frame request: violates REP's envelope rule -> exactly one Err
                        p.peer.send_held(&[b"no-envelope".to_vec()]);
                        p.fed.push((u32::MAX, true));
                        c.envelope_violations_sent += 1;
                    } else {
                        let mut shape: Vec<usize> = (0..r.range(1, 3)).map(|_| *r.pick(&[0usize, 1, 17, 255, 256, 3000, 9000])).collect();
                        if r.chance(1, 10) {
                            // a frame well beyond the 64 KiB the decoder reserves at a time, with
                            // the next message right behind it in the same delivery
                            let k = r.below(shape.len());
                            shape[k] = *r.pick(&[70_000usize, 140_000]);
                            c.frames_beyond_64k += 1;
                        }
                        // (a quarter of all tagged messages end in an empty frame, see refcodec)
                        let payload = rc::tagged(i as u16, p.next_seq, &shape);
                        if rc::trailing_empty(i as u16, p.next_seq) {
                            c.messages_ending_in_empty_frame += 1;
                        }
                        p.peer.send_held(&wire_for(ty, &payload));
                        p.fed.push((p.next_seq, false));
                        p.next_seq += 1;
                    }
                    p.to_send -= 1;
                }
                1 => {
                    let p = &mut ps[i];
                    let h = p.peer.conn.held();
                    let any = r.range(1, h);
                    let n = *r.pick(&[1usize, any, h.saturating_sub(1).max(1), h, h]);
                    p.peer.conn.release(n);
                    p.partial_out = n < h;
                    if n < h {
                        c.partial_releases += 1;
                    } else {
                        // a whole message became readable
                        if p.fed.last().map(|f| f.1).unwrap_or(false) {
                            err_budget += 1;
                        } else {
                            p.complete_unread += 1;
                            if p.ready_since.is_none() {
                                p.ready_since = Some(deliveries);
                            }
                        }
                    }
                }
                2 => {
                    let p = &mut ps[i];
                    p.ended = true;
                    p.to_send = 0;
                    match r.below(4) {
                        0 => {
                            p.peer.conn.end_inbound(EndKind::Eof);
                            c.peers_left_at_boundary += 1;
                        }
                        3 => {
                            // between two frames of a multipart message
                            let w = wire_for(ty, &rc::tagged(i as u16, 9999, &[40, 40]));
                            let first = rc::frame(&w[0], true);
                            p.peer.conn.feed(&first);
                            p.peer.conn.end_inbound(EndKind::Eof);
                            p.cut = true;
                            c.peers_cut_mid_message += 1;
                        }
                        1 => {
                            // inside a message: first frame complete (MORE), second cut
                            let m = rc::message(&wire_for(ty, &rc::tagged(i as u16, 9999, &[40, 40])));
                            p.peer.conn.feed(&m[..m.len() - 20]);
                            p.peer.conn.end_inbound(EndKind::Eof);
                            p.cut = true;
                            c.peers_cut_mid_message += 1;
                        }
                        _ => {
                            p.peer.conn.end_inbound(EndKind::Reset);
                            c.peers_reset += 1;
                        }
                    }
                }
                6 => {
                    ps[i].peer.conn.yield_next_reads(r.range(1, 3) as u32);
                    c.cooperative_yields += 1;
                }
                5 => {
                    ps[i].peer.conn.close_full(EndKind::Eof);
                    let ident = format!("h{i}");
                    match Peer::attach_backend(backend.clone(), peer_type_for(ty), Some(ident.as_bytes())).await {
                        Ok(np) => {
                            ps[i].peer = np;
                            c.reconnects_same_identity += 1;
                        }
                        Err(e) => {
                            findings.push(Finding { signature: pfx("reconnect-rejected"), message: format!("peer {i} reconnecting under its identity: {e}") });
                            break 'outer;
                        }
                    }
                }
                4 => {
                    // a peer joins while this recv call is (possibly) pending
                    joins_left -= 1;
                    if rv.polls > 0 {
                        c.joins_while_recv_pending += 1;
                    }
                    let k = ps.len() + joined_now.len();
                    match Peer::attach_backend(backend.clone(), peer_type_for(ty), Some(format!("h{k}").as_bytes())).await {
                        Ok(p) => joined_now.push((p, k)),
                        Err(e) => {
                            findings.push(Finding { signature: "harness".into(), message: format!("late attach failed: {e}") });
                            break 'outer;
                        }
                    }
                    // make it visible to the scheduler right away
                    for (p, _) in joined_now.drain(..) {
                        ps.push(P {
                            peer: p,
                            fed: vec![],
                            next_seq: 0,
                            delivered: 0,
                            to_send: o.per_peer,
                            ended: false,
                            cut: false,
                            ready_since: None,
                            complete_unread: 0,
                            partial_out: false,
                        });
                    }
                }
                _ => {
                    if rv.woken() || r.chance(1, 8) {
                        polls_this_call += 1;
                        if let Poll::Ready(x) = rv.poll_once() {
                            break Some(x);
                        }
                        c.recv_parks += 1;
                    } else {
                        sim::settle().await;
                        // quiescent and nothing left to do?
                        if !rv.woken() && all_done(&ps) && joins_left == 0 {
                            // lost-wake-up probe, then finish
                            c.probes += 1;
                            if rv.polls > 0 {
                                if let Some(x) = rv.probe() {
                                    if x.is_ok() {
                                        findings.push(Finding {
                                            signature: format!("C06/socket-lost-wakeup/{ty}"),
                                            message: "recv was parked and never woken although a complete message was readable; a spurious poll returned it".into(),
                                        });
                                    }
                                    break Some(x);
                                }
                                drop(rv);
                                break 'outer;
                            } else {
                                polls_this_call += 1;
                                if let Poll::Ready(x) = rv.poll_once() {
                                    break Some(x);
                                }
                            }
                        }
                    }
                }
            }
        };
        drop(rv);
        let Some(res) = res else { continue };
        match res {
            Ok(m) => {
                deliveries += 1;
                c.deliveries += 1;
                let skip = if ty == "ROUTER" { 1 } else { 0 };
                let tag = match rc::parse_tag(&m, skip) {
                    Ok(t) => t,
                    Err(e) => {
                        findings.push(Finding {
                            signature: pfx("message-merged-split-or-partial"),
                            message: format!("recv returned {}: {e}", rc::frames_summary(&m)),
                        });
                        break;
                    }
                };
                let src = tag.origin as usize;
                if src >= ps.len() {
                    findings.push(Finding { signature: pfx("unknown-origin"), message: format!("message tagged with origin {src}") });
                    break;
                }
                if ty == "ROUTER" && m[0] != ps[src].peer.id {
                    findings.push(Finding {
                        signature: pfx("wrong-identity-frame"),
                        message: format!("message of peer {src} labelled {}", rc::hex(&m[0])),
                    });
                    break;
                }
                let p = &mut ps[src];
                let valid: Vec<u32> = p.fed.iter().filter(|f| !f.1).map(|f| f.0).collect();
                let expected = valid.get(p.delivered as usize).copied();
                if Some(tag.seq) != expected {
                    let kind = if valid[..(p.delivered as usize).min(valid.len())].contains(&tag.seq) {
                        "duplicate-delivery"
                    } else if tag.seq == 9999 {
                        "partial-message-surfaced"
                    } else {
                        "lost-or-reordered"
                    };
                    findings.push(Finding {
                        signature: pfx(kind),
                        message: format!("peer {src}: message {} delivered, next expected {:?}", tag.seq, expected),
                    });
                    break;
                }
                p.delivered += 1;
                p.complete_unread = p.complete_unread.saturating_sub(1);
                if let Some(since) = p.ready_since {
                    let over = deliveries - 1 - since;
                    if !o.envelope_violations {
                        // (an Err for a violating message takes one of the peer's turns and
                        // cannot be attributed to it here: only measured without them)
                        c.max_overtaken = c.max_overtaken.max(over);
                    }
                    if over > ps.len() as u64 && std::env::var("VERIF_DEBUG_OVERTAKE").is_ok() {
                        eprintln!("overtaken {over} n={} ty={ty} seed={} src={src} seq={} saturate={}", ps.len(), o.seed, tag.seq, o.saturate);
                    }
                    let n = ps.len() as u64;
                    if over > 2 * n && !o.envelope_violations {
                        findings.push(Finding {
                            signature: format!("C06/socket-starvation/{ty}"),
                            message: format!("peer {src} had a complete message readable while {over} messages of other peers were delivered ({n} peers)"),
                        });
                        break;
                    }
                }
                let p = &mut ps[src];
                p.ready_since = if p.complete_unread > 0 { Some(deliveries) } else { None };
            }
            Err(e) => {
                c.errors_returned += 1;
                if err_budget > 0 {
                    err_budget -= 1;
                } else if ps.iter().any(|p| p.ended) {
                    // errors caused by ended connections are C16's business
                    c.errors_after_peer_end += 1;
                    if c.errors_after_peer_end > 200 {
                        break;
                    }
                } else {
                    findings.push(Finding {
                        signature: pfx("unexpected-error"),
                        message: format!("recv returned Err({e}) although every peer is connected and well-behaved"),
                    });
                    break;
                }
            }
        }
    }
    // final accounting: every complete message of every peer consumed exactly once
    if findings.is_empty() {
        for (i, p) in ps.iter().enumerate() {
            let valid = p.fed.iter().filter(|f| !f.1).count() as u32;
            // messages whose bytes were all released
            let released_all = p.peer.conn.held() == 0;
            if released_all && p.delivered < valid && c.errors_after_peer_end <= 200 {
                findings.push(Finding {
                    signature: pfx("message-never-delivered"),
                    message: format!(
                        "peer {i}: {} complete messages were readable, {} delivered by the time the receiver went quiescent",
                        valid, p.delivered
                    ),
                });
                break;
            }
        }
        if err_budget > 0 {
            findings.push(Finding {
                signature: pfx("envelope-violation-not-reported"),
                message: format!("{err_budget} envelope-violating messages were consumed without an error"),
            });
        }
    }
    HistOutcome { findings, counters: c, trace }
}
