//! C12 — a slow subscriber never blocks the publisher or corrupts its own stream.

use super::common::*;
use crate::pipe::WriteFail;
use crate::prng::{hash_str, mix, Rng};
use crate::refcodec::{self as rc, Frames};
use crate::report::{Ctx, Tier};
use crate::sim;
use crate::sock::{Peer, Sock};
use crate::Prop;
use serde_json::{json, Value};

pub struct C12;

const HWM: usize = 131_072;
const SIZES: [usize; 8] = [10, 1024, 60 * 1024, 131_071, 131_072, 131_073, 200 * 1024, 1 << 20];

#[derive(Clone, Debug, PartialEq)]
enum Script {
    Healthy,
    /// partial writes only (never refuses)
    Dribble(usize),
    /// accept `k` more bytes at publish `at`, then stall; resume at publish `resume`
    Stall { at: usize, k: usize, resume: usize },
    NeverDrain { at: usize, k: usize },
    Broken { at: usize },
    /// stall at `at` (buffer fills to the high-water mark), then the connection is reset
    StallThenReset { at: usize, reset: usize },
}

struct Sub {
    peer: Peer,
    script: Script,
    stalled_from: Option<usize>, // publish index
    tap_at_resume: Option<usize>,
    ever_refused: bool,
}

#[cfg(feature = "heapmon")]
fn heap_reset() {
    crate::heap::start();
    crate::heap::set_on(false);
}
#[cfg(feature = "heapmon")]
fn heap_on(on: bool) {
    crate::heap::set_on(on);
}
#[cfg(not(feature = "heapmon"))]
fn heap_on(_on: bool) {}
#[cfg(feature = "heapmon")]
fn heap_peak() -> Option<i64> {
    Some(crate::heap::stop().peak)
}
#[cfg(not(feature = "heapmon"))]
fn heap_reset() {}
#[cfg(not(feature = "heapmon"))]
fn heap_peak() -> Option<i64> {
    None
}

async fn run(ctx: &mut Ctx, ty: &str, nsubs: usize, npub: usize, small: bool, seed: u64, case: &Value) {
    let sig = |k: &str| format!("C12/{k}/{ty}");
    let mut r = Rng::keyed(seed, &[12, nsubs as u64, npub as u64]);
    let mut sock = Sock::new(ty, None);
    let mut subs: Vec<Sub> = Vec::new();
    for k in 0..nsubs {
        let peer = match Peer::attach(&sock, "SUB", Some(format!("s{k}").as_bytes())).await {
            Ok(p) => p,
            Err(e) => {
                ctx.inconclusive(format!("C12 attach: {e}"));
                return;
            }
        };
        peer.send(&[vec![1u8]]);
        let script = if k == 0 {
            Script::Healthy
        } else {
            match r.below(6) {
                0 => Script::Healthy,
                1 => Script::Dribble(r.range(1, 5000)),
                2 | 3 => {
                    let at = r.below(npub / 2);
                    Script::Stall { at, k: *r.pick(&[0usize, 1, 2, 5, 9, 100, 70_000]), resume: at + r.range(1, npub / 2) }
                }
                4 => {
                    if r.chance(1, 2) {
                        Script::NeverDrain { at: r.below(npub / 2), k: r.below(12) }
                    } else {
                        let at = r.below(npub / 2);
                        Script::StallThenReset { at, reset: at + r.range(3, npub / 3) }
                    }
                }
                _ => Script::Broken { at: r.below(npub) },
            }
        };
        subs.push(Sub { peer, script, stalled_from: None, tap_at_resume: None, ever_refused: false });
    }
    if ty == "XPUB" {
        for _ in 0..nsubs + 2 {
            if recv_now(&mut sock).await.is_none() {
                break;
            }
        }
    }
    sim::settle().await;
    for sb in &subs {
        if let Script::Dribble(n) = sb.script {
            sb.peer.conn.set_max_write(n);
        }
    }
    if std::env::var("VERIF_DEBUG_HEAP").is_ok() {
        eprintln!("scripts: {:?}", subs.iter().map(|s| format!("{:?}", s.script)).collect::<Vec<_>>());
    }
    let sizes: Vec<usize> = if small { vec![10, 1024, 5000] } else { SIZES.to_vec() };
    let mut published: Vec<(u32, usize)> = Vec::new(); // (seq, encoded length)
    let mut max_encoded = 0usize;
    heap_reset();
    for i in 0..npub {
        for sb in subs.iter_mut() {
            match sb.script.clone() {
                Script::Stall { at, k, resume } => {
                    if i == at {
                        sb.peer.conn.set_credit(Some(k));
                        sb.stalled_from = Some(i);
                        ctx.count("stalls");
                        if k > 0 && k < 9 {
                            ctx.count("stall_inside_frame_header");
                        }
                    }
                    if i == resume {
                        sb.tap_at_resume = Some(sb.peer.conn.tap_len());
                        sb.peer.conn.set_credit(None);
                        ctx.count("resumes_after_stall");
                    }
                }
                Script::NeverDrain { at, k } => {
                    if i == at {
                        sb.peer.conn.set_credit(Some(k));
                        sb.stalled_from = Some(i);
                        ctx.count("never_draining_subscribers");
                    }
                }
                Script::Broken { at } => {
                    if i == at {
                        sb.peer.conn.fail_writes(WriteFail::BrokenPipe);
                        ctx.count("broken_pipes");
                    }
                }
                Script::StallThenReset { at, reset } => {
                    if i == at {
                        sb.peer.conn.set_credit(Some(0));
                        sb.stalled_from = Some(i);
                    }
                    if i == reset {
                        // the first write that is attempted at the high-water mark gets ECONNRESET
                        sb.peer.conn.fail_writes(WriteFail::ConnectionReset);
                        sb.peer.conn.set_credit(None);
                        ctx.count("resets_at_the_high_water_mark");
                    }
                }
                _ => {}
            }
        }
        // a subscriber that is not reading may still talk: it changes a subscription that
        // matches nothing published here
        let mut talked = false;
        for sb in subs.iter() {
            if sb.stalled_from.is_some() && sb.peer.conn.credit().is_some() && !sb.peer.conn.end_observed() && r.chance(1, 8) {
                sb.peer.send(&[vec![if r.chance(2, 3) { 1u8 } else { 0u8 }, b'z', b'z']]);
                ctx.count("subscription_changes_sent_by_a_stalled_subscriber");
                talked = true;
            }
        }
        if talked {
            sim::settle().await;
        }
        let size = *r.pick(&sizes);
        let mut msg: Frames = vec![b"t".to_vec()];
        msg.extend(rc::tagged(1, i as u32, &[size]));
        let enc = rc::message(&msg).len();
        max_encoded = max_encoded.max(enc);
        published.push((i as u32, enc));
        // only what happens inside the library call is charged to the library
        heap_on(true);
        let sent = sim::complete(sock.send(&msg)).await;
        heap_on(false);
        match sent {
            Ok(Ok(())) => {}
            Ok(Err(e)) => {
                ctx.violation_with(&sig("publish-failed"), format!("publish #{i} returned {e:?} because of a subscriber's connection"), case.clone());
                return;
            }
            Err(why) => {
                let stalled: Vec<usize> = subs.iter().enumerate().filter(|(_, s)| s.peer.conn.credit() == Some(0)).map(|(k, _)| k).collect();
                ctx.violation_with(
                    &sig("publisher-blocked"),
                    format!("publish #{i} ({size} B) is {why}; subscribers not accepting data: {stalled:?}"),
                    case.clone(),
                );
                return;
            }
        }
        ctx.count("publishes");
        #[cfg(feature = "heapmon")]
        if std::env::var("VERIF_DEBUG_HEAP").is_ok() {
            let h = crate::heap::snapshot();
            eprintln!("pub {i} size {size} live {} peak {} largest {}", h.live, h.peak, h.largest);
        }
        for sb in subs.iter_mut() {
            if sb.peer.conn.stats().write_pending > 0 {
                sb.ever_refused = true;
            }
        }
    }
    let peak = heap_peak();
    // resume everybody that is meant to resume and flush with small drain publishes
    for sb in subs.iter_mut() {
        if let Script::Stall { .. } = sb.script {
            if sb.tap_at_resume.is_none() {
                sb.tap_at_resume = Some(sb.peer.conn.tap_len());
                sb.peer.conn.set_credit(None);
                ctx.count("resumes_after_stall");
            }
        }
    }
    let mut drain_seq = npub as u32;
    for _ in 0..40 {
        let before: usize = subs.iter().map(|s| s.peer.conn.tap_len()).sum();
        let mut msg: Frames = vec![b"t".to_vec()];
        msg.extend(rc::tagged(2, drain_seq, &[1]));
        drain_seq += 1;
        if !matches!(sim::complete(sock.send(&msg)).await, Ok(Ok(()))) {
            ctx.violation_with(&sig("publisher-blocked"), "a drain publish did not return".into(), case.clone());
            return;
        }
        let after: usize = subs.iter().map(|s| s.peer.conn.tap_len()).sum();
        // two quiet rounds in a row = flushed (each drain message itself adds bytes)
        if after - before <= subs.len() * 40 {
            break;
        }
    }
    // ---- judge every subscriber's stream
    let bound = HWM + max_encoded;
    for (k, sb) in subs.iter().enumerate() {
        let bytes = sb.peer.out_bytes();
        let d = rc::decode_stream(&bytes, false);
        let never = matches!(sb.script, Script::NeverDrain { .. } | Script::Broken { .. } | Script::StallThenReset { .. });
        if let Some((o, e)) = &d.error {
            ctx.violation_with(&sig("stream-corrupted"), format!("subscriber {k} ({:?}): tap invalid at {o}: {e}", sb.script), case.clone());
            return;
        }
        if !never && (d.consumed != bytes.len() || d.partial_frames != 0) {
            ctx.violation_with(
                &sig("stream-ends-inside-a-message"),
                format!("subscriber {k} ({:?}): {} of {} bytes form complete messages after the drain", sb.script, d.consumed, bytes.len()),
                case.clone(),
            );
            return;
        }
        // order-preserving subsequence of what was published, each at most once, whole
        let mut last: Option<u32> = None;
        let mut got: Vec<u32> = Vec::new();
        let mut retained_bytes = 0usize;
        let mut pos_end = d.ends.iter();
        let mut start = 0usize;
        for m in d.messages() {
            let end = *pos_end.next().unwrap_or(&0);
            let this_start = start;
            start = end;
            if m.first().map(|f| f.as_slice()) != Some(b"t") {
                ctx.violation_with(&sig("stream-corrupted"), format!("subscriber {k}: message without its topic frame"), case.clone());
                return;
            }
            let t = match rc::parse_tag(&m, 1) {
                Ok(t) => t,
                Err(e) => {
                    ctx.violation_with(&sig("message-not-whole"), format!("subscriber {k} ({:?}): {e}", sb.script), case.clone());
                    return;
                }
            };
            if t.origin != 1 {
                continue; // drain messages
            }
            if let Some(l) = last {
                if t.seq <= l {
                    ctx.violation_with(
                        &sig("order-or-duplicate"),
                        format!("subscriber {k}: message {} after {}", t.seq, l),
                        case.clone(),
                    );
                    return;
                }
            }
            last = Some(t.seq);
            got.push(t.seq);
            if let (Some(from), Some(tap0)) = (sb.stalled_from, sb.tap_at_resume) {
                // published during the stall, reached the wire only after the resume
                let during = matches!(&sb.script, Script::Stall { resume, .. } if (t.seq as usize) >= from && (t.seq as usize) < *resume);
                if during && end + sb.peer.hs_len > tap0 {
                    // only the bytes that reached the wire after the resume
                    let from_abs = (this_start + sb.peer.hs_len).max(tap0);
                    retained_bytes += end + sb.peer.hs_len - from_abs;
                }
            }
        }
        ctx.max("max_retained_bytes_for_a_stalled_subscriber", retained_bytes as u64);
        if retained_bytes > bound {
            ctx.violation_with(
                &sig("retained-more-than-hwm-plus-one-message"),
                format!("subscriber {k} ({:?}): {retained_bytes} bytes published during its stall were delivered after the resume (bound {bound})", sb.script),
                case.clone(),
            );
            return;
        }
        let complete = matches!(sb.script, Script::Healthy | Script::Dribble(_)) || (!never && !sb.ever_refused);
        if complete && got.len() != npub {
            ctx.violation_with(
                &sig("accepting-subscriber-missed-messages"),
                format!("subscriber {k} ({:?}) accepted every write but received {} of {npub} messages", sb.script, got.len()),
                case.clone(),
            );
            return;
        }
        if matches!(sb.script, Script::Dribble(_)) {
            ctx.count("partial_write_subscribers_complete");
        }
        if !complete && got.len() < npub {
            ctx.add("messages_dropped_for_slow_subscribers", (npub - got.len()) as u64);
            ctx.count("subscribers_with_drops");
        }
    }
    // A subscriber that takes every write but only a few bytes at a time makes the `bytes`
    // buffer of asynchronous-codec double its *capacity* again and again (promotion to shared
    // storage after many small advances; measured 2 -> 32 MiB with 44-byte writes of 1 MiB
    // messages). That is neither a slow subscriber in the statement's sense nor zmq.rs code,
    // so the coarse heap bound is only applied without such a subscriber.
    let tiny_dribble = subs.iter().any(|s| matches!(s.script, Script::Dribble(n) if n < 4096));
    if tiny_dribble {
        ctx.count("heap_bound_not_applied_tiny_partial_writes");
    }
    if let (Some(peak), false) = (peak, tiny_dribble) {
        let allowed = (2i64 << 20) + (nsubs as i64) * 8 * (bound as i64) + 8 * max_encoded as i64;
        ctx.max("peak_heap_bytes", peak.max(0) as u64);
        if peak > allowed {
            ctx.violation_with(
                &sig("memory-held-for-slow-subscribers-unbounded"),
                format!("peak heap during the run {peak} bytes, allowed {allowed} ({nsubs} subscribers, largest message {max_encoded})"),
                case.clone(),
            );
        }
    }
}

/// Many subscribers, with subscription messages arriving while publishes are in flight.
async fn many_subscribers(ctx: &mut Ctx, ty: &str, nsubs: usize, npub: usize, seed: u64, case: &Value) {
    let mut r = Rng::keyed(seed, &[0x12AA, nsubs as u64]);
    let mut sock = Sock::new(ty, None);
    let mut subs = Vec::new();
    for k in 0..nsubs {
        match Peer::attach(&sock, "SUB", Some(format!("many{k}").as_bytes())).await {
            Ok(p) => {
                p.send(&[vec![1u8]]);
                subs.push(p);
            }
            Err(e) => {
                ctx.inconclusive(format!("C12 attach: {e}"));
                return;
            }
        }
    }
    if ty == "XPUB" {
        while recv_now(&mut sock).await.is_some() {}
    }
    sim::settle().await;
    for i in 0..npub {
        // subscription churn lands while the publish below is in flight
        for _ in 0..8 {
            let k = r.below(nsubs);
            subs[k].send(&[vec![1u8, b'x', (i % 250) as u8]]);
        }
        let mut msg: Frames = vec![b"t".to_vec()];
        msg.extend(rc::tagged(3, i as u32, &[64]));
        match sim::complete(sock.send(&msg)).await {
            Ok(Ok(())) => {}
            other => {
                ctx.violation_with(&format!("C12/publisher-blocked/{ty}"), format!("publish #{i} to {nsubs} subscribers: {other:?}"), case.clone());
                return;
            }
        }
        if ty == "XPUB" {
            while recv_now(&mut sock).await.is_some() {}
        }
        ctx.count("many_subscriber_publishes");
    }
    sim::settle().await;
    for (k, sb) in subs.iter().enumerate() {
        let n = sb.out_msgs().map(|m| m.iter().filter(|x| rc::parse_tag(x, 1).map(|t| t.origin == 3).unwrap_or(false)).count()).unwrap_or(0);
        if n != npub {
            ctx.violation_with(
                &format!("C12/accepting-subscriber-missed-messages/{ty}"),
                format!("subscriber {k} of {nsubs} accepted every write but received {n} of {npub} messages"),
                case.clone(),
            );
            return;
        }
    }
}

/// Real TCP, multi-thread runtime: the publisher publishes in a tight loop while
/// subscribers keep changing their subscriptions (a burst of subscribe/unsubscribe pairs
/// each). Publishing never waits for a subscriber — in particular not for ever.
/// Runs in a child process: if publisher and subscription handling block each other the
/// whole runtime stops, and only an outside observer can tell.
pub fn child_sub_storm(args: &[String]) -> i32 {
    use crate::rig::{self, Raw, ReadEnd};
    use std::sync::atomic::{AtomicBool, AtomicU64, Ordering};
    use std::sync::Arc;
    use std::time::Duration;
    let ty = args.first().cloned().unwrap_or_else(|| "PUB".into());
    let nsubs: usize = args.get(1).and_then(|x| x.parse().ok()).unwrap_or(2);
    let npub: u64 = args.get(2).and_then(|x| x.parse().ok()).unwrap_or(20_000);
    let published = Arc::new(AtomicU64::new(0));
    let changes = Arc::new(AtomicU64::new(0));
    let done = Arc::new(AtomicBool::new(false));
    // progress reporter on a plain OS thread: it keeps talking even if every runtime worker is stuck
    {
        let (published, changes, done) = (published.clone(), changes.clone(), done.clone());
        std::thread::spawn(move || {
            let mut last = (u64::MAX, 0u32);
            loop {
                std::thread::sleep(Duration::from_millis(250));
                if done.load(Ordering::SeqCst) {
                    return;
                }
                let p = published.load(Ordering::SeqCst);
                let same = if p == last.0 { last.1 + 1 } else { 0 };
                last = (p, same);
                if same >= 24 {
                    // six seconds without a single publish completing
                    println!("SUBSTORM {}", json!({"stuck": true, "published": p, "subscription_changes": changes.load(Ordering::SeqCst)}));
                    std::process::exit(0);
                }
            }
        });
    }
    let (res, _) = rig::run(4, async {
        let mut sock = Sock::new(&ty, None);
        let ep = sock.bind(&rig::bind_endpoint("tcp4")).await?;
        let mut tasks = Vec::new();
        for k in 0..nsubs {
            let (ep, changes, done) = (ep.clone(), changes.clone(), done.clone());
            tasks.push(tokio::spawn(async move {
                let mut raw = Raw::connect(&ep).await.map_err(|e| e.to_string())?;
                raw.handshake(if k % 2 == 0 { "SUB" } else { "XSUB" }, None).await?;
                raw.send_msg(&[vec![1u8, b't']]).await?;
                let mut i = 0u64;
                while !done.load(Ordering::SeqCst) {
                    // a burst of changes that cancel out, written back to back
                    let mut burst = Vec::new();
                    for _ in 0..20 {
                        burst.extend(rc::message(&[vec![1u8, b'A', (i % 7) as u8]]));
                        burst.extend(rc::message(&[vec![0u8, b'A', (i % 7) as u8]]));
                        i += 1;
                    }
                    if raw.write_all(&burst).await.is_err() {
                        break;
                    }
                    changes.fetch_add(40, Ordering::SeqCst);
                    // and keep reading what is published
                    loop {
                        match raw.read_msg(Duration::from_millis(0)).await {
                            Ok(_) => {}
                            Err(ReadEnd::Timeout) => break,
                            Err(_) => return Ok::<(), String>(()),
                        }
                    }
                    tokio::task::yield_now().await;
                }
                Ok(())
            }));
        }
        tokio::time::sleep(Duration::from_millis(50)).await;
        for i in 0..npub {
            let mut m: Frames = vec![b"t".to_vec()];
            m.extend(rc::tagged(1, i as u32, &[8]));
            sock.send(&m).await.map_err(|e| e.text)?;
            published.fetch_add(1, Ordering::SeqCst);
            if ty == "XPUB" && i % 8 == 0 {
                let _ = tokio::time::timeout(Duration::from_millis(0), sock.recv()).await;
            }
        }
        done.store(true, Ordering::SeqCst);
        for t in tasks {
            let _ = tokio::time::timeout(Duration::from_secs(2), t).await;
        }
        let _ = tokio::time::timeout(Duration::from_secs(2), sock.close()).await;
        Ok::<(), String>(())
    });
    done.store(true, Ordering::SeqCst);
    match res {
        Ok(()) => {
            println!("SUBSTORM {}", json!({"stuck": false, "published": published.load(Ordering::SeqCst), "subscription_changes": changes.load(Ordering::SeqCst)}));
            0
        }
        Err(e) => {
            println!("SUBSTORM-ERROR {e}");
            1
        }
    }
}

fn sub_storm_case(ctx: &mut Ctx, case: &Value) {
    use std::process::{Command, Stdio};
    let ty = s(case, "ty").to_string();
    let exe = std::env::current_exe().expect("current_exe");
    let out = Command::new(exe)
        .args(["child", "substorm", &ty, &u(case, "subs").to_string(), &u(case, "npub").to_string()])
        .stdout(Stdio::piped())
        .stderr(Stdio::null())
        .output();
    let text = match out {
        Ok(o) => String::from_utf8_lossy(&o.stdout).into_owned(),
        Err(e) => {
            ctx.inconclusive(format!("C12 storm: cannot run child: {e}"));
            return;
        }
    };
    let Some(line) = text.lines().find(|l| l.starts_with("SUBSTORM ")) else {
        ctx.inconclusive(format!("C12 storm {ty}: {}", text.lines().last().unwrap_or("no output")));
        return;
    };
    let v: Value = serde_json::from_str(&line["SUBSTORM ".len()..]).unwrap_or(Value::Null);
    ctx.add("rig_publishes_during_subscription_storms", u(&v, "published"));
    ctx.add("rig_subscription_changes_during_publishing", u(&v, "subscription_changes"));
    if v["stuck"].as_bool().unwrap_or(false) {
        ctx.violation_with(
            &format!("C12/rig/publisher-stuck-during-subscription-changes/{ty}"),
            format!(
                "{ty} over TCP on a 4-worker runtime, {} subscribers changing subscriptions in bursts: after {} publishes (of {}) and {} subscription changes no publish completed for 6 s",
                u(case, "subs"),
                u(&v, "published"),
                u(case, "npub"),
                u(&v, "subscription_changes")
            ),
            case.clone(),
        );
    }
}

impl Prop for C12 {
    fn id(&self) -> &'static str {
        "C12"
    }

    fn cases(&self, tier: Tier, seed: u64) -> Vec<Value> {
        let mut v = Vec::new();
        for ty in ["PUB", "XPUB"] {
            for subs in [1usize, 3] {
                v.push(json!({"kind": "storm", "ty": ty, "subs": subs, "npub": tier.pick(20_000u64, 200_000)}));
            }
            v.push(json!({"kind": "many", "ty": ty, "subs": 96, "npub": 25, "seed": mix(seed ^ 0x96)}));
            v.push(json!({"kind": "many", "ty": ty, "subs": 200, "npub": 10, "seed": mix(seed ^ 0x200)}));
            for n in 2..=5usize {
                for k in 0..tier.pick(12, 400) {
                    v.push(json!({"kind": "run", "ty": ty, "subs": n, "npub": 200, "small": false, "seed": mix(seed ^ 0xC12 ^ (k as u64) << 4 ^ n as u64)}));
                }
                for k in 0..tier.pick(3, 60) {
                    // many small messages: a missing high-water mark shows as unbounded retention
                    v.push(json!({"kind": "run", "ty": ty, "subs": n, "npub": tier.pick(2000, 5000), "small": true, "seed": mix(seed ^ 0x5C12 ^ (k as u64) << 4 ^ n as u64)}));
                }
            }
        }
        v
    }

    fn run(&self, case: &Value, ctx: &mut Ctx) {
        ctx.eval(hash_str(&case.to_string()), true);
        ctx.sample("run", || case.clone());
        let ty = s(case, "ty").to_string();
        if s(case, "kind") == "storm" {
            sub_storm_case(ctx, case);
            return;
        }
        if s(case, "kind") == "many" {
            sim::run(many_subscribers(ctx, &ty, u(case, "subs") as usize, u(case, "npub") as usize, u(case, "seed"), case));
            return;
        }
        sim::run(run(ctx, &ty, u(case, "subs") as usize, u(case, "npub") as usize, case["small"].as_bool().unwrap_or(false), u(case, "seed"), case));
    }

    fn floors(&self, _tier: Tier) -> Vec<(&'static str, u64)> {
        vec![
            ("subscription_changes_sent_by_a_stalled_subscriber", 100),
            ("publishes", 20_000),
            ("rig_publishes_during_subscription_storms", 50_000),
            ("rig_subscription_changes_during_publishing", 10_000),
            ("stalls", 20),
            ("stall_inside_frame_header", 5),
            ("resumes_after_stall", 20),
            ("never_draining_subscribers", 5),
            ("broken_pipes", 5),
            ("resets_at_the_high_water_mark", 3),
            ("many_subscriber_publishes", 20),
            ("subscribers_with_drops", 10),
            ("partial_write_subscribers_complete", 5),
        ]
    }
}
