//! C02 — stream reassembly is independent of how the bytes were segmented.

use super::common::*;
use crate::pipe::Conn;
use crate::prng::{hash_bytes, hash_str, mix, Rng};
use crate::refcodec::{self as rc, Frames};
use crate::report::{Ctx, Tier};
use crate::sim::{self, Managed};
use crate::sock::{attach_future, peer_type_for, Sock};
use crate::Prop;
use serde_json::{json, Value};

pub struct C02;

// ------------------------------------------------------------------ streams

/// Named byte streams (after the greeting unless stated) used by the sweeps.
fn tail16(name: &str) -> Vec<u8> {
    match name {
        // MORE chain with an empty frame, then a complete message, then an open one
        "t1" => vec![
            0x01, 0x02, 0xaa, 0xbb, 0x01, 0x00, 0x00, 0x03, 0xcc, 0xdd, 0xee, 0x00, 0x00, 0x01,
            0x01, 0xff,
        ],
        // long size form, then a short frame
        "t2" => vec![
            0x02, 0, 0, 0, 0, 0, 0, 0, 3, 0xaa, 0xbb, 0xcc, 0x00, 0x02, 0xdd, 0xee,
        ],
        // long+MORE then a last frame
        "t3" => vec![
            0x03, 0, 0, 0, 0, 0, 0, 0, 1, 0xaa, 0x00, 0x04, 0x0b, 0x0c, 0x0d, 0x0e,
        ],
        // READY command without properties, then messages
        "t4" => vec![
            0x04, 0x06, 0x05, b'R', b'E', b'A', b'D', b'Y', 0x00, 0x01, 0xaa, 0x01, 0x00, 0x00,
            0x01, 0xbb,
        ],
        // eight empty frames
        "t5" => vec![1, 0, 1, 0, 1, 0, 0, 0, 0, 0, 1, 0, 1, 0, 0, 0],
        _ => vec![],
    }
}

fn msg_of(key: u64, lens: &[usize]) -> Frames {
    lens.iter()
        .enumerate()
        .map(|(i, l)| body(key, i, *l))
        .collect()
}

/// Full codec-level streams: greeting, READY with k properties, items.
fn stream(name: &str) -> Vec<u8> {
    let mut v = rc::greeting();
    match name {
        "s_short" => {
            v.extend(rc::ready(b"PUSH", None));
            v.extend(rc::message(&msg_of(1, &[5])));
            v.extend(rc::message(&msg_of(2, &[0, 3, 0])));
            v.extend(rc::message(&msg_of(3, &[1, 1, 1, 1, 1])));
        }
        "s_props" => {
            v.extend(rc::command(
                b"READY",
                &rc::props(&[
                    (b"Socket-Type", b"DEALER"),
                    (b"Identity", b"abc"),
                    (b"X-Extra", b""),
                ]),
            ));
            v.extend(rc::message(&msg_of(4, &[2, 0])));
            v.extend(rc::ready(b"DEALER", None));
            v.extend(rc::message(&msg_of(5, &[7])));
        }
        "s_noprops" => {
            v.extend(rc::command(b"READY", b""));
            v.extend(rc::message(&msg_of(6, &[0])));
            v.extend(rc::message(&msg_of(7, &[255, 0])));
        }
        "s_256" => {
            v.extend(rc::ready(b"PUSH", Some(b"id")));
            v.extend(rc::message(&msg_of(8, &[255, 256])));
            v.extend(rc::message(&msg_of(9, &[3])));
        }
        "s_big" => {
            v.extend(rc::ready(b"PUSH", None));
            v.extend(rc::message(&msg_of(10, &[9000, 0, 17000])));
            v.extend(rc::ready(b"PUSH", None));
            v.extend(rc::message(&msg_of(11, &[1, 8192, 8191])));
            v.extend(rc::message(&msg_of(12, &[40000])));
        }
        "s_huge" => {
            // frames well beyond 64 KiB with more frames / messages right behind them
            v.extend(rc::ready(b"PUSH", None));
            v.extend(rc::message(&msg_of(20, &[70_000, 4])));
            v.extend(rc::message(&msg_of(21, &[5])));
            v.extend(rc::message(&msg_of(22, &[1, 131_073, 0, 66_000])));
            v.extend(rc::message(&msg_of(23, &[2])));
        }
        "s_many" => {
            // messages of very many tiny frames: whole messages sit complete in the
            // buffer however the bytes were chunked, nothing follows to nudge the decoder
            v.extend(rc::ready(b"PUSH", None));
            let lens: Vec<usize> = (0..1025).map(|i| i % 3).collect();
            v.extend(rc::message(&msg_of(30, &lens)));
            v.extend(rc::message(&msg_of(31, &[2])));
            let lens: Vec<usize> = (0..3000).map(|i| (i % 2) * 1).collect();
            v.extend(rc::message(&msg_of(32, &lens)));
        }
        "s_longform" => {
            // small frames and a small command written with 8-octet sizes
            v.extend(rc::ready(b"PUSH", None));
            v.extend(rc::message_long(&msg_of(40, &[0])));
            v.extend(rc::message_long(&msg_of(41, &[1, 0, 5])));
            v.extend(rc::message(&msg_of(42, &[3])));
            v.extend(rc::message_long(&msg_of(43, &[255, 256, 2])));
            let mut c = rc::frame_hdr(0x04, 6, true);
            c.extend_from_slice(b"\x05READY");
            v.extend(c);
            v.extend(rc::message_long(&msg_of(44, &[7, 7])));
        }
        "s_open" => {
            // ends inside a multipart message and inside a frame
            v.extend(rc::ready(b"PUSH", None));
            v.extend(rc::message(&msg_of(13, &[4, 4])));
            let m = rc::message(&msg_of(14, &[3, 300, 5]));
            v.extend(&m[..m.len() - 100]);
        }
        _ => {}
    }
    v
}

const CODEC_STREAMS: [&str; 9] = ["s_short", "s_props", "s_noprops", "s_256", "s_big", "s_huge", "s_many", "s_longform", "s_open"];

// ------------------------------------------------------- codec-level oracle

struct Outcome {
    items: Vec<LItem>,
    state: u64,
    leftover: Vec<u8>,
    failed: Option<String>,
    states_seen: Vec<u64>,
}

fn decode_with_cuts(streamb: &[u8], cuts: &[usize]) -> Outcome {
    let mut d = LibDecoder::new();
    let mut items = Vec::new();
    let mut prev = 0usize;
    let mut states_seen = Vec::new();
    for c in cuts.iter().copied().chain(std::iter::once(streamb.len())) {
        if c <= prev || c > streamb.len() {
            continue;
        }
        items.extend(d.feed(&streamb[prev..c]));
        if cuts.len() < 600 && streamb.len() < 20_000 {
            // (formatting the state is linear in the buffered message)
            states_seen.push(hash_str(&d.codec.debug_state()));
        }
        prev = c;
    }
    Outcome {
        items,
        state: hash_str(&d.codec.debug_state()),
        leftover: d.buf.to_vec(),
        failed: d.failed,
        states_seen,
    }
}

fn classify_cut(ctx: &mut Ctx, streamb: &[u8], cut: usize) {
    // where does this cut fall, judged by the reference decoder
    if cut < 64 {
        ctx.count("cut_inside_greeting");
        return;
    }
    if cut == 64 {
        ctx.count("cut_at_greeting_end");
        return;
    }
    let d = rc::decode_stream(streamb, true);
    // walk frames
    let mut pos = 64usize;
    let b = streamb;
    let mut first_item_end = None;
    if d.ends.len() > 1 {
        first_item_end = Some(d.ends[1]);
    }
    if Some(cut) == first_item_end {
        ctx.count("cut_exactly_at_handshake_end");
    }
    while pos < b.len() {
        let flags = b[pos];
        let long = flags & 2 != 0;
        let hdr = if long { 9 } else { 2 };
        if b.len() - pos < hdr {
            break;
        }
        let len = if long {
            let mut x = [0u8; 8];
            x.copy_from_slice(&b[pos + 1..pos + 9]);
            u64::from_be_bytes(x) as usize
        } else {
            b[pos + 1] as usize
        };
        if cut == pos {
            if flags & 1 == 0 && pos > 64 {
                // previous frame decides; approximate: boundary between frames/items
            }
            ctx.count("cut_between_frames_or_items");
            return;
        }
        if cut == pos + 1 {
            ctx.count("cut_between_flags_and_size");
            return;
        }
        if long && cut > pos + 1 && cut < pos + 9 {
            ctx.count("cut_inside_8byte_size");
            return;
        }
        if cut > pos && cut < pos + hdr + len {
            ctx.count("cut_inside_body");
            return;
        }
        pos += hdr + len;
    }
}

fn compare(
    ctx: &mut Ctx,
    what: &str,
    base: &Outcome,
    got: &Outcome,
    witness: impl FnOnce() -> Value,
) -> bool {
    let mut problems = Vec::new();
    if got.items != base.items {
        let n = got
            .items
            .iter()
            .zip(base.items.iter())
            .take_while(|(a, b)| a == b)
            .count();
        problems.push(format!(
            "items differ from index {n}: one-shot has {} items, this segmentation {} ({} vs {})",
            base.items.len(),
            got.items.len(),
            base.items.get(n).map(|i| i.summary()).unwrap_or("-".into()),
            got.items.get(n).map(|i| i.summary()).unwrap_or("-".into()),
        ));
    }
    if got.failed.is_some() != base.failed.is_some() {
        problems.push(format!("error {:?} vs one-shot {:?}", got.failed, base.failed));
    }
    if problems.is_empty() && base.failed.is_none() {
        if got.leftover != base.leftover {
            problems.push(format!(
                "undecoded leftover {} bytes vs one-shot {} bytes",
                got.leftover.len(),
                base.leftover.len()
            ));
        } else if got.state != base.state {
            problems.push("resumable decoder state differs from the one-shot run".into());
        }
    }
    if problems.is_empty() {
        return true;
    }
    ctx.violation_with(
        &format!("C02/codec/{what}"),
        problems.join("; "),
        witness(),
    );
    false
}

fn baseline(ctx: &mut Ctx, name: &str, streamb: &[u8], expect_greeting: bool) -> Option<Outcome> {
    let base = decode_with_cuts(streamb, &[]);
    // the one-shot library decode must itself equal the reference decode
    let r = rc::decode_stream(streamb, expect_greeting);
    let want: Vec<LItem> = r.items.iter().map(ritem_to_litem).collect();
    if base.failed.is_some() || base.items != want {
        ctx.violation_with(
            "C02/codec/one-shot-differs-from-reference",
            format!(
                "stream {name}: library error={:?}, {} items; reference {} items",
                base.failed,
                base.items.len(),
                want.len()
            ),
            json!({"kind": "codec_cuts", "stream": name, "cuts": []}),
        );
        return None;
    }
    Some(base)
}

fn codec_single_and_pairs(ctx: &mut Ctx, name: &str, pairs: bool, first_range: (usize, usize)) {
    let sb = stream(name);
    let Some(base) = baseline(ctx, name, &sb, true) else { return };
    let n = sb.len();
    // long streams: restrict pair sweeps to the interesting first 420 bytes + frame neighbourhoods
    let limit = n.min(420);
    let mut count = 0u64;
    for a in first_range.0..first_range.1.min(limit) {
        if a == 0 {
            continue;
        }
        let got = decode_with_cuts(&sb, &[a]);
        for s in &got.states_seen {
            ctx.state(*s);
        }
        classify_cut(ctx, &sb, a);
        count += 1;
        if !compare(ctx, "single-cut", &base, &got, || {
            json!({"kind": "codec_cuts", "stream": name, "cuts": [a]})
        }) {
            return;
        }
        if pairs {
            for b in a + 1..limit {
                let got = decode_with_cuts(&sb, &[a, b]);
                count += 1;
                if !compare(ctx, "two-cuts", &base, &got, || {
                    json!({"kind": "codec_cuts", "stream": name, "cuts": [a, b]})
                }) {
                    return;
                }
            }
        }
    }
    ctx.eval_bulk(count, count);
    ctx.add("codec_partitions", count);
}

fn codec_strides(ctx: &mut Ctx, name: &str, seed: u64, randoms: usize) {
    let sb = stream(name);
    let Some(base) = baseline(ctx, name, &sb, true) else { return };
    let mut count = 0u64;
    // cuts right around every item end (the read that carries a frame's tail may or may
    // not carry what follows)
    let ends = rc::decode_stream(&sb, true).ends;
    for e in ends {
        for d in [-1i64, 0, 1, 2, 9] {
            let c = e as i64 + d;
            if c <= 0 || c as usize >= sb.len() {
                continue;
            }
            let got = decode_with_cuts(&sb, &[c as usize]);
            count += 1;
            ctx.count("cuts_around_item_ends");
            if !compare(ctx, "cut-near-item-end", &base, &got, || json!({"kind": "codec_cuts", "stream": name, "cuts": [c]})) {
                return;
            }
        }
    }
    for stride in [1usize, 2, 3, 7, 64, 8191, 8192, 8193] {
        let cuts: Vec<usize> = (1..).map(|i| i * stride).take_while(|c| *c < sb.len()).collect();
        let got = decode_with_cuts(&sb, &cuts);
        for s in &got.states_seen {
            ctx.state(*s);
        }
        count += 1;
        if stride == 1 {
            ctx.count("byte_at_a_time_runs");
        }
        if !compare(ctx, "stride", &base, &got, || {
            json!({"kind": "codec_stride", "stream": name, "stride": stride})
        }) {
            return;
        }
    }
    let mut r = Rng::keyed(seed, &[2, hash_str(name)]);
    for _ in 0..randoms {
        let k = r.range(1, 40);
        let mut cuts: Vec<usize> = (0..k).map(|_| r.range(1, sb.len().max(2) - 1)).collect();
        cuts.sort();
        cuts.dedup();
        let got = decode_with_cuts(&sb, &cuts);
        count += 1;
        ctx.eval(hash_bytes(&cuts.iter().flat_map(|c| c.to_le_bytes()).collect::<Vec<u8>>()) ^ hash_str(name), true);
        if !compare(ctx, "random-partition", &base, &got, || {
            json!({"kind": "codec_cuts", "stream": name, "cuts": cuts})
        }) {
            return;
        }
    }
    ctx.add("codec_partitions", count);
}

/// All 2^15 partitions of the 16 bytes that follow the greeting.
fn codec_all_partitions(ctx: &mut Ctx, tail: &str, lo: u32, hi: u32) {
    let mut sb = rc::greeting();
    sb.extend(tail16(tail));
    let Some(base) = baseline(ctx, tail, &sb, true) else { return };
    let mut count = 0u64;
    for mask in lo..hi {
        // bit i set = cut after byte 64+i+1
        let cuts: Vec<usize> = std::iter::once(64)
            .chain((0..15).filter(|i| mask >> i & 1 == 1).map(|i| 64 + i + 1))
            .collect();
        let got = decode_with_cuts(&sb, &cuts);
        count += 1;
        if mask % 257 == 0 {
            for s in &got.states_seen {
                ctx.state(*s);
            }
        }
        if !compare(ctx, "all-partitions", &base, &got, || {
            json!({"kind": "codec_cuts", "stream": format!("tail:{tail}"), "cuts": cuts})
        }) {
            return;
        }
    }
    ctx.eval_bulk(count, count);
    ctx.add("codec_partitions", count);
    ctx.add("exhaustive_partitions_of_16_bytes", count);
}

// ------------------------------------------------------ socket-level oracle

/// Peer stream for a receiving socket type: handshake + messages, with READY
/// commands between messages; returns (bytes, expected recv results).
fn socket_stream(ty: &str, variant: u64) -> (Vec<u8>, Vec<Frames>, Vec<u8>) {
    let peer_ty = peer_type_for(ty);
    let ident = b"P1".to_vec();
    let mut bytes = rc::handshake(peer_ty, Some(&ident));
    let mut expect = Vec::new();
    let shapes: Vec<Vec<usize>> = match variant {
        0 => vec![vec![3], vec![0, 2], vec![1, 0, 1]],
        1 => vec![vec![255], vec![256, 0], vec![5]],
        _ => vec![vec![9000, 1], vec![2], vec![8192, 8192, 100]],
    };
    for (k, lens) in shapes.iter().enumerate() {
        let payload = msg_of(100 + variant * 10 + k as u64, lens);
        let (wire, want): (Frames, Frames) = match ty {
            "REP" => {
                let mut w = vec![b"route".to_vec(), vec![]];
                w.extend(payload.clone());
                // payload may itself start with an empty frame: REP splits at the FIRST
                // empty frame, which is the delimiter we put there
                (w, payload.clone())
            }
            "REQ" => {
                let mut w = vec![vec![]];
                w.extend(payload.clone());
                (w, payload.clone())
            }
            "ROUTER" => {
                let mut want = vec![ident.clone()];
                want.extend(payload.clone());
                (payload.clone(), want)
            }
            "XPUB" => {
                // subscription-shaped single frames so XPUB's own bookkeeping is happy
                let mut f = vec![1u8];
                f.extend(payload.concat());
                (vec![f.clone()], vec![f])
            }
            _ => (payload.clone(), payload.clone()),
        };
        bytes.extend(rc::message(&wire));
        if k == 0 && ty != "REQ" {
            // a command between messages (REQ is strictly one reply per
            // request and reports any other item as an error: not injected)
            bytes.extend(rc::ready(peer_ty.as_bytes(), None));
        }
        expect.push(want);
    }
    (bytes, expect, ident)
}

#[derive(Clone, Copy, PartialEq)]
enum Mode {
    /// everything readable from the start, reads return the scripted chunks
    Chunked,
    /// chunks become readable one at a time; the library parks in between
    Released,
}

async fn socket_partition(
    ctx: &mut Ctx,
    ty: &str,
    variant: u64,
    cuts: &[usize],
    mode: Mode,
    witness: &Value,
) -> bool {
    let (bytes, expect, _ident) = socket_stream(ty, variant);
    let mut sock = Sock::new(ty, None);
    let (conn, r, w) = Conn::new();
    let mut sizes = Vec::new();
    let mut prev = 0usize;
    for c in cuts.iter().copied().chain(std::iter::once(bytes.len())) {
        if c > prev && c <= bytes.len() {
            sizes.push(c - prev);
            prev = c;
        }
    }
    match mode {
        Mode::Chunked => {
            conn.set_read_chunks(&sizes);
            conn.feed(&bytes);
        }
        Mode::Released => conn.feed_held(&bytes),
    }
    let mut next_chunk = 0usize;
    // handshake
    let backend = sock.backend();
    let mut att = Managed::new(attach_future(backend, r, w));
    let attached = loop {
        match att.drive().await {
            Ok(Some(res)) => break res,
            Ok(None) => {
                if mode == Mode::Released && next_chunk < sizes.len() {
                    conn.release(sizes[next_chunk]);
                    next_chunk += 1;
                    ctx.count("socket_parked_then_released");
                    continue;
                }
                ctx.violation_with(
                    &format!("C02/socket/handshake-stuck/{ty}"),
                    format!("{ty}: handshake pending although all {} bytes were delivered", bytes.len()),
                    witness.clone(),
                );
                return false;
            }
            Err(_) => {
                ctx.violation_with(
                    &format!("C02/socket/spin/{ty}"),
                    format!("{ty}: handshake future spins"),
                    witness.clone(),
                );
                return false;
            }
        }
    };
    drop(att);
    if let Err(e) = attached {
        ctx.violation_with(
            &format!("C02/socket/handshake-failed/{ty}"),
            format!("{ty}: valid handshake rejected under this segmentation: {e}"),
            witness.clone(),
        );
        return false;
    }
    let mut got: Vec<Frames> = Vec::new();
    if ty == "PUB" {
        // no recv: the visible effect of the peer's messages is the subscription state.
        // handled by the caller through socket_stream("PUB") being subscription messages
        unreachable!("PUB handled separately");
    }
    for k in 0..expect.len() {
        if ty == "REQ" {
            // one request per reply
            match sim::complete(sock.send(&[b"q".to_vec()])).await {
                Ok(Ok(())) => {}
                other => {
                    ctx.inconclusive(format!("C02 REQ send failed: {other:?}"));
                    return false;
                }
            }
        }
        let mut rv = Managed::new(sock.recv());
        let res = loop {
            match rv.drive().await {
                Ok(Some(r)) => break Some(r),
                Ok(None) => {
                    if mode == Mode::Released && next_chunk < sizes.len() {
                        conn.release(sizes[next_chunk]);
                        next_chunk += 1;
                        ctx.count("socket_parked_then_released");
                        continue;
                    }
                    break None;
                }
                Err(_) => break None,
            }
        };
        drop(rv);
        match res {
            Some(Ok(m)) => got.push(m),
            Some(Err(e)) => {
                ctx.violation_with(
                    &format!("C02/socket/recv-error/{ty}"),
                    format!("{ty}: recv #{k} returned Err({e}) for a valid stream"),
                    witness.clone(),
                );
                return false;
            }
            None => {
                ctx.violation_with(
                    &format!("C02/socket/message-lost/{ty}"),
                    format!(
                        "{ty}: recv #{k} still pending after all {} bytes were delivered ({} of {} messages received)",
                        bytes.len(),
                        got.len(),
                        expect.len()
                    ),
                    witness.clone(),
                );
                return false;
            }
        }
    }
    if got != expect {
        let n = got.iter().zip(expect.iter()).take_while(|(a, b)| a == b).count();
        ctx.violation_with(
            &format!("C02/socket/messages-differ/{ty}"),
            format!(
                "{ty}: message #{n}: expected {} got {}",
                rc::frames_summary(&expect[n]),
                rc::frames_summary(&got[n])
            ),
            witness.clone(),
        );
        return false;
    }
    // nothing more must come out
    let mut rv = Managed::new(sock.recv());
    if ty != "REQ" {
        if let Ok(Some(extra)) = rv.drive().await {
            ctx.violation_with(
                &format!("C02/socket/duplicate/{ty}"),
                format!("{ty}: an extra recv result appeared: {extra:?}"),
                witness.clone(),
            );
            return false;
        }
    }
    drop(rv);
    true
}

/// PUB: subscription message coalesced with the end of the handshake must be
/// honoured (first message not dropped), whatever the segmentation.
async fn pub_partition(ctx: &mut Ctx, cuts: &[usize], mode: Mode, witness: &Value) -> bool {
    let mut bytes = rc::handshake("SUB", Some(b"P1"));
    bytes.extend(rc::message(&[b"\x01a".to_vec()]));
    bytes.extend(rc::message(&[b"\x01b".to_vec()]));
    bytes.extend(rc::message(&[b"\x00b".to_vec()]));
    let mut sock = Sock::new("PUB", None);
    let (conn, r, w) = Conn::new();
    let mut sizes = Vec::new();
    let mut prev = 0usize;
    for c in cuts.iter().copied().chain(std::iter::once(bytes.len())) {
        if c > prev && c <= bytes.len() {
            sizes.push(c - prev);
            prev = c;
        }
    }
    match mode {
        Mode::Chunked => {
            conn.set_read_chunks(&sizes);
            conn.feed(&bytes);
        }
        Mode::Released => conn.feed_held(&bytes),
    }
    let mut next_chunk = 0usize;
    let mut att = Managed::new(attach_future(sock.backend(), r, w));
    let attached = loop {
        match att.drive().await {
            Ok(Some(res)) => break res,
            Ok(None) if mode == Mode::Released && next_chunk < sizes.len() => {
                conn.release(sizes[next_chunk]);
                next_chunk += 1;
            }
            _ => {
                ctx.violation_with(
                    "C02/socket/handshake-stuck/PUB",
                    "PUB: handshake pending although all bytes were delivered".into(),
                    witness.clone(),
                );
                return false;
            }
        }
    };
    drop(att);
    if let Err(e) = attached {
        ctx.violation_with(
            "C02/socket/handshake-failed/PUB",
            format!("PUB: valid handshake rejected under this segmentation: {e}"),
            witness.clone(),
        );
        return false;
    }
    // let the reader task consume everything
    loop {
        sim::settle().await;
        if mode == Mode::Released && next_chunk < sizes.len() {
            conn.release(sizes[next_chunk]);
            next_chunk += 1;
        } else {
            break;
        }
    }
    let hs = match crate::sock::library_handshake_len(&conn.tap()) {
        Ok(n) => n,
        Err(e) => {
            ctx.inconclusive(format!("C02 PUB tap: {e}"));
            return false;
        }
    };
    for (topic, want) in [("a1", true), ("b1", false), ("c1", false)] {
        let before = conn.tap_len();
        let _ = sim::complete(sock.send(&[topic.as_bytes().to_vec()])).await;
        let delivered = conn.tap_len() > before;
        if delivered != want {
            ctx.violation_with(
                "C02/socket/subscription-state/PUB",
                format!(
                    "PUB: after sub a, sub b, unsub b (delivered with cuts {cuts:?}) publish {topic:?} delivered={delivered}, expected {want}"
                ),
                witness.clone(),
            );
            return false;
        }
    }
    let _ = hs;
    true
}

fn socket_sweep(ctx: &mut Ctx, ty: &str, variant: u64, pairs: bool, seed: u64, case: &Value) {
    let len = if ty == "PUB" {
        let mut b = rc::handshake("SUB", Some(b"P1"));
        b.extend(rc::message(&[b"\x01a".to_vec()]));
        b.extend(rc::message(&[b"\x01b".to_vec()]));
        b.extend(rc::message(&[b"\x00b".to_vec()]));
        b.len()
    } else {
        socket_stream(ty, variant).0.len()
    };
    let hs_len = rc::handshake(peer_type_for(ty), Some(b"P1")).len();
    let mut plans: Vec<(Vec<usize>, Mode)> = Vec::new();
    let limit = len.min(hs_len + 60);
    for a in 1..limit {
        plans.push((vec![a], Mode::Chunked));
        plans.push((vec![a], Mode::Released));
    }
    if pairs {
        // pairs around the hand-over point (end of the handshake) and the first message
        for a in (hs_len.saturating_sub(12))..limit {
            for b in a + 1..limit {
                plans.push((vec![a, b], if (a + b) % 2 == 0 { Mode::Chunked } else { Mode::Released }));
            }
        }
    }
    // byte at a time and strides
    for stride in [1usize, 2, 3, 7, 8191, 8192, 8193] {
        let cuts: Vec<usize> = (1..).map(|i| i * stride).take_while(|c| *c < len).collect();
        if cuts.is_empty() && stride > 7 {
            continue;
        }
        plans.push((cuts.clone(), Mode::Chunked));
        if stride <= 7 && len < 2000 {
            plans.push((cuts, Mode::Released));
        }
    }
    // the whole stream in one read: READY and the first message coalesced
    plans.push((vec![], Mode::Chunked));
    let mut r = Rng::keyed(seed, &[3, hash_str(ty), variant]);
    for _ in 0..40 {
        let k = r.range(1, 12);
        let mut cuts: Vec<usize> = (0..k).map(|_| r.range(1, len - 1)).collect();
        cuts.sort();
        cuts.dedup();
        plans.push((cuts, if r.chance(1, 2) { Mode::Chunked } else { Mode::Released }));
    }
    let mut n = 0u64;
    for (cuts, mode) in plans {
        let witness = json!({"kind": "socket_cuts", "ty": ty, "variant": variant, "cuts": cuts,
                             "mode": if mode == Mode::Chunked {"chunked"} else {"released"}});
        if cuts.contains(&hs_len) {
            ctx.count("socket_cut_exactly_at_handshake_end");
        }
        if !cuts.contains(&hs_len) {
            ctx.count("socket_ready_and_first_message_in_one_read");
        }
        n += 1;
        let ok = sim::run(async {
            if ty == "PUB" {
                pub_partition(ctx, &cuts, mode, &witness).await
            } else {
                socket_partition(ctx, ty, variant, &cuts, mode, &witness).await
            }
        });
        ctx.eval(
            mix(hash_str(ty) ^ variant ^ hash_bytes(&cuts.iter().flat_map(|c| c.to_le_bytes()).collect::<Vec<u8>>()))
                ^ (mode == Mode::Chunked) as u64,
            true,
        );
        if !ok {
            break;
        }
    }
    ctx.add("socket_partitions", n);
    let _ = case;
}

/// Real TCP, multi-thread runtime: several raw peers write every message in two or three
/// pieces (segments arrive on the reactor thread while the receiver is busy with another
/// connection). What the socket returns depends on the byte streams only: every message,
/// whole, in each peer's order.
async fn rig_pieces(ty: &str, npeers: usize, per: u32, seed: u64) -> Result<(u64, u64), (String, String)> {
    use crate::rig::{self, Raw, WAIT};
    use crate::sock::Sock;
    use std::time::Duration;
    let inc = |e: String| ("inconclusive".to_string(), e);
    let mut sock = Sock::new(ty, None);
    let ep = sock.bind(&rig::bind_endpoint("tcp4")).await.map_err(inc)?;
    if ty == "SUB" {
        sock.subscribe("").await.map_err(inc)?;
    }
    let peer_ty = crate::sock::peer_type_for(ty).to_string();
    // the writers keep their connections open until the receiver has everything (a close with
    // unread data in the writer's own receive buffer is a reset, which discards what the
    // receiving side had not read yet)
    let done = std::sync::Arc::new(std::sync::atomic::AtomicBool::new(false));
    let mut tasks = Vec::new();
    for k in 0..npeers {
        let (ep, peer_ty, done) = (ep.clone(), peer_ty.clone(), done.clone());
        tasks.push(tokio::spawn(async move {
            let mut r = Rng::keyed(seed, &[2, 0x71EC, k as u64]);
            let mut raw = Raw::connect(&ep).await.map_err(|e| e.to_string())?;
            raw.handshake(&peer_ty, None).await?;
            let mut pieces = 0u64;
            for i in 0..per {
                let m = rc::message_as_peer(&rc::tagged(k as u16, i, &[r.below(40), *r.pick(&[0usize, 3, 300])]));
                let a = r.range(1, m.len() - 1);
                let b = r.range(a, m.len());
                for part in [&m[..a], &m[a..b], &m[b..]] {
                    if part.is_empty() {
                        continue;
                    }
                    raw.write_all(part).await.map_err(|e| e.to_string())?;
                    pieces += 1;
                    if r.chance(1, 3) {
                        tokio::task::yield_now().await;
                    }
                }
            }
            let t0 = std::time::Instant::now();
            while !done.load(std::sync::atomic::Ordering::SeqCst) && t0.elapsed() < Duration::from_secs(120) {
                tokio::time::sleep(Duration::from_millis(20)).await;
            }
            Ok::<u64, String>(pieces)
        }));
    }
    let total = per as u64 * npeers as u64;
    let mut next = vec![0u32; npeers];
    let mut got = 0u64;
    while got < total {
        let m = match tokio::time::timeout(WAIT, sock.recv()).await {
            Ok(Ok(m)) => m,
            Ok(Err(e)) => {
                done.store(true, std::sync::atomic::Ordering::SeqCst);
                return Err((format!("C02/rig/recv-error/{ty}"), e));
            }
            Err(_) => {
                if !rig::canary_ok().await {
                    return Err(inc("receiver starved while the canary was slow".into()));
                }
                return Err((
                    format!("C02/rig/stream-not-delivered/{ty}"),
                    format!("{npeers} peers wrote {per} messages each in pieces over TCP; the socket returned {got} of {total} and then nothing for {WAIT:?} (next expected per peer: {next:?})"),
                ));
            }
        };
        let skip = if ty == "ROUTER" { 1 } else { 0 };
        match rc::parse_tag(&m, skip) {
            Ok(t) if (t.origin as usize) < npeers && t.seq == next[t.origin as usize] => next[t.origin as usize] += 1,
            other => {
                return Err((
                    format!("C02/rig/message-differs-from-stream/{ty}"),
                    format!("after {got} messages: got {other:?} ({}), next expected per peer {next:?}", rc::frames_summary(&m)),
                ))
            }
        }
        got += 1;
    }
    done.store(true, std::sync::atomic::Ordering::SeqCst);
    let mut pieces = 0;
    for t in tasks {
        match tokio::time::timeout(WAIT, t).await {
            Ok(Ok(Ok(p))) => pieces += p,
            Ok(Ok(Err(e))) => return Err(inc(format!("writer: {e}"))),
            _ => return Err(inc("writer task did not finish".into())),
        }
    }
    let _ = tokio::time::timeout(WAIT, sock.close()).await;
    Ok((got, pieces))
}

impl Prop for C02 {
    fn id(&self) -> &'static str {
        "C02"
    }

    fn cases(&self, tier: Tier, seed: u64) -> Vec<Value> {
        let mut v = Vec::new();
        for t in ["t1", "t2", "t3", "t4", "t5"] {
            let n = if tier == Tier::Quick && (t == "t4" || t == "t5") {
                continue;
            } else {
                1u32 << 15
            };
            for part in 0..4u32 {
                v.push(json!({"kind": "all16", "tail": t, "lo": part * n / 4, "hi": (part + 1) * n / 4}));
            }
        }
        for st in CODEC_STREAMS {
            let len = stream(st).len().min(420);
            let step = 30;
            let mut a = 0;
            while a < len {
                v.push(json!({"kind": "codec_sweep", "stream": st, "pairs": true, "from": a, "to": a + step}));
                a += step;
            }
            for b in 0..tier.pick(1u64, 60) {
                v.push(json!({"kind": "codec_strides", "stream": st, "seed": seed ^ (b << 32),
                              "randoms": tier.pick(200, 500)}));
            }
        }
        for ty in ["PULL", "ROUTER", "SUB", "DEALER"] {
            for k in 0..tier.pick(2u64, 12) {
                v.push(json!({"kind": "rig_pieces", "ty": ty, "peers": 8, "per": tier.pick(1500, 6000), "seed": seed ^ (k << 20)}));
            }
        }
        for ty in ["PULL", "SUB", "DEALER", "ROUTER", "REP", "XPUB", "REQ", "PUB"] {
            let variants: &[u64] = if ty == "PUB" { &[0] } else { tier.pick(&[0, 2], &[0, 1, 2]) };
            for var in variants {
                v.push(json!({"kind": "socket_sweep", "ty": ty, "variant": var,
                              "pairs": tier == Tier::Thorough || *var == 0, "seed": seed}));
            }
        }
        v
    }

    fn run(&self, case: &Value, ctx: &mut Ctx) {
        match s(case, "kind") {
            "rig_pieces" => {
                ctx.eval(hash_str(&case.to_string()), true);
                ctx.sample("rig_pieces", || case.clone());
                let (res, _) = crate::rig::run(4, rig_pieces(s(case, "ty"), u(case, "peers") as usize, u(case, "per") as u32, u(case, "seed")));
                match res {
                    Ok((got, pieces)) => {
                        ctx.add("rig_messages_reassembled_from_pieces", got);
                        ctx.add("rig_pieces_written", pieces);
                    }
                    Err((sig, msg)) if sig == "inconclusive" => ctx.inconclusive(format!("C02 rig: {msg}")),
                    Err((sig, msg)) => ctx.violation_with(&sig, msg, case.clone()),
                }
            }
            "all16" => {
                ctx.sample("all_partitions", || case.clone());
                codec_all_partitions(ctx, s(case, "tail"), u(case, "lo") as u32, u(case, "hi") as u32)
            }
            "codec_sweep" => {
                ctx.sample("codec_sweep", || case.clone());
                codec_single_and_pairs(
                    ctx,
                    s(case, "stream"),
                    case["pairs"].as_bool().unwrap_or(false),
                    (u(case, "from") as usize, u(case, "to") as usize),
                )
            }
            "codec_strides" => codec_strides(ctx, s(case, "stream"), u(case, "seed"), u(case, "randoms") as usize),
            "codec_cuts" => {
                // replay of one partition
                let name = s(case, "stream");
                let sb = if let Some(t) = name.strip_prefix("tail:") {
                    let mut b = rc::greeting();
                    b.extend(tail16(t));
                    b
                } else {
                    stream(name)
                };
                if let Some(base) = baseline(ctx, name, &sb, true) {
                    let cuts = usizes(case, "cuts");
                    let got = decode_with_cuts(&sb, &cuts);
                    ctx.eval(1, true);
                    compare(ctx, "replayed-partition", &base, &got, || case.clone());
                }
            }
            "codec_stride" => {
                let name = s(case, "stream");
                let sb = stream(name);
                if let Some(base) = baseline(ctx, name, &sb, true) {
                    let stride = (u(case, "stride") as usize).max(1);
                    let cuts: Vec<usize> = (1..).map(|i| i * stride).take_while(|c| *c < sb.len()).collect();
                    let got = decode_with_cuts(&sb, &cuts);
                    ctx.eval(1, true);
                    compare(ctx, "stride", &base, &got, || case.clone());
                }
            }
            "socket_sweep" => {
                ctx.sample("socket_sweep", || case.clone());
                socket_sweep(
                    ctx,
                    s(case, "ty"),
                    u(case, "variant"),
                    case["pairs"].as_bool().unwrap_or(false),
                    u(case, "seed"),
                    case,
                )
            }
            "socket_cuts" => {
                let ty = s(case, "ty").to_string();
                let cuts = usizes(case, "cuts");
                let mode = if s(case, "mode") == "released" { Mode::Released } else { Mode::Chunked };
                ctx.eval(1, true);
                sim::run(async {
                    if ty == "PUB" {
                        pub_partition(ctx, &cuts, mode, case).await
                    } else {
                        socket_partition(ctx, &ty, u(case, "variant"), &cuts, mode, case).await
                    }
                });
            }
            _ => ctx.inconclusive(format!("unknown case {case}")),
        }
    }

    fn sanitizer_cases(&self, seed: u64) -> Vec<Value> {
        let mut v = vec![
            json!({"kind": "all16", "tail": "t1", "lo": 0, "hi": 96}),
            json!({"kind": "all16", "tail": "t3", "lo": 4000, "hi": 4064}),
            json!({"kind": "codec_sweep", "stream": "s_short", "pairs": false, "from": 60, "to": 110}),
            json!({"kind": "codec_strides", "stream": "s_props", "seed": seed, "randoms": 5}),
        ];
        for ty in ["PULL", "REP", "ROUTER", "PUB", "REQ"] {
            for cuts in [vec![], vec![64usize], vec![10, 70, 95]] {
                v.push(json!({"kind": "socket_cuts", "ty": ty, "variant": 0, "cuts": cuts, "mode": "released"}));
            }
        }
        v
    }

    fn floors(&self, tier: Tier) -> Vec<(&'static str, u64)> {
        vec![
            ("exhaustive_partitions_of_16_bytes", tier.pick(3, 5) * 32768),
            ("codec_partitions", 100_000),
            ("rig_messages_reassembled_from_pieces", 50_000),
            ("socket_partitions", 2000),
            ("cut_inside_greeting", 50),
            ("cut_between_flags_and_size", 5),
            ("cut_inside_8byte_size", 5),
            ("cut_inside_body", 50),
            ("cut_between_frames_or_items", 10),
            ("cut_exactly_at_handshake_end", 1),
            ("socket_cut_exactly_at_handshake_end", 8),
            ("socket_ready_and_first_message_in_one_read", 8),
            ("socket_parked_then_released", 100),
            ("byte_at_a_time_runs", 6),
        ]
    }
}
