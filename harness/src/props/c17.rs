//! C17 — closing or dropping a socket stops its listeners and disconnects all peers.

use super::common::*;
use crate::prng::hash_str;
use crate::refcodec::{self as rc};
use crate::report::{Ctx, Tier};
use crate::rig::{self, Raw, RawListener, WAIT};
use crate::sim;
use crate::sock::{peer_type_for, Peer, Sock, ALL_TYPES};
use crate::Prop;
use serde_json::{json, Value};
use std::time::Duration;

pub struct C17;

const TRANSPORTS: [&str; 3] = ["tcp4", "tcp6", "ipc"];
const PREFIXES: [&str; 6] = ["bound", "bound+peers", "connected-out", "mid-traffic", "pending-handshake", "connect-abandoned"];

struct Findings {
    v: Vec<(String, String)>,
    inconclusive: Vec<String>,
    rebinds: u64,
}

async fn late_or_canary(f: &mut Findings, sig: String, msg: String) {
    // a bounded wait expired: only a violation if the machine is healthy right now
    if rig::canary_ok().await {
        f.v.push((sig, msg));
    } else {
        f.inconclusive.push(format!("bounded wait expired but the canary was slow too: {msg}"));
    }
}

async fn rig_case(ty: &str, transport: &str, prefix: &str, how: &str) -> Findings {
    let mut f = Findings { v: vec![], inconclusive: vec![], rebinds: 0 };
    let peer_ty = peer_type_for(ty);
    let mut sock = Sock::new(ty, None);
    let mut raws: Vec<Raw> = Vec::new();
    let mut bound: Option<String> = None;
    let mut _listener: Option<RawListener> = None;
    macro_rules! bail {
        ($($a:tt)*) => {{ f.inconclusive.push(format!($($a)*)); return f; }};
    }
    match prefix {
        "connect-abandoned" => {
            // connecting out to a peer that accepts and then says nothing; the application
            // gives up on connect() (a timeout), later closes or drops the socket
            let (l, ep) = match RawListener::bind(transport).await {
                Ok(x) => x,
                Err(e) => bail!("raw listener: {e}"),
            };
            let (c, a) = tokio::join!(tokio::time::timeout(Duration::from_millis(60), sock.connect(&ep)), async {
                tokio::time::timeout(WAIT, l.accept()).await
            });
            if c.is_ok() {
                bail!("connect() returned although the peer never spoke: {c:?}");
            }
            match a {
                Ok(Ok(r)) => raws.push(r),
                other => bail!("raw accept: {:?}", other.map(|x| x.map(|_| ()))),
            }
            _listener = Some(l);
        }
        "connected-out" => {
            let (l, ep) = match RawListener::bind(transport).await {
                Ok(x) => x,
                Err(e) => bail!("raw listener: {e}"),
            };
            let (c, a) = tokio::join!(sock.connect(&ep), async {
                let mut r = l.accept().await?;
                r.handshake(peer_ty, Some(b"srv")).await?;
                Ok::<Raw, String>(r)
            });
            if let Err(e) = c {
                bail!("connect out: {e}");
            }
            match a {
                Ok(r) => raws.push(r),
                Err(e) => bail!("raw accept/handshake: {e}"),
            }
            _listener = Some(l);
        }
        _ => {
            // explicit harness-managed ports: a later successful connect cannot be somebody
            // else's listener on a recycled ephemeral port
            let mut ep = None;
            let mut last_err = String::new();
            for _ in 0..25 {
                match sock.bind(&rig::explicit_endpoint(transport)).await {
                    Ok(e) => {
                        ep = Some(e);
                        break;
                    }
                    Err(e) => last_err = e,
                }
            }
            let ep = match ep {
                Some(e) => e,
                None => bail!("bind: {last_err}"),
            };
            bound = Some(ep.clone());
            match prefix {
                "bound" => {}
                "pending-handshake" => {
                    let mut r = match Raw::connect(&ep).await {
                        Ok(r) => r,
                        Err(e) => bail!("raw connect: {e}"),
                    };
                    let g = rc::greeting();
                    if r.write_all(&g[..10]).await.is_err() {
                        bail!("raw write");
                    }
                    // the library's greeting arrives: the handshake task is alive and waiting
                    let mut acc = Vec::new();
                    if let Err(e) = r.read_exact_or(&mut acc, 64, WAIT).await {
                        bail!("library greeting: {e:?}");
                    }
                    raws.push(r);
                }
                _ => {
                    for k in 0..2 {
                        let mut r = match Raw::connect(&ep).await {
                            Ok(r) => r,
                            Err(e) => bail!("raw connect: {e}"),
                        };
                        if let Err(e) = r.handshake(peer_ty, Some(format!("r{k}").as_bytes())).await {
                            bail!("raw handshake: {e}");
                        }
                        raws.push(r);
                    }
                    if prefix == "mid-traffic" {
                        // traffic in the directions the type supports, then a recv left pending and dropped
                        if sock.can_recv() && ty != "REQ" {
                            let wire = match ty {
                                "REP" => vec![vec![], b"hello".to_vec()],
                                "XPUB" => vec![vec![1u8, b'a']],
                                _ => vec![b"hello".to_vec()],
                            };
                            if raws[0].send_msg(&wire).await.is_err() {
                                bail!("raw send");
                            }
                            match tokio::time::timeout(WAIT, sock.recv()).await {
                                Ok(Ok(_)) => {}
                                other => bail!("first recv: {other:?}"),
                            }
                            if ty == "REP" {
                                let _ = tokio::time::timeout(WAIT, sock.send(&[b"reply".to_vec()])).await;
                            }
                            // a recv that parks (wakers registered on every connection), then is abandoned
                            let _ = tokio::time::timeout(Duration::from_millis(30), sock.recv()).await;
                        }
                        if sock.can_send() && ty != "REP" {
                            // give the accept tasks a moment to register both peers
                            tokio::time::sleep(Duration::from_millis(20)).await;
                            let msg = match ty {
                                "ROUTER" => vec![b"r0".to_vec(), b"data".to_vec()],
                                _ => vec![b"data".to_vec()],
                            };
                            let _ = tokio::time::timeout(WAIT, sock.send(&msg)).await;
                            if ty == "REQ" {
                                // reply outstanding: a recv parks and is abandoned
                                let _ = tokio::time::timeout(Duration::from_millis(30), sock.recv()).await;
                            }
                        }
                    } else {
                        tokio::time::sleep(Duration::from_millis(10)).await;
                    }
                }
            }
        }
    }
    // ---- close or drop
    match how {
        "close" => {
            let errs = match tokio::time::timeout(WAIT, sock.close()).await {
                Ok(e) => e,
                Err(_) => {
                    late_or_canary(&mut f, format!("C17/close-hangs/{ty}/{prefix}"), "close() did not return within the bounded wait".into()).await;
                    return f;
                }
            };
            if !errs.is_empty() {
                f.v.push((format!("C17/close-reported-errors/{ty}"), format!("nothing failed, close() returned {errs:?}")));
            }
            if let Some(ep) = &bound {
                // by the time close() returns
                match rig::connect_refused(ep).await {
                    Ok(true) => {}
                    Ok(false) => f.v.push((
                        format!("C17/close/listener-still-accepting/{transport}"),
                        format!("{ty} {prefix}: a fresh connect to {ep} succeeded after close() returned"),
                    )),
                    Err(e) => f.inconclusive.push(e),
                }
                if rig::ipc_file_exists(ep) {
                    f.v.push((format!("C17/close/ipc-file-left/{ty}"), format!("{ep} still exists after close() returned")));
                }
            }
        }
        _ => {
            drop(sock);
            if let Some(ep) = &bound {
                let deadline = std::time::Instant::now() + WAIT;
                let mut refused = false;
                while std::time::Instant::now() < deadline {
                    match rig::connect_refused(ep).await {
                        Ok(true) => {
                            refused = true;
                            break;
                        }
                        Ok(false) => tokio::time::sleep(Duration::from_millis(10)).await,
                        Err(e) => {
                            f.inconclusive.push(e);
                            return f;
                        }
                    }
                }
                if !refused {
                    late_or_canary(
                        &mut f,
                        format!("C17/drop/listener-still-accepting/{transport}"),
                        format!("{ty} {prefix}: {ep} still accepts connections {WAIT:?} after the socket was dropped"),
                    )
                    .await;
                } else if rig::ipc_file_exists(ep) && !rig::eventually(WAIT, || !rig::ipc_file_exists(ep)).await {
                    late_or_canary(&mut f, format!("C17/drop/ipc-file-left/{ty}"), format!("{ep} still exists after the socket was dropped")).await;
                }
            }
        }
    }
    // ---- every connected peer observes end-of-stream
    for (k, r) in raws.iter_mut().enumerate() {
        if let Err(e) = r.sees_end(WAIT).await {
            late_or_canary(
                &mut f,
                format!("C17/{how}/peer-sees-no-end-of-stream/{ty}/{prefix}"),
                format!("{ty} over {transport}, {prefix}: connected peer {k}: {e}"),
            )
            .await;
            break;
        }
    }
    // ---- the TCP port is free: a restarted server can listen on it again, both while the
    // former peers still hold their end open and after they have closed it
    if let Some(addr) = bound.as_ref().and_then(|ep| ep.strip_prefix("tcp://")) {
        for phase in ["peers-still-open", "peers-closed"] {
            if phase == "peers-closed" {
                if raws.is_empty() {
                    break;
                }
                raws.clear();
                tokio::time::sleep(Duration::from_millis(20)).await;
            }
            match tokio::net::TcpListener::bind(addr).await {
                Ok(l) => {
                    drop(l);
                    f.rebinds += 1;
                }
                Err(e) => {
                    late_or_canary(
                        &mut f,
                        format!("C17/{how}/port-not-free/{transport}"),
                        format!("{ty} over {transport}, {prefix}: after {how} (and after every peer saw end-of-stream; {phase}) a new listener on {addr} fails: {e}"),
                    )
                    .await;
                    break;
                }
            }
        }
    }
    // ---- background tasks terminate
    if !rig::eventually(WAIT, || rig::alive_tasks() == 0).await {
        let n = rig::alive_tasks();
        late_or_canary(
            &mut f,
            format!("C17/{how}/background-tasks-alive/{ty}/{prefix}"),
            format!("{ty} over {transport}, {prefix}: {n} library tasks still alive after {how}"),
        )
        .await;
    }
    f
}

/// In-memory mirror: sockets with attached pipes dropped in the same states.
async fn mirror(ctx: &mut Ctx, ty: &str, state: &str, how: &str, case: &Value) {
    let mut sock = Sock::new(ty, None);
    let mut peers = Vec::new();
    let mut stalled_join = None;
    for k in 0..2 {
        match Peer::attach(&sock, peer_type_for(ty), Some(format!("m{k}").as_bytes())).await {
            Ok(p) => peers.push(p),
            Err(e) => {
                ctx.inconclusive(format!("C17 mirror attach: {e}"));
                return;
            }
        }
    }
    match state {
        "recv-pending-dropped" => {
            if ty == "REQ" {
                let _ = sim::complete(sock.send(&[b"q".to_vec()])).await;
            }
            if sock.can_recv() {
                let _ = recv_now(&mut sock).await; // parks, then the future is dropped
                ctx.count("mirror_recv_parked_then_dropped");
            }
        }
        "after-traffic" => {
            let _ = exchange_with(&mut sock, &peers[0], 1).await;
        }
        "duplicate-identity-replaced" => {
            // a third connection announces the identity of the first while that one is still open
            match Peer::attach(&sock, peer_type_for(ty), Some(b"m0")).await {
                Ok(p) => {
                    peers.push(p);
                    ctx.count("mirror_connection_replaced_by_same_identity");
                }
                Err(e) => {
                    ctx.inconclusive(format!("C17 mirror attach: {e}"));
                    return;
                }
            }
            if sock.can_recv() && ty != "REQ" {
                let _ = recv_now(&mut sock).await;
            }
        }
        "peer-stalled-with-full-buffer" => {
            // one peer stops accepting data while the socket keeps sending to it
            if ty == "PUB" || ty == "XPUB" {
                peers[0].send(&[vec![1u8]]);
                peers[1].send(&[vec![1u8]]);
                if ty == "XPUB" {
                    let _ = recv_now(&mut sock).await;
                    let _ = recv_now(&mut sock).await;
                }
                sim::settle().await;
            }
            peers[0].conn.set_credit(Some(5));
            if sock.can_send() {
                for k in 0..6u32 {
                    let msg = match ty {
                        "ROUTER" => vec![peers[0].id.clone(), vec![7u8; 60_000]],
                        _ => vec![vec![b't'], vec![k as u8; 60_000]],
                    };
                    if ty == "REP" {
                        peers[0].send(&[vec![], b"rq".to_vec()]);
                        let _ = recv_now(&mut sock).await;
                    }
                    // a send that cannot complete is abandoned (as a timeout would)
                    let mut m = sim::Managed::new(sock.send(&msg));
                    let _ = m.drive().await;
                    drop(m);
                    if ty == "REQ" {
                        break;
                    }
                }
                ctx.count("mirror_stalled_peer_with_data_queued");
            }
        }
        "join-stalled-in-announcement" => {
            // SUB with a large subscription set; a publisher completes its handshake and then
            // does not read: its registration is parked in the middle of being told the set
            for k in 0..300 {
                let topic = format!("{k:04}-{}", "t".repeat(300));
                let _ = sim::complete(sock.subscribe(&topic)).await;
            }
            let (conn, r, w) = crate::pipe::Conn::new();
            conn.feed(&crate::refcodec::handshake(peer_type_for(ty), Some(b"slow-joiner")));
            conn.set_credit(Some(200));
            let mut att = sim::Managed::new(crate::sock::attach_future(sock.backend(), r, w));
            if matches!(att.drive().await, Ok(None)) {
                ctx.count("mirror_join_parked_in_announcement");
            }
            stalled_join = Some((conn, att));
        }
        _ => {}
    }
    match how {
        "close" => {
            let errs = match sim::complete(sock.close()).await {
                Ok(e) => e,
                Err(why) => {
                    ctx.violation_with(&format!("C17/mirror/close-hangs/{ty}"), why, case.clone());
                    return;
                }
            };
            if !errs.is_empty() {
                ctx.violation_with(&format!("C17/close-reported-errors/{ty}"), format!("{errs:?}"), case.clone());
                return;
            }
        }
        _ => drop(sock),
    }
    if let Some((conn, att)) = stalled_join.take() {
        // the caller of the parked registration gives up as well
        drop(att);
        sim::settle().await;
        if !conn.released_both() {
            ctx.violation_with(
                &format!("C17/mirror/{how}/connection-not-released/{ty}/{state}"),
                format!("the connection whose registration was parked is still held after {how}: reader dropped={}, writer dropped={}", conn.reader_dropped(), conn.writer_dropped()),
                case.clone(),
            );
            return;
        }
    }
    sim::settle().await;
    for (k, p) in peers.iter().enumerate() {
        if !p.conn.released_both() {
            ctx.violation_with(
                &format!("C17/mirror/{how}/connection-not-released/{ty}/{state}"),
                format!(
                    "after {how} of a {ty} socket ({state}) connection {k} is still held: reader dropped={}, writer dropped={} (its peer would never see end-of-stream)",
                    p.conn.reader_dropped(),
                    p.conn.writer_dropped()
                ),
                case.clone(),
            );
            return;
        }
    }
    if sim::live_tasks() != 0 {
        ctx.violation_with(
            &format!("C17/mirror/{how}/background-tasks-alive/{ty}"),
            format!("{} library tasks alive after {how}", sim::live_tasks()),
            case.clone(),
        );
        return;
    }
    ctx.count("mirror_released");
}

/// A listener whose accept() failed for a while (descriptor table full) and recovered is
/// closed / dropped like any other: endpoint refused, IPC file gone. (Child process of C18.)
fn accept_errors_then_close(ctx: &mut Ctx, case: &Value) {
    use std::process::{Command, Stdio};
    let (ty, transport, how) = (s(case, "ty").to_string(), s(case, "transport").to_string(), s(case, "how").to_string());
    let exe = std::env::current_exe().expect("current_exe");
    let out = Command::new(exe)
        .args(["child", "acceptfail", &ty, &transport, "0"])
        .env("ACCEPTFAIL_THEN", &how)
        .stdout(Stdio::piped())
        .stderr(Stdio::null())
        .output();
    let text = match out {
        Ok(o) => String::from_utf8_lossy(&o.stdout).into_owned(),
        Err(e) => {
            ctx.inconclusive(format!("C17 accept errors: cannot run child: {e}"));
            return;
        }
    };
    let Some(line) = text.lines().find(|l| l.starts_with("ACCEPTFAIL ")) else {
        ctx.inconclusive(format!("C17 accept errors {ty}/{transport}: {}", text.lines().last().unwrap_or("no output")));
        return;
    };
    let v: Value = serde_json::from_str(&line["ACCEPTFAIL ".len()..]).unwrap_or(Value::Null);
    if u(&v, "accept_errors_reported") == 0 {
        ctx.count("accept_error_episodes_not_reached");
        return;
    }
    let ac = &v["after_close"];
    ctx.count("closed_after_accept_errors");
    if ac["ipc_file_left"].as_bool().unwrap_or(false) {
        ctx.violation_with(
            &format!("C17/{how}/ipc-file-left/{ty}"),
            format!("{ty} over {transport}: accept() had failed for a while ({} failures reported) and recovered; after {how} the socket file still exists", u(&v, "accept_errors_reported")),
            case.clone(),
        );
    } else if !ac["refused"].as_bool().unwrap_or(true) && v["canary_ok"].as_bool().unwrap_or(false) {
        ctx.violation_with(&format!("C17/{how}/listener-still-accepting/{transport}"), format!("{ty}: after accept errors and {how} a fresh connect is accepted"), case.clone());
    }
}

impl Prop for C17 {
    fn id(&self) -> &'static str {
        "C17"
    }

    fn cases(&self, tier: Tier, seed: u64) -> Vec<Value> {
        let mut v = Vec::new();
        for how in ["close", "drop"] {
            v.push(json!({"kind": "mirror", "ty": "SUB", "state": "join-stalled-in-announcement", "how": how}));
            for (ty, transport) in [("PULL", "ipc"), ("REP", "ipc"), ("ROUTER", "ipc")] {
                v.push(json!({"kind": "accept_errors_then", "ty": ty, "transport": transport, "how": how}));
            }
        }
        for ty in ALL_TYPES {
            for state in ["idle", "recv-pending-dropped", "after-traffic", "peer-stalled-with-full-buffer", "duplicate-identity-replaced"] {
                for how in ["close", "drop"] {
                    v.push(json!({"kind": "mirror", "ty": ty, "state": state, "how": how}));
                }
            }
            for transport in TRANSPORTS {
                for prefix in PREFIXES {
                    for how in ["close", "drop"] {
                        let cell = format!("{ty}/{transport}/{prefix}/{how}");
                        let take = true;
                        let _ = (tier, seed, &cell);
                        if take {
                            v.push(json!({"kind": "rig", "ty": ty, "transport": transport, "prefix": prefix, "how": how}));
                        }
                    }
                }
            }
        }
        v
    }

    fn run(&self, case: &Value, ctx: &mut Ctx) {
        let ty = s(case, "ty").to_string();
        ctx.eval(hash_str(&case.to_string()), true);
        match s(case, "kind") {
            "accept_errors_then" => {
                ctx.eval(hash_str(&case.to_string()), true);
                ctx.sample("accept_errors_then", || case.clone());
                accept_errors_then_close(ctx, case);
            }
            "mirror" => {
                ctx.count("mirror_cases");
                ctx.sample("mirror", || case.clone());
                sim::run(mirror(ctx, &ty, s(case, "state"), s(case, "how"), case));
            }
            "rig" => {
                let (transport, prefix, how) = (s(case, "transport").to_string(), s(case, "prefix").to_string(), s(case, "how").to_string());
                ctx.count("rig_cases");
                ctx.count(&format!("rig_transport/{transport}"));
                ctx.count(&format!("rig_prefix/{prefix}"));
                ctx.count(&format!("rig_how/{how}"));
                ctx.sample(&format!("rig_{prefix}"), || case.clone());
                let (f, _alive) = rig::run(2, rig_case(&ty, &transport, &prefix, &how));
                ctx.add("ports_bound_again_after_the_socket_was_gone", f.rebinds);
                for i in f.inconclusive {
                    ctx.inconclusive(format!("C17 {ty}/{transport}/{prefix}/{how}: {i}"));
                }
                if f.v.is_empty() {
                    ctx.count("rig_cases_clean");
                }
                for (sig, msg) in f.v {
                    ctx.violation_with(&sig, msg, case.clone());
                }
            }
            _ => ctx.inconclusive(format!("unknown case {case}")),
        }
    }

    fn sanitizer_cases(&self, _seed: u64) -> Vec<Value> {
        // the in-memory mirror: a connection that is not released is a leak at exit
        let mut v = Vec::new();
        for ty in ALL_TYPES {
            for state in ["idle", "recv-pending-dropped", "after-traffic"] {
                for how in ["close", "drop"] {
                    v.push(json!({"kind": "mirror", "ty": ty, "state": state, "how": how}));
                }
            }
        }
        v
    }

    fn floors(&self, _tier: Tier) -> Vec<(&'static str, u64)> {
        vec![
            ("ports_bound_again_after_the_socket_was_gone", 100),
            ("closed_after_accept_errors", 4),
            ("mirror_cases", 90),
            ("mirror_connection_replaced_by_same_identity", 18),
            ("mirror_stalled_peer_with_data_queued", 10),
            ("rig_cases", 324),
            ("rig_prefix/connect-abandoned", 54),
            ("rig_transport/tcp4", 90),
            ("rig_transport/tcp6", 10),
            ("rig_transport/ipc", 10),
            ("rig_prefix/pending-handshake", 18),
            ("rig_prefix/mid-traffic", 18),
            ("rig_prefix/connected-out", 18),
            ("rig_how/close", 45),
            ("rig_how/drop", 45),
        ]
    }

    fn max_threads(&self) -> usize {
        8
    }

    fn case_timeout(&self) -> Duration {
        Duration::from_secs(180)
    }
}
