//! C08 — REQ/REP lock-step: one outstanding request, reply goes to its requester.

use super::common::*;
use crate::prng::{hash_str, mix, Rng};
use crate::refcodec::{self as rc, Frames};
use crate::report::{Ctx, Tier};
use crate::sim::{self, Managed};
use crate::sock::{Peer, Sock};
use crate::Prop;
use serde_json::{json, Value};
use std::task::Poll;

pub struct C08;

fn seq_from_code(len: usize, code: usize) -> Vec<char> {
    (0..len).map(|i| if code >> i & 1 == 1 { 'r' } else { 's' }).collect()
}

/// base-3 variant for REP: s = send, r = recv of a valid request, v = recv of a
/// request that violates the envelope rule (single frame): must be one Err and
/// must leave the lock-step state untouched
fn seq3_from_code(len: usize, mut code: usize) -> Vec<char> {
    (0..len)
        .map(|_| {
            let c = ['s', 'r', 'v'][code % 3];
            code /= 3;
            c
        })
        .collect()
}

fn taps_total(peers: &[Peer]) -> usize {
    peers.iter().map(|p| p.conn.tap_len()).sum()
}

// ------------------------------------------------------------------- REQ

async fn req_sequence(ctx: &mut Ctx, seq: &[char], mode: &str, npeers: usize, case: &Value) {
    let mut sock = Sock::new("REQ", None);
    let mut peers = Vec::new();
    for k in 0..npeers {
        match Peer::attach(&sock, "REP", Some(format!("rep{k}").as_bytes())).await {
            Ok(p) => peers.push(p),
            Err(e) => {
                ctx.inconclusive(format!("C08 attach: {e}"));
                return;
            }
        }
    }
    // reference machine
    let mut awaiting: Option<(u32, usize)> = None; // (request seq, peer index that got it)
    let mut next_req = 0u32;
    let mut consumed: Vec<usize> = peers.iter().map(|p| p.out_msgs().map(|m| m.len()).unwrap_or(0)).collect();
    for (step, op) in seq.iter().enumerate() {
        let before = taps_total(&peers);
        match op {
            'd' => {
                // a recv that is polled and then abandoned (timeout / select!): no reply is
                // offered, so while a request is outstanding it parks; the lock-step state
                // must be exactly what it was
                let mut rv = Managed::new(sock.recv());
                let res = rv.drive().await.unwrap_or(None);
                drop(rv);
                ctx.count("req_abandoned_recvs");
                match (&awaiting, res) {
                    (Some(_), None) => {}
                    (None, Some(Err(_))) => {}
                    (st, r) => {
                        ctx.violation_with(
                            "C08/req/recv-result-differs-from-state-machine",
                            format!("step {step} of {seq:?}: state {st:?}, abandoned recv returned {r:?}"),
                            case.clone(),
                        );
                        return;
                    }
                }
                if taps_total(&peers) != before {
                    ctx.violation_with("C08/req/out-of-turn-recv-wrote-bytes", format!("step {step}: abandoned recv wrote bytes"), case.clone());
                    return;
                }
            }
            's' => {
                let msg = rc::tagged(1, next_req, &[3, 0]);
                let r = sim::complete(sock.send(&msg)).await;
                match (&awaiting, r) {
                    (None, Ok(Ok(()))) => {
                        // exactly one peer got [empty]+msg
                        let mut got_at = None;
                        for (i, p) in peers.iter().enumerate() {
                            let msgs = p.out_msgs().unwrap_or_default();
                            if msgs.len() > consumed[i] {
                                let mut want = vec![vec![]];
                                want.extend(msg.clone());
                                if msgs.len() == consumed[i] + 1 && msgs[consumed[i]] == want && got_at.is_none() {
                                    got_at = Some(i);
                                    consumed[i] += 1;
                                } else {
                                    ctx.violation_with(
                                        "C08/req/request-on-wire-wrong",
                                        format!("step {step}: unexpected wire traffic to peer {i}"),
                                        case.clone(),
                                    );
                                    return;
                                }
                            }
                        }
                        match got_at {
                            Some(i) => awaiting = Some((next_req, i)),
                            None => {
                                ctx.violation_with(
                                    "C08/req/send-ok-but-nothing-written",
                                    format!("step {step}: send returned Ok, no peer received the request"),
                                    case.clone(),
                                );
                                return;
                            }
                        }
                        next_req += 1;
                        ctx.count("req_in_turn_sends");
                    }
                    (Some(_), Ok(Err(e))) => {
                        ctx.count("req_out_of_turn_sends");
                        if e.returned.as_ref() != Some(&msg) {
                            ctx.violation_with(
                                "C08/req/out-of-turn-send-message-not-returned-intact",
                                format!(
                                    "step {step}: send while a request is outstanding failed with {:?}; returned message {:?}, original {}",
                                    e.text,
                                    e.returned.as_ref().map(|m| rc::frames_summary(m)),
                                    rc::frames_summary(&msg)
                                ),
                                case.clone(),
                            );
                            return;
                        }
                        if taps_total(&peers) != before {
                            ctx.violation_with(
                                "C08/req/out-of-turn-send-wrote-bytes",
                                format!("step {step}: refused send still put {} bytes on the wire", taps_total(&peers) - before),
                                case.clone(),
                            );
                            return;
                        }
                    }
                    (st, r) => {
                        ctx.violation_with(
                            "C08/req/send-result-differs-from-state-machine",
                            format!("step {step} of {seq:?}: state {st:?}, send returned {r:?}"),
                            case.clone(),
                        );
                        return;
                    }
                }
            }
            _ => {
                // recv
                let reply_for = |q: u32| {
                    let mut w = vec![vec![]];
                    w.extend(rc::tagged(2, q, &[1, 5]));
                    w
                };
                if let (Some((q, i)), "immediate") = (&awaiting, mode) {
                    peers[*i].send(&reply_for(*q));
                }
                let mut rv = Managed::new(sock.recv());
                let mut res = match rv.drive().await {
                    Ok(x) => x,
                    Err(_) => {
                        ctx.violation_with("C08/req/recv-spins", format!("step {step}: recv spins"), case.clone());
                        return;
                    }
                };
                if res.is_none() {
                    // parked
                    ctx.count("req_recv_parked");
                    match (&awaiting, mode) {
                        (Some((q, i)), "delayed") => {
                            peers[*i].send(&reply_for(*q));
                            res = rv.drive().await.unwrap_or(None);
                        }
                        (Some(_), _) => {
                            // no answer will come: the sequence ends here
                            ctx.count("req_sequences_ended_parked");
                            return;
                        }
                        (None, _) => {}
                    }
                }
                drop(rv);
                match (&awaiting, res) {
                    (Some((q, _)), Some(Ok(m))) => {
                        let want: Frames = rc::tagged(2, *q, &[1, 5]);
                        if m != want {
                            ctx.violation_with(
                                "C08/req/wrong-reply",
                                format!("step {step}: reply to request {q} expected, recv returned {}", rc::frames_summary(&m)),
                                case.clone(),
                            );
                            return;
                        }
                        awaiting = None;
                        ctx.count("req_in_turn_recvs");
                    }
                    (None, Some(Err(_))) => {
                        ctx.count("req_out_of_turn_recvs");
                        if taps_total(&peers) != before {
                            ctx.violation_with(
                                "C08/req/out-of-turn-recv-wrote-bytes",
                                format!("step {step}: refused recv wrote bytes"),
                                case.clone(),
                            );
                            return;
                        }
                    }
                    (st, r) => {
                        ctx.violation_with(
                            "C08/req/recv-result-differs-from-state-machine",
                            format!("step {step} of {seq:?} ({mode}): state {st:?}, recv returned {r:?}"),
                            case.clone(),
                        );
                        return;
                    }
                }
            }
        }
    }
}

// ------------------------------------------------------------------- REP

async fn rep_sequence(ctx: &mut Ctx, seq: &[char], avail: &str, case: &Value) {
    let mut sock = Sock::new("REP", None);
    let mut peers = Vec::new();
    for k in 0..2 {
        match Peer::attach(&sock, "REQ", Some(format!("req{k}").as_bytes())).await {
            Ok(p) => peers.push(p),
            Err(e) => {
                ctx.inconclusive(format!("C08 attach: {e}"));
                return;
            }
        }
    }
    let mut next_req = [0u32; 2];
    let mut turn = 0usize;
    let feed_request = |peers: &Vec<Peer>, who: usize, q: u32| {
        let mut w = vec![vec![]];
        w.extend(rc::tagged(10 + who as u16, q, &[2]));
        peers[who].send(&w);
    };
    // reference machine: None = no request; Some(Some(p)) = request from p; Some(None) = unknown (double recv)
    let mut state: Option<Option<usize>> = None;
    let mut consumed = [0usize; 2];
    let mut next_reply = 0u32;
    for (step, op) in seq.iter().enumerate() {
        let before = taps_total(&peers);
        match op {
            'v' => {
                // an envelope-violating message from the *other* client
                let who = 1 - turn;
                peers[who].send(&[b"no-envelope".to_vec()]);
                ctx.count("rep_malformed_requests");
                match recv_now(&mut sock).await {
                    Some(Err(_)) => {}
                    other => {
                        ctx.violation_with(
                            "C08/rep/malformed-request-not-reported-as-one-error",
                            format!("step {step} of {seq:?}: single-frame request; recv returned {other:?}"),
                            case.clone(),
                        );
                        return;
                    }
                }
                if taps_total(&peers) != before {
                    ctx.violation_with("C08/rep/malformed-request-caused-writes", format!("step {step}"), case.clone());
                    return;
                }
                // state unchanged: checked by the following steps against the same reference state
            }
            'r' => {
                if avail == "available" {
                    feed_request(&peers, turn, next_req[turn]);
                }
                let mut rv = Managed::new(sock.recv());
                let mut res = rv.drive().await.unwrap_or(None);
                if res.is_none() {
                    ctx.count("rep_recv_parked");
                    feed_request(&peers, turn, next_req[turn]);
                    res = rv.drive().await.unwrap_or(None);
                }
                drop(rv);
                let want = rc::tagged(10 + turn as u16, next_req[turn], &[2]);
                match res {
                    Some(Ok(m)) if m == want => {
                        state = if state.is_some() { Some(None) } else { Some(Some(turn)) };
                        next_req[turn] += 1;
                        turn = 1 - turn;
                        ctx.count("rep_recvs");
                    }
                    other => {
                        ctx.violation_with(
                            "C08/rep/recv-did-not-return-the-request",
                            format!("step {step} of {seq:?}: expected the request of client {turn}, got {other:?}"),
                            case.clone(),
                        );
                        return;
                    }
                }
            }
            _ => {
                let msg = rc::tagged(20, next_reply, &[4, 0]);
                next_reply += 1;
                let r = sim::complete(sock.send(&msg)).await;
                match (state, r) {
                    (None, Ok(Err(e))) => {
                        ctx.count("rep_out_of_turn_sends");
                        if e.returned.as_ref() != Some(&msg) {
                            ctx.violation_with(
                                "C08/rep/out-of-turn-send-message-not-returned-intact",
                                format!("step {step}: reply without request failed with {:?}, returned {:?}", e.text, e.returned.map(|m| rc::frames_summary(&m))),
                                case.clone(),
                            );
                            return;
                        }
                        if taps_total(&peers) != before {
                            ctx.violation_with(
                                "C08/rep/out-of-turn-send-wrote-bytes",
                                format!("step {step}: refused reply put bytes on the wire"),
                                case.clone(),
                            );
                            return;
                        }
                    }
                    (Some(Some(p)), Ok(Ok(()))) => {
                        ctx.count("rep_in_turn_sends");
                        let mut want = vec![vec![]];
                        want.extend(msg.clone());
                        for (i, peer) in peers.iter().enumerate() {
                            let msgs = peer.out_msgs().unwrap_or_default();
                            let newm = &msgs[consumed[i].min(msgs.len())..];
                            let ok = if i == p { newm == [want.clone()] } else { newm.is_empty() };
                            if !ok {
                                ctx.violation_with(
                                    "C08/rep/reply-not-on-the-requesters-connection",
                                    format!(
                                        "step {step} of {seq:?}: request came from client {p}; client {i} received {:?}",
                                        newm.iter().map(|m| rc::frames_summary(m)).collect::<Vec<_>>()
                                    ),
                                    case.clone(),
                                );
                                return;
                            }
                            consumed[i] = msgs.len();
                        }
                        state = None;
                    }
                    (Some(None), Ok(_)) => {
                        // reply after two receives in a row: crash-freedom only
                        ctx.count("rep_send_after_double_recv");
                        for (i, peer) in peers.iter().enumerate() {
                            consumed[i] = peer.out_msgs().map(|m| m.len()).unwrap_or(consumed[i]);
                        }
                        state = None;
                    }
                    (st, r) => {
                        ctx.violation_with(
                            "C08/rep/send-result-differs-from-state-machine",
                            format!("step {step} of {seq:?}: state {st:?}, send returned {r:?}"),
                            case.clone(),
                        );
                        return;
                    }
                }
            }
        }
    }
}

// ------------------------------------------------------- concurrent clients

struct Client {
    peer: Peer,
    total: u32,
    sent: u32,      // requests whose bytes were handed to the pipe (held)
    answered: u32,  // replies seen on the tap
    in_flight: bool,
}

async fn concurrent(ctx: &mut Ctx, nclients: usize, per: u32, seed: u64, case: &Value) {
    let mut r = Rng::keyed(seed, &[8, nclients as u64, per as u64]);
    let mut sock = Sock::new("REP", None);
    let mut clients = Vec::new();
    for k in 0..nclients {
        let ty = if k % 3 == 2 { "DEALER" } else { "REQ" };
        // announced identities, none at all, or (as libzmq clients do) an Identity
        // property of length 0: every client is its own requester all the same
        let named = format!("c{k}").into_bytes();
        let ident: Option<&[u8]> = match seed % 3 {
            0 => Some(&named),
            1 => None,
            _ => Some(&[]),
        };
        if seed % 3 == 2 && k == 0 {
            ctx.count("concurrent_runs_with_empty_identity_clients");
        }
        match Peer::attach(&sock, ty, ident).await {
            Ok(p) => clients.push(Client { peer: p, total: per, sent: 0, answered: 0, in_flight: false }),
            Err(e) => {
                ctx.inconclusive(format!("C08 attach: {e}"));
                return;
            }
        }
    }
    for i in 0..clients.len() {
        for j in 0..i {
            if clients[i].peer.id == clients[j].peer.id {
                ctx.violation_with(
                    "C08/rep/two-clients-registered-under-one-identity",
                    format!("clients {j} and {i} are both registered as {}: REP cannot tell their connections apart", rc::hex(&clients[i].peer.id)),
                    case.clone(),
                );
                return;
            }
        }
    }
    let mut trace: u64 = 0x8;
    let mut overlap_seen = false;
    let mut steps = 0u32;
    'outer: loop {
        let mut rv = Managed::new(sock.recv());
        let request = loop {
            steps += 1;
            if steps > 20_000 {
                if let Some(k) = clients.iter().position(|c| c.peer.conn.reader_dropped() || c.peer.conn.writer_dropped()) {
                    ctx.violation_with(
                        "C08/rep/healthy-client-connection-dropped",
                        format!("the socket dropped the connection of client {k}, which did nothing but send well-formed requests"),
                        case.clone(),
                    );
                } else {
                    ctx.inconclusive("C08 concurrent: step bound".into());
                }
                return;
            }
            // harvest replies
            for c in clients.iter_mut() {
                let n = c.peer.out_msgs().map(|m| m.len()).unwrap_or(0) as u32;
                if n > c.answered {
                    c.answered = n;
                    c.in_flight = false;
                }
            }
            if clients.iter().filter(|c| c.in_flight).count() >= 2 {
                overlap_seen = true;
            }
            if clients.iter().all(|c| c.answered == c.total) {
                break 'outer;
            }
            // enabled actions
            let mut acts: Vec<(u8, usize)> = Vec::new();
            for (i, c) in clients.iter().enumerate() {
                if !c.in_flight && c.sent < c.total {
                    acts.push((0, i)); // start next request (bytes held)
                }
                if c.peer.conn.held() > 0 {
                    acts.push((1, i)); // release some bytes
                    acts.push((1, i));
                }
            }
            acts.push((2, 0)); // let REP poll
            let (a, i) = *r.pick(&acts);
            trace = mix(trace ^ ((a as u64) << 8 | i as u64));
            match a {
                0 => {
                    let c = &mut clients[i];
                    let mut w = vec![vec![]];
                    w.extend(rc::tagged(100 + i as u16, c.sent, &[r.below(300), 0]));
                    c.peer.send_held(&w);
                    c.sent += 1;
                    c.in_flight = true;
                }
                1 => {
                    let c = &clients[i];
                    let h = c.peer.conn.held();
                    let n = match r.below(4) {
                        0 => 1,
                        1 => r.range(1, h),
                        2 => h.saturating_sub(1).max(1),
                        _ => h,
                    };
                    c.peer.conn.release(n);
                }
                _ => {
                    if rv.woken() || r.chance(1, 5) {
                        if let Poll::Ready(res) = rv.poll_once() {
                            break res;
                        }
                    }
                    sim::settle().await;
                }
            }
        };
        drop(rv);
        let req = match request {
            Ok(m) => m,
            Err(e) => {
                ctx.violation_with("C08/concurrent/recv-error", format!("REP.recv failed: {e}"), case.clone());
                return;
            }
        };
        // the application echoes the tag
        let tag = match rc::parse_tag(&req, 0) {
            Ok(t) => t,
            Err(e) => {
                ctx.violation_with(
                    "C08/concurrent/request-corrupted",
                    format!("REP.recv returned {}: {e}", rc::frames_summary(&req)),
                    case.clone(),
                );
                return;
            }
        };
        let reply = rc::tagged(tag.origin + 1000, tag.seq, &[7]);
        match sim::complete(sock.send(&reply)).await {
            Ok(Ok(())) => {}
            other => {
                ctx.violation_with("C08/concurrent/reply-failed", format!("REP.send failed: {other:?}"), case.clone());
                return;
            }
        }
        ctx.count("concurrent_round_trips");
    }
    ctx.interleaving(trace);
    if overlap_seen {
        ctx.count("concurrent_runs_with_overlap");
    }
    // client view: exactly the replies to its own requests, in order
    for (i, c) in clients.iter().enumerate() {
        let msgs = c.peer.out_msgs().unwrap_or_default();
        let tags: Vec<Option<(u16, u32)>> = msgs
            .iter()
            .map(|m| rc::parse_tag(m, 1).ok().map(|t| (t.origin, t.seq)))
            .collect();
        let want: Vec<Option<(u16, u32)>> = (0..c.total).map(|q| Some((1100 + i as u16, q))).collect();
        if tags != want || msgs.iter().any(|m| m.first().map(|f| !f.is_empty()).unwrap_or(true)) {
            ctx.violation_with(
                "C08/concurrent/client-got-wrong-replies",
                format!("client {i} received {tags:?}, expected {want:?}"),
                case.clone(),
            );
            return;
        }
    }
}

/// REP: a client that announced an identity comes back on a new connection (the old one
/// ended, seen or not): the reply to a request read from the new connection goes there.
async fn rep_reconnect(ctx: &mut Ctx, observed: bool, case: &Value) {
    // "same turn": the end of the old connection is noticed and the new one registered
    // without anything else getting to run in between
    let same_turn = case["same_turn"].as_bool().unwrap_or(false);
    let mut sock = Sock::new("REP", None);
    let old = match Peer::attach(&sock, "REQ", Some(b"client-x")).await {
        Ok(p) => p,
        Err(e) => {
            ctx.inconclusive(format!("C08 attach: {e}"));
            return;
        }
    };
    let other = match Peer::attach(&sock, "REQ", Some(b"client-y")).await {
        Ok(p) => p,
        Err(e) => {
            ctx.inconclusive(format!("C08 attach: {e}"));
            return;
        }
    };
    let mut w = vec![vec![]];
    w.extend(rc::tagged(1, 0, &[2]));
    old.send(&w);
    if !matches!(recv_now(&mut sock).await, Some(Ok(_))) || !matches!(sim::complete(sock.send(&rc::tagged(2, 0, &[1]))).await, Ok(Ok(()))) {
        ctx.inconclusive("C08 rep_reconnect: first round trip failed".into());
        return;
    }
    old.conn.close_full(crate::pipe::EndKind::Eof);
    let newc = if same_turn {
        let backend = sock.backend();
        {
            let mut rv = Managed::new(sock.recv());
            let _ = rv.poll_once();
        }
        let (conn, r, w) = crate::pipe::Conn::new();
        conn.feed(&rc::handshake("REQ", Some(b"client-x")));
        let mut att = Managed::new(crate::sock::attach_future(backend, r, w));
        let res = match att.poll_once() {
            std::task::Poll::Ready(x) => Some(x),
            std::task::Poll::Pending => att.drive().await.ok().flatten(),
        };
        drop(att);
        sim::settle().await;
        ctx.count("rep_client_reconnects_in_the_turn_the_end_was_noticed");
        match res {
            Some(Ok(id)) => {
                let hs_len = crate::sock::library_handshake_len(&conn.tap()).unwrap_or(0);
                Peer { conn, id, ty: "REQ".into(), hs_len }
            }
            other => {
                ctx.violation_with("C08/rep/reconnecting-client-rejected", format!("{other:?}"), case.clone());
                return;
            }
        }
    } else {
        if observed {
            let _ = recv_now(&mut sock).await;
        }
        match Peer::attach(&sock, "REQ", Some(b"client-x")).await {
            Ok(p) => p,
            Err(e) => {
                ctx.violation_with("C08/rep/reconnecting-client-rejected", e, case.clone());
                return;
            }
        }
    };
    ctx.count("rep_client_reconnects");
    let mut w2 = vec![vec![]];
    w2.extend(rc::tagged(1, 1, &[2]));
    newc.send(&w2);
    let mut got = false;
    for _ in 0..3 {
        match recv_now(&mut sock).await {
            Some(Ok(m)) if rc::parse_tag(&m, 0).map(|t| t.seq == 1).unwrap_or(false) => {
                got = true;
                break;
            }
            Some(_) => continue,
            None => break,
        }
    }
    if !got {
        ctx.violation_with("C08/rep/request-of-reconnected-client-not-received", "request sent on the new connection was not returned by recv".into(), case.clone());
        return;
    }
    let reply = rc::tagged(2, 1, &[1]);
    let before_other = other.conn.tap_len();
    let r = sim::complete(sock.send(&reply)).await;
    let mut want = vec![vec![]];
    want.extend(reply.clone());
    if !matches!(r, Ok(Ok(()))) || newc.out_msgs().ok() != Some(vec![want]) || other.conn.tap_len() != before_other {
        ctx.violation_with(
            "C08/rep/reply-not-on-the-requesters-connection",
            format!(
                "client reconnected under its identity (old connection's end observed first: {observed}); reply to the request read from the NEW connection: send returned {r:?}, new connection received {:?}",
                newc.out_msgs().map(|v| v.iter().map(|m| rc::frames_summary(m)).collect::<Vec<_>>())
            ),
            case.clone(),
        );
    }
}

/// REQ: the server puts a command frame (PING, or a second READY) on the connection between
/// the request and its reply. Whatever the socket makes of that frame, a reply that recv
/// returns afterwards is the reply to the request that was sent last — never an older one.
async fn req_command_mid_request(ctx: &mut Ctx, cmd: &str, case: &Value) {
    let mut sock = Sock::new("REQ", None);
    let Ok(p) = Peer::attach(&sock, "REP", Some(b"server")).await else {
        ctx.inconclusive("C08 attach".into());
        return;
    };
    let mut last_sent: Option<u32> = None;
    let mut answered = 0usize;
    for seq in 1..=3u32 {
        let q = rc::tagged(1, seq, &[2]);
        match sim::complete(sock.send(&q)).await {
            Ok(Ok(())) => last_sent = Some(seq),
            Ok(Err(_)) => {}
            Err(_) => {
                ctx.violation_with("C08/req/send-hangs", "send pending".into(), case.clone());
                return;
            }
        }
        if seq == 1 {
            // the unexpected frame, then (a moment later) the real reply to request 1
            match cmd {
                "ping" => p.conn.feed(&rc::command(b"PING", &[0, 10])),
                _ => p.conn.feed(&rc::ready(b"REP", None)),
            }
            let _ = recv_now(&mut sock).await;
            ctx.count("req_command_frames_mid_request");
        }
        // the server answers every request it has seen and not yet answered, in order
        if !p.conn.reader_dropped() && !p.conn.writer_dropped() {
            let seen = p.out_msgs().map(|m| m.len()).unwrap_or(0);
            while answered < seen {
                let reqs = p.out_msgs().unwrap_or_default();
                if let Ok(t) = rc::parse_tag(&reqs[answered], 1) {
                    let mut w = vec![vec![]];
                    w.extend(rc::tagged(100, t.seq, &[1]));
                    p.conn.feed(&rc::message(&w));
                }
                answered += 1;
            }
        }
        match recv_now(&mut sock).await {
            Some(Ok(m)) => match rc::parse_tag(&m, 0) {
                Ok(t) if Some(t.seq) == last_sent => {}
                other => {
                    ctx.violation_with(
                        "C08/req/reply-paired-with-the-wrong-request",
                        format!("the server sent a {cmd} command frame between request 1 and its reply; after request #{last_sent:?} was accepted, recv returned the reply {other:?}"),
                        case.clone(),
                    );
                    return;
                }
            },
            _ => {}
        }
    }
}

/// REQ with two servers: the one holding the outstanding request closes. The failed recv ends
/// that request: the next send is not refused as "already in progress", goes to the other
/// server and is answered.
async fn req_server_closes(ctx: &mut Ctx, how: &str, case: &Value) {
    let mut sock = Sock::new("REQ", None);
    let mut servers = Vec::new();
    for k in 0..2 {
        match Peer::attach(&sock, "REP", Some(format!("srv{k}").as_bytes())).await {
            Ok(p) => servers.push(p),
            Err(_) => {
                ctx.inconclusive("C08 attach".into());
                return;
            }
        }
    }
    if !matches!(sim::complete(sock.send(&rc::tagged(1, 1, &[2]))).await, Ok(Ok(()))) {
        ctx.inconclusive("C08 req_server_closes: first send failed".into());
        return;
    }
    let holder = if servers[0].out_msgs().map(|m| !m.is_empty()).unwrap_or(false) { 0 } else { 1 };
    servers[holder].conn.close_full(if how == "reset" { crate::pipe::EndKind::Reset } else { crate::pipe::EndKind::Eof });
    let first = recv_now(&mut sock).await;
    if !matches!(first, Some(Err(_))) {
        ctx.violation_with("C08/req/recv-after-server-closed", format!("the server holding the request closed ({how}); recv gave {first:?}"), case.clone());
        return;
    }
    let q2 = rc::tagged(1, 2, &[2]);
    match sim::complete(sock.send(&q2)).await {
        Ok(Ok(())) => {}
        other => {
            ctx.violation_with(
                "C08/req/send-refused-although-nothing-is-outstanding",
                format!("the server holding request 1 closed ({how}) and recv reported it; the next send, with another server connected, gave {other:?}"),
                case.clone(),
            );
            return;
        }
    }
    let other = 1 - holder;
    let mut w = vec![vec![]];
    w.extend(rc::tagged(100, 2, &[1]));
    servers[other].send(&w);
    match recv_now(&mut sock).await {
        Some(Ok(m)) if rc::parse_tag(&m, 0).map(|t| t.seq == 2).unwrap_or(false) => ctx.count("req_requests_served_after_the_first_server_closed"),
        other => ctx.violation_with("C08/req/reply-paired-with-the-wrong-request", format!("reply to request 2 from the surviving server: {other:?}"), case.clone()),
    }
}

/// One REP serving a routed peer (DEALER sending [id, "", body]) and a plain REQ client: the
/// routed request is received and left unanswered, the plain one is received and answered:
/// the reply carries the envelope of the request being answered, nothing of the other one.
async fn rep_mixed_clients(ctx: &mut Ctx, case: &Value) {
    let mut sock = Sock::new("REP", None);
    let (Ok(x), Ok(y)) = (Peer::attach(&sock, "DEALER", Some(b"routed")).await, Peer::attach(&sock, "REQ", Some(b"plain")).await) else {
        ctx.inconclusive("C08 attach".into());
        return;
    };
    let mut wx: Frames = vec![b"hop-id".to_vec(), vec![]];
    wx.extend(rc::tagged(1, 1, &[3]));
    x.send(&wx);
    if !matches!(recv_now(&mut sock).await, Some(Ok(_))) {
        ctx.inconclusive("C08 rep_mixed: routed request not received".into());
        return;
    }
    let mut wy: Frames = vec![vec![]];
    wy.extend(rc::tagged(2, 1, &[3]));
    y.send(&wy);
    match recv_now(&mut sock).await {
        Some(Ok(m)) if rc::parse_tag(&m, 0).map(|t| t.origin == 2).unwrap_or(false) => {}
        other => {
            ctx.violation_with("C08/rep/recv-result-differs-from-state-machine", format!("plain request after an unanswered routed one: {other:?}"), case.clone());
            return;
        }
    }
    let reply = rc::tagged(3, 1, &[2]);
    let xb = x.conn.tap_len();
    let r = sim::complete(sock.send(&reply)).await;
    let mut want: Frames = vec![vec![]];
    want.extend(reply.clone());
    if !matches!(r, Ok(Ok(()))) || y.out_msgs().ok() != Some(vec![want.clone()]) || x.conn.tap_len() != xb {
        ctx.violation_with(
            "C08/rep/reply-envelope-of-another-request",
            format!(
                "REP received a routed request (unanswered), then a plain REQ client's request, and answered: send gave {r:?}; the plain client received {:?}, expected exactly {}; bytes to the routed peer: {}",
                y.out_msgs().map(|v| v.iter().map(|m| rc::frames_summary(m)).collect::<Vec<_>>()),
                rc::frames_summary(&want),
                x.conn.tap_len() - xb
            ),
            case.clone(),
        );
        return;
    }
    ctx.count("rep_mixed_routed_and_plain_clients");
}

/// REP: the application gives up on a reply that waits for a client that does not read;
/// the client reads again and asks again: it is still served.
async fn rep_abandoned_send(ctx: &mut Ctx, size: usize, case: &Value) {
    let mut sock = Sock::new("REP", None);
    let Ok(c) = Peer::attach(&sock, "REQ", Some(b"slow-client")).await else {
        ctx.inconclusive("C08 attach".into());
        return;
    };
    let mut w = vec![vec![]];
    w.extend(rc::tagged(1, 1, &[2]));
    c.send(&w);
    if !matches!(recv_now(&mut sock).await, Some(Ok(_))) {
        ctx.inconclusive("C08 rep_abandoned: request not received".into());
        return;
    }
    c.conn.set_credit(Some(7));
    {
        let reply = rc::tagged(2, 1, &[size]);
        let mut f = Managed::new(sock.send(&reply));
        if f.poll_once().is_ready() {
            ctx.count("rep_abandoned_send_not_reached");
            return;
        }
        sim::settle().await;
    } // dropped while waiting
    ctx.count("rep_sends_abandoned_while_waiting_for_the_client");
    c.conn.set_credit(None);
    sim::settle().await;
    let mut w2 = vec![vec![]];
    w2.extend(rc::tagged(1, 2, &[2]));
    c.send(&w2);
    match recv_now(&mut sock).await {
        Some(Ok(m)) if rc::parse_tag(&m, 0).map(|t| t.seq == 2).unwrap_or(false) => {}
        other => {
            ctx.violation_with("C08/rep/request-not-received-after-abandoned-send", format!("{other:?}"), case.clone());
            return;
        }
    }
    let reply2 = rc::tagged(2, 2, &[5]);
    let r = sim::complete(sock.send(&reply2)).await;
    sim::settle().await;
    let mut want = vec![vec![]];
    want.extend(reply2.clone());
    let enc = rc::message(&want);
    let tap = c.out_bytes();
    let arrived = tap.len() >= enc.len() && tap[tap.len() - enc.len()..] == enc[..];
    if !matches!(r, Ok(Ok(()))) || !arrived {
        ctx.violation_with(
            "C08/rep/connected-client-not-served-after-abandoned-send",
            format!("a reply ({size}-byte body) waiting for a client that did not read was abandoned; the client read again and sent its next request, which recv returned; the reply to it: send gave {r:?}, on the client's connection: {arrived}"),
            case.clone(),
        );
        return;
    }
    ctx.count("rep_replies_delivered_after_an_abandoned_send");
}

/// REQ: a send that FAILS (the chosen server's connection was reset) issues nothing: the
/// socket is still idle, so the next send (to the other server) is in turn.
async fn req_failed_send(ctx: &mut Ctx, case: &Value) {
    let mut sock = Sock::new("REQ", None);
    let bad = match Peer::attach(&sock, "REP", Some(b"resets")).await {
        Ok(p) => p,
        Err(e) => {
            ctx.inconclusive(format!("C08 attach: {e}"));
            return;
        }
    };
    let good = match Peer::attach(&sock, "REP", Some(b"stays")).await {
        Ok(p) => p,
        Err(e) => {
            ctx.inconclusive(format!("C08 attach: {e}"));
            return;
        }
    };
    bad.conn.close_full(crate::pipe::EndKind::Reset);
    let r1 = sim::complete(sock.send(&rc::tagged(1, 0, &[1]))).await;
    if !matches!(r1, Ok(Err(_))) {
        // rotation may start at the healthy server: answer and try once more
        if matches!(r1, Ok(Ok(()))) {
            good.send(&[vec![], b"ok".to_vec()]);
            let _ = recv_now(&mut sock).await;
            let r1b = sim::complete(sock.send(&rc::tagged(1, 1, &[1]))).await;
            if !matches!(r1b, Ok(Err(_))) {
                ctx.count("req_failed_send_not_reached");
                return;
            }
        }
    }
    ctx.count("req_sends_failing_on_a_reset_connection");
    // nothing was issued: the socket is idle. (Whether an out-of-turn recv says "no request in
    // progress" or something else is not observable through the error alone, so the very next
    // call is the send.)
    // ... and the next send is in turn and reaches the healthy server
    let msg = rc::tagged(1, 2, &[1]);
    let before = good.out_msgs().map(|m| m.len()).unwrap_or(0);
    let r2 = sim::complete(sock.send(&msg)).await;
    let after = good.out_msgs().map(|m| m.len()).unwrap_or(0);
    if !matches!(r2, Ok(Ok(()))) || after != before + 1 {
        ctx.violation_with(
            "C08/req/send-result-differs-from-state-machine",
            format!("a send failed on a reset connection (nothing was issued); the next send returned {r2:?} and the healthy server received {} new requests", after - before),
            case.clone(),
        );
    }
}

impl Prop for C08 {
    fn id(&self) -> &'static str {
        "C08"
    }

    fn cases(&self, tier: Tier, seed: u64) -> Vec<Value> {
        let mut v = Vec::new();
        for len in 1..=tier.pick(7, 9) {
            for code in 0..(1usize << len) {
                for mode in ["immediate", "delayed", "never"] {
                    for npeers in [1usize, 2] {
                        v.push(json!({"kind": "req_seq", "len": len, "code": code, "mode": mode, "peers": npeers}));
                    }
                }
                for avail in ["available", "late"] {
                    v.push(json!({"kind": "rep_seq", "len": len, "code": code, "avail": avail}));
                }
            }
            // REQ with abandoned recv calls in between (base-3 alphabet s, r, d)
            for code in 0..3usize.pow(len as u32) {
                let sq: Vec<char> = seq3_from_code(len, code).into_iter().map(|c| if c == 'v' { 'd' } else { c }).collect();
                if sq.contains(&'d') {
                    v.push(json!({"kind": "req_seq3", "len": len, "code": code, "mode": if code % 2 == 0 { "immediate" } else { "delayed" }}));
                }
            }
            // REP with malformed requests in between (base-3 alphabet)
            for code in 0..3usize.pow(len as u32) {
                let sq = seq3_from_code(len, code);
                if sq.contains(&'v') {
                    v.push(json!({"kind": "rep_seq3", "len": len, "code": code, "avail": "available"}));
                }
            }
        }
        for observed in [false, true] {
            v.push(json!({"kind": "rep_reconnect", "observed": observed}));
            if observed {
                v.push(json!({"kind": "rep_reconnect", "observed": true, "same_turn": true}));
            }
        }
        v.push(json!({"kind": "req_failed_send"}));
        for cmd in ["ping", "ready"] {
            v.push(json!({"kind": "req_cmd_mid", "cmd": cmd}));
        }
        for how in ["close", "reset"] {
            v.push(json!({"kind": "req_server_closes", "how": how}));
        }
        v.push(json!({"kind": "rep_mixed"}));
        for size in [100usize, 5_000, 300_000] {
            v.push(json!({"kind": "rep_abandoned", "size": size}));
        }
        for n in 1..=8usize {
            for k in 0..tier.pick(100, 20_000) {
                v.push(json!({"kind": "concurrent", "clients": n, "per": 4, "seed": mix(seed ^ (k as u64) << 8 ^ n as u64)}));
            }
        }
        v
    }

    fn run(&self, case: &Value, ctx: &mut Ctx) {
        ctx.eval(hash_str(&case.to_string()), true);
        match s(case, "kind") {
            "req_server_closes" => {
                ctx.sample("req_server_closes", || case.clone());
                sim::run(req_server_closes(ctx, s(case, "how"), case));
            }
            "rep_mixed" => {
                ctx.sample("rep_mixed", || case.clone());
                sim::run(rep_mixed_clients(ctx, case));
            }
            "req_cmd_mid" => {
                ctx.sample("req_cmd_mid", || case.clone());
                sim::run(req_command_mid_request(ctx, s(case, "cmd"), case));
            }
            "rep_abandoned" => {
                ctx.sample("rep_abandoned", || case.clone());
                sim::run(rep_abandoned_send(ctx, u(case, "size") as usize, case));
            }
            "req_seq" => {
                let seq = seq_from_code(u(case, "len") as usize, u(case, "code") as usize);
                ctx.count("req_sequences");
                ctx.sample("req_seq", || json!({"seq": seq.iter().collect::<String>(), "mode": s(case, "mode")}));
                sim::run(req_sequence(ctx, &seq, s(case, "mode"), u(case, "peers") as usize, case));
            }
            "rep_seq" => {
                let seq = seq_from_code(u(case, "len") as usize, u(case, "code") as usize);
                ctx.count("rep_sequences");
                ctx.sample("rep_seq", || json!({"seq": seq.iter().collect::<String>(), "avail": s(case, "avail")}));
                sim::run(rep_sequence(ctx, &seq, s(case, "avail"), case));
            }
            "req_seq3" => {
                let seq: Vec<char> = seq3_from_code(u(case, "len") as usize, u(case, "code") as usize)
                    .into_iter()
                    .map(|c| if c == 'v' { 'd' } else { c })
                    .collect();
                ctx.count("req_sequences_with_abandoned_recvs");
                ctx.sample("req_seq3", || json!({"seq": seq.iter().collect::<String>()}));
                sim::run(req_sequence(ctx, &seq, s(case, "mode"), 1, case));
            }
            "rep_reconnect" => sim::run(rep_reconnect(ctx, case["observed"].as_bool().unwrap_or(false), case)),
            "req_failed_send" => sim::run(req_failed_send(ctx, case)),
            "rep_seq3" => {
                let seq = seq3_from_code(u(case, "len") as usize, u(case, "code") as usize);
                ctx.count("rep_sequences_with_malformed_requests");
                ctx.sample("rep_seq3", || json!({"seq": seq.iter().collect::<String>()}));
                sim::run(rep_sequence(ctx, &seq, s(case, "avail"), case));
            }
            "concurrent" => {
                ctx.count("concurrent_runs");
                ctx.sample("concurrent", || case.clone());
                sim::run(concurrent(ctx, u(case, "clients") as usize, u(case, "per") as u32, u(case, "seed"), case));
            }
            _ => ctx.inconclusive(format!("unknown case {case}")),
        }
    }

    fn floors(&self, _tier: Tier) -> Vec<(&'static str, u64)> {
        vec![
            ("req_sequences", 126 * 6),
            ("req_command_frames_mid_request", 2),
            ("req_requests_served_after_the_first_server_closed", 2),
            ("rep_mixed_routed_and_plain_clients", 1),
            ("rep_replies_delivered_after_an_abandoned_send", 2),
            ("rep_sequences", 126 * 2),
            ("req_out_of_turn_sends", 100),
            ("req_out_of_turn_recvs", 100),
            ("rep_out_of_turn_sends", 100),
            ("req_recv_parked", 100),
            ("rep_recv_parked", 100),
            ("rep_sequences_with_malformed_requests", 500),
            ("rep_client_reconnects", 2),
            ("req_sends_failing_on_a_reset_connection", 1),
            ("req_sequences_with_abandoned_recvs", 500),
            ("req_abandoned_recvs", 1000),
            ("rep_malformed_requests", 1000),
            ("concurrent_runs", 160),
            ("concurrent_runs_with_overlap", 100),
            ("concurrent_round_trips", 1000),
        ]
    }
}
