//! C09 — ROUTER labels inbound messages with the true sender and routes by first frame.

use super::common::*;
use crate::pipe::EndKind;
use crate::prng::{hash_str, mix, Rng};
use crate::refcodec::{self as rc, Frames};
use crate::report::{Ctx, Tier};
use crate::sim::{self, Managed};
use crate::sock::{Peer, Sock};
use crate::Prop;
use serde_json::{json, Value};
use std::task::Poll;

pub struct C09;

fn identity_for(kind: usize, k: usize, r: &mut Rng) -> Option<Vec<u8>> {
    match kind {
        0 => None,
        1 => Some(vec![0x41 + k as u8]),
        2 => {
            let mut v = r.bytes(16);
            v[0] = 0x10 + k as u8; // pairwise distinct
            Some(v)
        }
        3 => {
            let mut v = r.bytes(255);
            v[0] = 0x80 + k as u8;
            Some(v)
        }
        4 => Some(vec![0x00, k as u8, 0xFF, 0x00]), // binary with NULs
        // an Identity property of length 0 (what libzmq sends when no routing id is
        // configured): nothing was announced, a unique identity has to be assigned
        _ => Some(Vec::new()),
    }
}

async fn run(ctx: &mut Ctx, npeers: usize, seed: u64, gone_kind: u64, case: &Value) {
    let mut r = Rng::keyed(seed, &[9, npeers as u64]);
    let mut sock = Sock::new("ROUTER", None);
    let mut peers: Vec<Peer> = Vec::new();
    let mut kinds = Vec::new();
    for k in 0..npeers {
        let kind = if k == 0 { 0 } else if k == 1 { r.range(1, 4) } else { r.below(7).min(5) };
        let id = identity_for(kind, k, &mut r);
        let ty = if r.chance(1, 2) { "DEALER" } else { "REQ" };
        match Peer::attach(&sock, ty, id.as_deref()).await {
            Ok(p) => {
                if id.as_deref() == Some(&[][..]) {
                    ctx.count("peers_with_empty_identity_property");
                } else if let Some(want) = &id {
                    if &p.id != want {
                        ctx.violation_with(
                            "C09/announced-identity-not-used",
                            format!("peer announced {} but was registered as {}", rc::hex(want), rc::hex(&p.id)),
                            case.clone(),
                        );
                        return;
                    }
                    ctx.count("peers_with_announced_identity");
                } else {
                    ctx.count("peers_with_auto_identity");
                }
                peers.push(p);
                kinds.push(kind);
            }
            Err(e) => {
                // a DEALER/REQ peer with no, an empty or a 1..255-byte identity is a valid peer
                ctx.violation_with(
                    "C09/peer-with-valid-identity-not-admitted",
                    format!("{ty} peer announcing {} was not admitted: {e}", match &id { None => "no identity".to_string(), Some(i) => format!("a {}-byte identity", i.len()) }),
                    case.clone(),
                );
                return;
            }
        }
    }
    for i in 0..peers.len() {
        for j in 0..i {
            if peers[i].id == peers[j].id {
                ctx.violation_with(
                    "C09/identities-not-unique",
                    format!("two connections share identity {}", rc::hex(&peers[i].id)),
                    case.clone(),
                );
                return;
            }
        }
    }
    if kinds.iter().filter(|k| **k == 5).count() >= 2 {
        ctx.count("sockets_with_several_empty_identity_peers");
    }
    if kinds.contains(&0) && kinds.iter().any(|k| *k != 0) {
        ctx.count("announced_and_auto_in_one_socket");
    }
    // ---- inbound: interleaved sends, labelled with the true sender
    let per = 3u32;
    let mut sent = vec![0u32; npeers];
    let mut next_expected = vec![0u32; npeers];
    let mut trace = 9u64;
    let total: u32 = per * npeers as u32;
    let mut received = 0u32;
    let mut steps = 0;
    while received < total {
        let mut rv = Managed::new(sock.recv());
        let res = loop {
            steps += 1;
            if steps > 50_000 {
                ctx.inconclusive("C09 step bound".into());
                return;
            }
            let mut acts: Vec<(u8, usize)> = vec![(2, 0)];
            for (i, p) in peers.iter().enumerate() {
                if sent[i] < per && p.conn.held() == 0 {
                    acts.push((0, i));
                }
                if p.conn.held() > 0 {
                    acts.push((1, i));
                    acts.push((1, i));
                }
            }
            let (a, i) = *r.pick(&acts);
            trace = mix(trace ^ ((a as u64) << 8 | i as u64));
            match a {
                0 => {
                    let shape = [r.below(300), 0, r.below(10)];
                    let nf = r.range(1, 3);
                    peers[i].send_held(&rc::tagged(i as u16, sent[i], &shape[..nf]));
                    sent[i] += 1;
                }
                1 => {
                    let h = peers[i].conn.held();
                    let any = r.range(1, h);
                    let n = *r.pick(&[1, h, h.saturating_sub(1).max(1), any]);
                    peers[i].conn.release(n);
                }
                _ => {
                    if rv.woken() || r.chance(1, 4) {
                        if let Poll::Ready(x) = rv.poll_once() {
                            break x;
                        }
                    }
                    sim::settle().await;
                }
            }
        };
        drop(rv);
        match res {
            Ok(m) => {
                received += 1;
                ctx.count("inbound_deliveries");
                let tag = match rc::parse_tag(&m, 1) {
                    Ok(t) => t,
                    Err(e) => {
                        ctx.violation_with(
                            "C09/inbound-frames-modified",
                            format!("ROUTER.recv returned {}: {e}", rc::frames_summary(&m)),
                            case.clone(),
                        );
                        return;
                    }
                };
                let src = tag.origin as usize;
                if src >= npeers || m[0] != peers[src].id {
                    ctx.violation_with(
                        "C09/inbound-labelled-with-wrong-identity",
                        format!(
                            "message sent on the connection of peer {src} (identity {}) was labelled {}",
                            peers.get(src).map(|p| rc::hex(&p.id)).unwrap_or_default(),
                            rc::hex(&m[0])
                        ),
                        case.clone(),
                    );
                    return;
                }
                if tag.seq != next_expected[src] {
                    ctx.violation_with(
                        "C09/inbound-order",
                        format!("peer {src}: message {} delivered, expected {}", tag.seq, next_expected[src]),
                        case.clone(),
                    );
                    return;
                }
                next_expected[src] += 1;
                ctx.count(&format!("deliveries_identity_kind/{}", kinds[src]));
            }
            Err(e) => {
                ctx.violation_with("C09/recv-error", format!("ROUTER.recv failed: {e}"), case.clone());
                return;
            }
        }
    }
    ctx.interleaving(trace);
    // ---- outbound: to each live peer, in random order
    let mut order: Vec<usize> = (0..npeers).collect();
    r.shuffle(&mut order);
    let mut seq = 0u32;
    for &t in &order {
        let before: Vec<usize> = peers.iter().map(|p| p.conn.tap_len()).collect();
        let payload = rc::tagged(500, seq, &[r.below(400), 0]);
        seq += 1;
        let mut m: Frames = vec![peers[t].id.clone()];
        m.extend(payload.clone());
        match sim::complete(sock.send(&m)).await {
            Ok(Ok(())) => {}
            other => {
                ctx.violation_with(
                    "C09/send-to-live-peer-failed",
                    format!("send addressed to connected peer {t} failed: {other:?}"),
                    case.clone(),
                );
                return;
            }
        }
        ctx.count("sends_to_live_peer");
        for (i, p) in peers.iter().enumerate() {
            let grown = p.conn.tap_from(before[i]);
            let ok = if i == t { grown == rc::message(&payload) } else { grown.is_empty() };
            if !ok {
                ctx.violation_with(
                    if i == t { "C09/routed-message-altered" } else { "C09/routed-to-wrong-peer" },
                    format!(
                        "send addressed to peer {t}: peer {i} received {} bytes ({:?})",
                        grown.len(),
                        rc::decode_stream(&grown, false).messages().iter().map(|x| rc::frames_summary(x)).collect::<Vec<_>>()
                    ),
                    case.clone(),
                );
                return;
            }
        }
    }
    // ---- unknown identity
    {
        let before: usize = peers.iter().map(|p| p.conn.tap_len()).sum();
        let mut m: Frames = vec![b"never-seen-identity".to_vec()];
        m.extend(rc::tagged(501, 0, &[3]));
        let res = sim::complete(sock.send(&m)).await;
        ctx.count("sends_to_unknown_identity");
        let after: usize = peers.iter().map(|p| p.conn.tap_len()).sum();
        if matches!(res, Ok(Ok(()))) || after != before {
            ctx.violation_with(
                "C09/send-to-unknown-identity",
                format!("send to an identity nobody has: result {res:?}, {} bytes written", after - before),
                case.clone(),
            );
            return;
        }
    }
    // ---- a peer that has gone (the socket observed the end)
    if npeers >= 1 {
        let g = r.below(npeers);
        let kind = if gone_kind == 0 || gone_kind == 3 { EndKind::Eof } else { EndKind::Reset };
        if gone_kind == 2 {
            // mid-frame
            peers[g].conn.feed(&[0x00, 0x09, 0x01]);
        }
        if gone_kind == 3 {
            // orderly close as TCP shows it: our reads see EOF, but a write still
            // "succeeds" (it would only be answered by a reset later)
            peers[g].conn.end_inbound(kind);
            ctx.count("gone_by_fin_with_writes_still_accepted");
        } else {
            peers[g].conn.close_full(kind);
        }
        // the socket observes it while receiving
        let rn = recv_now(&mut sock).await;
        if let Some(Ok(m)) = rn {
            ctx.violation_with(
                "C09/message-from-nowhere",
                format!("recv returned {} although nothing was sent", rc::frames_summary(&m)),
                case.clone(),
            );
            return;
        }
        if peers[g].conn.end_observed() {
            let before: Vec<usize> = peers.iter().map(|p| p.conn.tap_len()).collect();
            let mut m: Frames = vec![peers[g].id.clone()];
            m.extend(rc::tagged(502, 0, &[3]));
            let res = sim::complete(sock.send(&m)).await;
            ctx.count("sends_to_gone_peer");
            let wrote = peers.iter().enumerate().any(|(i, p)| p.conn.tap_len() != before[i]);
            if matches!(res, Ok(Ok(()))) || wrote {
                ctx.violation_with(
                    "C09/send-to-gone-peer",
                    format!("send to the identity of a peer whose connection ended ({kind:?}): result {res:?}, wrote={wrote}"),
                    case.clone(),
                );
                return;
            }
            // the others are still reachable
            for (i, p) in peers.iter().enumerate() {
                if i == g {
                    continue;
                }
                let mut m: Frames = vec![p.id.clone()];
                m.extend(rc::tagged(503, i as u32, &[1]));
                let b = p.conn.tap_len();
                let res = sim::complete(sock.send(&m)).await;
                if !matches!(res, Ok(Ok(()))) || p.conn.tap_len() == b {
                    ctx.violation_with(
                        "C09/live-peer-unreachable-after-another-left",
                        format!("peer {i} not reachable after peer {g} left: {res:?}"),
                        case.clone(),
                    );
                    return;
                }
            }
        }
    }
}

/// A send addressed to a peer that is not reading is abandoned by the application
/// (future dropped while the write is pending); the peer then reads again. It is still
/// the connected peer with that identity: the next send addressed to it must reach it.
async fn cancelled_send(ctx: &mut Ctx, seed: u64, case: &Value) {
    let mut r = Rng::keyed(seed, &[9, 77]);
    let mut sock = Sock::new("ROUTER", None);
    let mut peers = Vec::new();
    for k in 0..3usize {
        let id = if k == 2 { None } else { Some(vec![0x61 + k as u8; 1 + k * 7]) };
        match Peer::attach(&sock, "DEALER", id.as_deref()).await {
            Ok(p) => peers.push(p),
            Err(e) => {
                ctx.inconclusive(format!("C09 attach: {e}"));
                return;
            }
        }
    }
    let t = r.below(3);
    let stall_after = *r.pick(&[0usize, 1, 5, 300, 9000]);
    peers[t].conn.set_credit(Some(stall_after));
    let size = *r.pick(&[10usize, 3000, 200_000]);
    let mut m: Frames = vec![peers[t].id.clone()];
    m.extend(rc::tagged(600, 0, &[size]));
    let mut polls = 0;
    if r.chance(1, 2) {
        // not abandoned: the send waits for the peer, and when it returns the message is
        // on that peer's connection in full
        let before = peers[t].conn.tap_len();
        let want = rc::message(&m[1..]);
        let res = {
            let mut f = Managed::new(sock.send(&m));
            let first = f.poll_once();
            sim::settle().await;
            if first.is_pending() {
                ctx.count("sends_waiting_for_a_peer_that_is_not_reading");
            }
            peers[t].conn.set_credit(None);
            match first {
                Poll::Ready(x) => Ok(Some(x)),
                Poll::Pending => f.drive().await,
            }
        };
        sim::settle().await;
        let grown = peers[t].conn.tap_from(before);
        if !matches!(res, Ok(Some(Ok(())))) || grown != want {
            ctx.violation_with(
                "C09/routed-message-incomplete-when-send-returned",
                format!(
                    "send of a {size}-byte body to peer {t} whose connection accepted only {stall_after} bytes at first: result {res:?}, {} of {} bytes on its connection after it read again",
                    grown.len(),
                    want.len()
                ),
                case.clone(),
            );
        }
        return;
    }
    {
        let mut f = Managed::new(sock.send(&m));
        loop {
            polls += 1;
            match f.poll_once() {
                Poll::Ready(_) => break,
                Poll::Pending => {}
            }
            sim::settle().await;
            if polls >= 1 + r.below(4) {
                ctx.count("sends_abandoned_while_pending");
                break;
            }
        }
    } // dropped here
    peers[t].conn.set_credit(None);
    sim::settle().await;
    // inbound from that peer still labelled correctly
    peers[t].send(&rc::tagged(t as u16, 0, &[4]));
    match recv_now(&mut sock).await {
        Some(Ok(got)) if got[0] == peers[t].id => {}
        other => {
            ctx.violation_with(
                "C09/inbound-labelled-with-wrong-identity",
                format!("after an abandoned send, a message of peer {t} came back as {other:?}"),
                case.clone(),
            );
            return;
        }
    }
    // and it is still reachable under its identity; nobody else sees anything
    for round in 0..2u32 {
        let before: Vec<usize> = peers.iter().map(|p| p.conn.tap_len()).collect();
        let payload = rc::tagged(601, round, &[r.below(500)]);
        let mut m2: Frames = vec![peers[t].id.clone()];
        m2.extend(payload.clone());
        let res = sim::complete(sock.send(&m2)).await;
        let grown = peers[t].conn.tap_from(before[t]);
        let want = rc::message(&payload);
        let delivered = grown.len() >= want.len() && grown[grown.len() - want.len()..] == want[..];
        if !matches!(res, Ok(Ok(()))) || !delivered {
            ctx.violation_with(
                "C09/connected-peer-unreachable-after-abandoned-send",
                format!(
                    "a send to peer {t} was abandoned while its connection was not accepting bytes (credit {stall_after}, {size}-byte body); after the peer read again, send #{round} addressed to its identity gave {res:?}, delivered={delivered}"
                ),
                case.clone(),
            );
            return;
        }
        for (i, p) in peers.iter().enumerate() {
            if i != t && p.conn.tap_len() != before[i] {
                ctx.violation_with("C09/routed-to-wrong-peer", format!("send to peer {t} wrote to peer {i}"), case.clone());
                return;
            }
        }
        ctx.count("sends_delivered_after_an_abandoned_send");
    }
    // whatever reached the peer is a clean frame sequence
    if let Err(e) = peers[t].out_msgs() {
        ctx.violation_with("C09/routed-message-altered", format!("stream to peer {t} after an abandoned send: {e}"), case.clone());
    }
}

/// A peer that announced an identity goes away and comes back (new connection, same
/// identity) before the socket has looked at the old connection again: the only
/// *connected* peer with that identity is the new one.
async fn reconnect(ctx: &mut Ctx, observed_first: bool, idlen: usize, case: &Value) {
    // "same turn": the socket notices the old connection's end and the new connection is
    // registered before anything else gets to run (no yield to the executor in between)
    let same_turn = case["same_turn"].as_bool().unwrap_or(false);
    let mut sock = Sock::new("ROUTER", None);
    let ident: Vec<u8> = (0..idlen).map(|i| 0x30 + (i % 40) as u8).collect();
    let other = match Peer::attach(&sock, "DEALER", Some(b"bystander")).await {
        Ok(p) => p,
        Err(e) => {
            ctx.inconclusive(format!("C09 attach: {e}"));
            return;
        }
    };
    let old = match Peer::attach(&sock, "DEALER", Some(&ident)).await {
        Ok(p) => p,
        Err(e) => {
            ctx.violation_with("C09/peer-with-valid-identity-not-admitted", format!("DEALER peer announcing a {idlen}-byte identity was not admitted: {e}"), case.clone());
            return;
        }
    };
    old.send(&rc::tagged(1, 0, &[3]));
    match recv_now(&mut sock).await {
        Some(Ok(m)) if m[0] == ident => {}
        other => {
            ctx.violation_with("C09/inbound-labelled-with-wrong-identity", format!("first message of the peer: {other:?}"), case.clone());
            return;
        }
    }
    old.conn.close_full(EndKind::Eof);
    let newp = if same_turn {
        let backend = sock.backend();
        {
            let mut rv = Managed::new(sock.recv());
            let _ = rv.poll_once(); // the end is noticed inside this poll
        }
        let (conn, r, w) = crate::pipe::Conn::new();
        conn.feed(&rc::handshake("DEALER", Some(&ident)));
        let mut att = Managed::new(crate::sock::attach_future(backend, r, w));
        let res = match att.poll_once() {
            Poll::Ready(x) => Some(x),
            Poll::Pending => att.drive().await.ok().flatten(),
        };
        drop(att);
        ctx.count("reconnects_in_the_turn_the_end_was_noticed");
        sim::settle().await;
        match res {
            Some(Ok(id)) => {
                let hs_len = crate::sock::library_handshake_len(&conn.tap()).unwrap_or(0);
                Peer { conn, id, ty: "DEALER".into(), hs_len }
            }
            other => {
                ctx.violation_with("C09/reconnect-rejected", format!("a peer reconnecting under its identity was rejected: {other:?}"), case.clone());
                return;
            }
        }
    } else {
        if observed_first {
            let _ = recv_now(&mut sock).await;
            ctx.count("reconnects_after_the_end_was_observed");
        } else {
            ctx.count("reconnects_before_the_end_was_observed");
        }
        match Peer::attach(&sock, "DEALER", Some(&ident)).await {
            Ok(p) => p,
            Err(e) => {
                ctx.violation_with("C09/reconnect-rejected", format!("a peer reconnecting under its identity was rejected: {e}"), case.clone());
                return;
            }
        }
    };
    // outbound: must reach the connected peer with that identity, i.e. the new connection
    let payload = rc::tagged(2, 0, &[7, 0]);
    let mut m = vec![ident.clone()];
    m.extend(payload.clone());
    let before_other = other.conn.tap_len();
    let r = sim::complete(sock.send(&m)).await;
    let got_new = newp.out_msgs().unwrap_or_default();
    if !matches!(r, Ok(Ok(()))) || got_new != vec![payload.clone()] || other.conn.tap_len() != before_other {
        ctx.violation_with(
            "C09/reconnected-peer-not-reachable",
            format!(
                "peer reconnected under identity {} (old connection ended, observed first: {observed_first}); send returned {r:?}, new connection received {:?}",
                rc::hex(&ident),
                got_new.iter().map(|x| rc::frames_summary(x)).collect::<Vec<_>>()
            ),
            case.clone(),
        );
        return;
    }
    // inbound from the new connection carries the identity, and it stays reachable afterwards
    newp.send(&rc::tagged(3, 0, &[2]));
    let mut ok = false;
    for _ in 0..4 {
        match recv_now(&mut sock).await {
            Some(Ok(x)) if x[0] == ident && rc::parse_tag(&x, 1).map(|t| t.origin == 3).unwrap_or(false) => {
                ok = true;
                break;
            }
            Some(_) => continue,
            None => break,
        }
    }
    if !ok {
        ctx.violation_with("C09/reconnected-peer-inbound-lost", "message of the reconnected peer was not delivered under its identity".into(), case.clone());
        return;
    }
    let mut m2 = vec![ident.clone()];
    m2.extend(rc::tagged(4, 0, &[1]));
    let r2 = sim::complete(sock.send(&m2)).await;
    if !matches!(r2, Ok(Ok(()))) || newp.out_msgs().map(|v| v.len()).unwrap_or(0) != 2 {
        ctx.violation_with(
            "C09/reconnected-peer-not-reachable",
            format!("after the socket polled its connections again the reconnected peer is no longer reachable: {r2:?}"),
            case.clone(),
        );
    }
}

/// Real transport: peers accepted through a bound endpoint stay routable by identity after
/// the endpoint is unbound (also when it was the last one) — a ROUTER that stops listening
/// keeps serving whom it has.
async fn rig_routable_after_unbind(transport: &str, second_bind: bool) -> Result<u64, (String, String)> {
    use super::c18::{exchange, ConnRec};
    use crate::rig::{self, Raw, WAIT};
    let inc = |e: String| ("inconclusive".to_string(), e);
    let mut sock = Sock::new("ROUTER", None);
    let ep = sock.bind(&rig::bind_endpoint(transport)).await.map_err(inc)?;
    let ep2 = if second_bind { Some(sock.bind(&rig::bind_endpoint("tcp4")).await.map_err(inc)?) } else { None };
    let mut conns = Vec::new();
    for (k, id) in [Some(&b"announced-id"[..]), None].into_iter().enumerate() {
        let mut raw = Raw::connect(&ep).await.map_err(|e| inc(e.to_string()))?;
        raw.handshake(if k == 0 { "DEALER" } else { "REQ" }, id).await.map_err(inc)?;
        conns.push((raw, id.map(|i| i.to_vec())));
    }
    tokio::time::sleep(std::time::Duration::from_millis(30)).await;
    // learn the assigned identity of the anonymous peer from its first message
    let mut recs: Vec<ConnRec> = Vec::new();
    for (mut raw, id) in conns {
        let id = match id {
            Some(i) => i,
            None => {
                raw.send_msg(&[vec![], b"hello".to_vec()]).await.map_err(inc)?;
                let m = tokio::time::timeout(WAIT, sock.recv()).await.map_err(|_| inc("recv timed out".into()))?.map_err(inc)?;
                m[0].clone()
            }
        };
        recs.push(ConnRec { raw, id, ep: ep.clone() });
    }
    let mut seq = 0u32;
    for phase in ["before", "after"] {
        if phase == "after" {
            sock.unbind(&ep).await.map_err(|e| (String::from("C09/rig/unbind-failed"), e))?;
        }
        for (k, c) in recs.iter_mut().enumerate() {
            seq += 1;
            if k == 1 {
                // REQ-style peer: its requests carry a delimiter; c18::exchange sends plain frames,
                // which a raw peer may do all the same (ROUTER takes any frames)
            }
            if let Err(e) = exchange(&mut sock, c, seq).await {
                if !rig::canary_ok().await {
                    return Err(inc(e));
                }
                return Err((
                    format!("C09/rig/connected-peer-not-routable-{phase}-unbind/{transport}"),
                    format!("ROUTER with two accepted peers (identity {} of peer {k}); {phase} unbind of the endpoint they came through{}: {e}", rc::hex(&c.id), if second_bind { " (another endpoint stays bound)" } else { " (its last one)" }),
                ));
            }
        }
    }
    let _ = ep2;
    let _ = tokio::time::timeout(WAIT, sock.close()).await;
    Ok(4)
}

impl Prop for C09 {
    fn id(&self) -> &'static str {
        "C09"
    }

    fn cases(&self, tier: Tier, seed: u64) -> Vec<Value> {
        let mut v = Vec::new();
        for n in 1..=6usize {
            for k in 0..tier.pick(400, 40_000) {
                v.push(json!({"kind": "run", "peers": n, "seed": mix(seed ^ (k as u64) << 4 ^ n as u64), "gone": k % 4}));
            }
        }
        for transport in ["tcp4", "ipc"] {
            for second in [false, true] {
                v.push(json!({"kind": "rig_unbind", "transport": transport, "second": second}));
            }
        }
        for k in 0..tier.pick(300, 30_000) {
            v.push(json!({"kind": "cancelled_send", "seed": mix(seed ^ 0x9C ^ k as u64)}));
        }
        for observed in [false, true] {
            for idlen in [1usize, 5, 16, 255] {
                v.push(json!({"kind": "reconnect", "observed": observed, "idlen": idlen}));
                if observed {
                    v.push(json!({"kind": "reconnect", "observed": true, "same_turn": true, "idlen": idlen}));
                }
            }
        }
        v
    }

    fn run(&self, case: &Value, ctx: &mut Ctx) {
        if s(case, "kind") == "rig_unbind" {
            ctx.eval(hash_str(&case.to_string()), true);
            ctx.sample("rig_unbind", || case.clone());
            let (res, _) = crate::rig::run(2, rig_routable_after_unbind(s(case, "transport"), case["second"].as_bool().unwrap_or(false)));
            match res {
                Ok(n) => ctx.add("rig_exchanges_around_an_unbind", n),
                Err((sig, msg)) if sig == "inconclusive" => ctx.inconclusive(format!("C09 rig: {msg}")),
                Err((sig, msg)) => ctx.violation_with(&sig, msg, case.clone()),
            }
            return;
        }
        if s(case, "kind") == "cancelled_send" {
            ctx.eval(hash_str(&case.to_string()), true);
            ctx.sample("cancelled_send", || case.clone());
            sim::run(cancelled_send(ctx, u(case, "seed"), case));
            return;
        }
        if s(case, "kind") == "reconnect" {
            ctx.eval(hash_str(&case.to_string()), true);
            ctx.sample("reconnect", || case.clone());
            sim::run(reconnect(ctx, case["observed"].as_bool().unwrap_or(false), u(case, "idlen") as usize, case));
            return;
        }
        ctx.eval(hash_str(&case.to_string()), u(case, "peers") > 1);
        ctx.sample("run", || case.clone());
        sim::run(run(ctx, u(case, "peers") as usize, u(case, "seed"), u(case, "gone"), case));
    }

    fn floors(&self, _tier: Tier) -> Vec<(&'static str, u64)> {
        vec![
            ("inbound_deliveries", 2000),
            ("announced_and_auto_in_one_socket", 100),
            ("peers_with_auto_identity", 100),
            ("peers_with_announced_identity", 100),
            ("deliveries_identity_kind/3", 50),
            ("sends_to_live_peer", 1000),
            ("sends_to_unknown_identity", 300),
            ("sends_to_gone_peer", 200),
            ("gone_by_fin_with_writes_still_accepted", 50),
            ("peers_with_empty_identity_property", 100),
            ("sockets_with_several_empty_identity_peers", 20),
            ("sends_abandoned_while_pending", 50),
            ("rig_exchanges_around_an_unbind", 12),
            ("sends_waiting_for_a_peer_that_is_not_reading", 30),
            ("sends_delivered_after_an_abandoned_send", 200),
            ("reconnects_before_the_end_was_observed", 4),
            ("reconnects_in_the_turn_the_end_was_noticed", 4),
            ("reconnects_after_the_end_was_observed", 4),
        ]
    }
}
