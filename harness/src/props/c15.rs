//! C15 — proxy() forwards every message verbatim in both directions.

use super::common::*;
use crate::pipe::Wire;
use crate::prng::{hash_str, mix, Rng};
use crate::refcodec::{self as rc};
use crate::report::{Ctx, Tier};
use crate::sim::{self, Managed};
use crate::sock::{connect_pair, from_msg, to_msg, Peer};
use crate::Prop;
use serde_json::{json, Value};
use std::collections::BTreeMap;
use std::task::Poll;
use zeromq::prelude::*;
use zeromq::{DealerSocket, PushSocket, RepSocket, ReqSocket, RouterSocket};

pub struct C15;

const SHAPES: [&[usize]; 6] = [&[1], &[0], &[5, 0, 256], &[0, 0], &[70_000], &[3, 300, 0, 1]];

/// Scripted clients and workers on both sides of a real proxy.
async fn scripted(ctx: &mut Ctx, nclients: usize, nworkers: usize, per: u32, capture: bool, seed: u64, case: &Value) {
    let mut r = Rng::keyed(seed, &[15, nclients as u64, nworkers as u64]);
    let router = RouterSocket::new();
    let dealer = DealerSocket::new();
    let fb = router.backend();
    let bb = dealer.backend();
    let push = PushSocket::new();
    let cb = push.backend();
    let mut clients = Vec::new();
    for k in 0..nclients {
        let ty = if k % 2 == 0 { "REQ" } else { "DEALER" };
        match Peer::attach_backend(fb.clone(), ty, Some(format!("client-{k}").as_bytes())).await {
            Ok(p) => clients.push(p),
            Err(e) => {
                ctx.inconclusive(format!("C15 attach: {e}"));
                return;
            }
        }
    }
    let mut workers = Vec::new();
    for k in 0..nworkers {
        let ty = if k % 2 == 0 { "REP" } else { "DEALER" };
        match Peer::attach_backend(bb.clone(), ty, Some(format!("worker-{k}").as_bytes())).await {
            Ok(p) => workers.push(p),
            Err(e) => {
                ctx.inconclusive(format!("C15 attach: {e}"));
                return;
            }
        }
    }
    let cap_peer = if capture {
        match Peer::attach_backend(cb.clone(), "PULL", Some(b"capture-sink")).await {
            Ok(p) => Some(p),
            Err(e) => {
                ctx.inconclusive(format!("C15 attach: {e}"));
                return;
            }
        }
    } else {
        None
    };
    let cap: Option<Box<dyn zeromq::CaptureSocket>> = if capture { Some(Box::new(push)) } else { None };
    let mut px = Managed::new(zeromq::proxy(router, dealer, cap));
    // state
    let mut sent = vec![0u32; nclients];
    let mut worker_seen = vec![0usize; nworkers]; // messages of its tap already answered
    let mut trace = 15u64;
    let total = per * nclients as u32;
    let mut steps = 0u32;
    let mut both_ready = 0u64;
    let mut worker_left: Option<usize> = None;
    loop {
        steps += 1;
        if steps > 60_000 {
            ctx.inconclusive("C15 scripted: step bound".into());
            return;
        }
        // workers: answer every request that has fully arrived
        let mut new_reply_bytes = Vec::new();
        for (j, w) in workers.iter().enumerate() {
            let msgs = match w.out_msgs() {
                Ok(m) => m,
                Err(_) => continue, // mid-message: wait
            };
            for m in msgs.iter().skip(worker_seen[j]) {
                // [client identity, empty, payload...]
                if m.len() >= 3 && m[1].is_empty() {
                    if let Ok(t) = rc::parse_tag(m, 2) {
                        let mut reply = vec![m[0].clone(), vec![]];
                        reply.extend(rc::tagged(1000 + t.origin, t.seq, SHAPES[(t.seq as usize + j) % SHAPES.len()]));
                        new_reply_bytes.push((j, rc::message(&reply)));
                    }
                }
            }
            worker_seen[j] = msgs.len();
        }
        for (j, b) in new_reply_bytes {
            workers[j].conn.feed_held(&b);
        }
        let replies_done: u32 = clients.iter().map(|c| c.out_msgs().map(|m| m.len() as u32).unwrap_or(0)).sum();
        // one worker leaves while it is idle (everything it was given is answered and
        // delivered); the proxy gets to notice before anything else happens
        if nworkers >= 2 && seed % 4 == 1 && worker_left.is_none() && replies_done >= total / 2 {
            let issued: u32 = sent.iter().sum();
            if replies_done == issued && workers.iter().all(|w| w.conn.held() == 0 && w.conn.unread() == 0) {
                let j = r.below(nworkers);
                workers[j].conn.end_inbound(crate::pipe::EndKind::Eof);
                worker_left = Some(j);
                ctx.count("idle_worker_left_mid_run");
                for _ in 0..50 {
                    if px.woken() {
                        if let Poll::Ready(res) = px.poll_once() {
                            ctx.violation_with("C15/proxy-returned", format!("proxy ended when an idle worker left: {res:?}"), case.clone());
                            return;
                        }
                    } else {
                        sim::settle().await;
                        if !px.woken() {
                            break;
                        }
                    }
                }
            }
        }
        if replies_done >= total && workers.iter().all(|w| w.conn.held() == 0) {
            break;
        }
        let mut acts: Vec<(u8, usize)> = vec![(4, 0), (4, 0)];
        for (i, c) in clients.iter().enumerate() {
            if sent[i] < per && c.conn.held() == 0 {
                acts.push((0, i));
            }
            if c.conn.held() > 0 {
                acts.push((1, i));
            }
        }
        for (j, w) in workers.iter().enumerate() {
            if w.conn.held() > 0 {
                acts.push((2, j));
            }
        }
        // make both sides ready at the same instant, then poll
        if clients.iter().any(|c| c.conn.held() > 0) && workers.iter().any(|w| w.conn.held() > 0) {
            acts.push((3, 0));
            acts.push((3, 0));
        }
        // a client (or worker) stops reading for a while: the proxy may wait for it, but
        // whatever it forwards must arrive whole once the peer reads again
        for (i, c) in clients.iter().enumerate() {
            if c.conn.credit().is_none() && r.chance(1, 40) {
                acts.push((5, i));
            }
            if c.conn.credit().is_some() {
                acts.push((6, i));
            }
        }
        let (a, i) = *r.pick(&acts);
        trace = mix(trace ^ ((a as u64) << 8 | i as u64));
        match a {
            5 => {
                clients[i].conn.set_credit(Some(*r.pick(&[0usize, 1, 9, 30, 300])));
                ctx.count("clients_not_reading_for_a_while");
            }
            6 => {
                clients[i].conn.set_credit(None);
            }
            0 => {
                let mut wire = vec![vec![]];
                wire.extend(rc::tagged(i as u16, sent[i], SHAPES[r.below(SHAPES.len())]));
                clients[i].send_held(&wire);
                sent[i] += 1;
            }
            1 | 2 => {
                let conn = if a == 1 { &clients[i].conn } else { &workers[i].conn };
                let h = conn.held();
                let any = r.range(1, h);
                conn.release(*r.pick(&[1usize, any, h, h]));
            }
            3 => {
                for c in &clients {
                    c.conn.release_all();
                    if r.chance(1, 3) {
                        // like a tokio stream whose task budget ran out
                        c.conn.yield_next_reads(r.range(1, 2) as u32);
                        ctx.count("cooperative_yields_during_proxy_poll");
                    }
                }
                for w in &workers {
                    w.conn.release_all();
                    if r.chance(1, 3) {
                        w.conn.yield_next_reads(r.range(1, 2) as u32);
                        ctx.count("cooperative_yields_during_proxy_poll");
                    }
                }
                both_ready += 1;
                if let Poll::Ready(res) = px.poll_once() {
                    ctx.violation_with("C15/proxy-returned", format!("proxy ended: {res:?}"), case.clone());
                    return;
                }
            }
            _ => {
                if px.woken() || r.chance(1, 6) {
                    if let Poll::Ready(res) = px.poll_once() {
                        ctx.violation_with("C15/proxy-returned", format!("proxy ended: {res:?}"), case.clone());
                        return;
                    }
                } else {
                    sim::settle().await;
                    if !px.woken() && clients.iter().any(|c| c.conn.credit().is_some()) {
                        for c in &clients {
                            c.conn.set_credit(None);
                        }
                        continue;
                    }
                    if !px.woken()
                        && clients.iter().all(|c| c.conn.held() == 0)
                        && workers.iter().all(|w| w.conn.held() == 0)
                        && sent.iter().all(|s| *s == per)
                    {
                        // everything was made readable and the proxy is parked without a
                        // pending wake-up: whatever is missing now is lost (bytes it left
                        // unread included)
                        break;
                    }
                }
            }
        }
    }
    for c in &clients {
        c.conn.set_credit(None);
    }
    sim::settle().await;
    // ---- a client goes away and comes back under its identity (a restarted instance);
    // its next request must be answered on the new connection
    let mut reconnected: Option<Peer> = None;
    if seed % 3 == 0 {
        clients[0].conn.close_full(crate::pipe::EndKind::Eof);
        let newc = match Peer::attach_backend(fb.clone(), "REQ", Some(b"client-0")).await {
            Ok(p) => p,
            Err(e) => {
                ctx.violation_with("C15/reconnecting-client-rejected", e, case.clone());
                return;
            }
        };
        let mut wire = vec![vec![]];
        wire.extend(rc::tagged(0, 900, &[3]));
        newc.send(&wire);
        ctx.count("client_reconnects_under_its_identity");
        let mut answered = false;
        for _ in 0..400 {
            if px.woken() {
                if let Poll::Ready(res) = px.poll_once() {
                    ctx.violation_with("C15/proxy-returned", format!("proxy ended after a client reconnected: {res:?}"), case.clone());
                    return;
                }
            }
            for (j, w) in workers.iter().enumerate() {
                if let Ok(msgs) = w.out_msgs() {
                    for m in msgs.iter().skip(worker_seen[j]) {
                        if m.len() >= 3 && m[1].is_empty() {
                            if let Ok(t) = rc::parse_tag(m, 2) {
                                let mut reply = vec![m[0].clone(), vec![]];
                                reply.extend(rc::tagged(1000 + t.origin, t.seq, &[2]));
                                w.conn.feed(&rc::message(&reply));
                            }
                        }
                    }
                    worker_seen[j] = msgs.len();
                }
            }
            if newc.out_msgs().map(|m| m.iter().any(|x| rc::parse_tag(x, 1).map(|t| t.seq == 900).unwrap_or(false))).unwrap_or(false) {
                answered = true;
                break;
            }
            sim::settle().await;
            if !px.woken() && workers.iter().all(|w| w.conn.unread() == 0) && newc.conn.unread() == 0 {
                break;
            }
        }
        if !answered {
            ctx.violation_with(
                "C15/reply-lost-after-client-reconnect",
                "a client reconnected under its identity and sent a request; the reply never reached its new connection".into(),
                case.clone(),
            );
            return;
        }
        reconnected = Some(newc);
    }
    let _ = &reconnected;
    ctx.interleaving(trace);
    ctx.add("both_sides_ready_in_one_poll", both_ready);
    // ---- offline oracle over the taps
    let mut fwd_req: BTreeMap<(u16, u32), (usize, u64)> = BTreeMap::new(); // tag -> (worker, clock)
    for (j, w) in workers.iter().enumerate() {
        let bytes = w.out_bytes();
        let d = rc::decode_stream(&bytes, false);
        if d.error.is_some() || d.consumed != bytes.len() {
            ctx.violation_with("C15/backend-stream-corrupted", format!("worker {j}: tap is not a clean message stream"), case.clone());
            return;
        }
        for (m, end) in d.messages().iter().zip(d.ends.iter()) {
            let t = match rc::parse_tag(m, 2) {
                Ok(t) if m.len() >= 3 && m[1].is_empty() => t,
                _ => {
                    ctx.violation_with(
                        "C15/request-not-forwarded-verbatim",
                        format!("worker {j} received {} (expected [client identity, empty, payload...])", rc::frames_summary(m)),
                        case.clone(),
                    );
                    return;
                }
            };
            let c = t.origin as usize;
            if c >= clients.len() || m[0] != format!("client-{c}").as_bytes() {
                ctx.violation_with(
                    "C15/request-envelope-wrong",
                    format!("request of client {c} was forwarded with identity {:?}", String::from_utf8_lossy(&m[0])),
                    case.clone(),
                );
                return;
            }
            let clock = w.conn.tap_time(w.hs_len + end).unwrap_or(0);
            if fwd_req.insert((t.origin, t.seq), (j, clock)).is_some() {
                ctx.violation_with("C15/request-forwarded-twice", format!("request ({c},{}) reached the backend twice", t.seq), case.clone());
                return;
            }
        }
    }
    for c in 0..nclients {
        let mut last = 0u64;
        for q in 0..per {
            match fwd_req.get(&(c as u16, q)) {
                None => {
                    ctx.violation_with(
                        "C15/request-lost",
                        format!("request {q} of client {c} entered the frontend and never left the backend ({} of {} requests forwarded)", fwd_req.len(), total),
                        case.clone(),
                    );
                    return;
                }
                Some((_, clock)) => {
                    if *clock < last {
                        ctx.violation_with("C15/request-order", format!("client {c}: request {q} forwarded before request {}", q - 1), case.clone());
                        return;
                    }
                    last = *clock;
                }
            }
        }
    }
    ctx.add("requests_forwarded", fwd_req.len() as u64);
    // replies: each client gets exactly the replies to its own requests, in order, verbatim
    for (c, cl) in clients.iter().enumerate() {
        let msgs = match cl.out_msgs() {
            Ok(m) => m,
            Err(e) => {
                ctx.violation_with("C15/frontend-stream-corrupted", format!("client {c}: {e}"), case.clone());
                return;
            }
        };
        let tags: Vec<Option<(u16, u32)>> = msgs
            .iter()
            .map(|m| if m.first().map(|f| f.is_empty()).unwrap_or(false) { rc::parse_tag(m, 1).ok().map(|t| (t.origin, t.seq)) } else { None })
            .collect();
        let want: Vec<Option<(u16, u32)>> = (0..per).map(|q| Some((1000 + c as u16, q))).collect();
        // scripted clients pipeline their requests, so replies produced by different
        // workers may overtake each other; what must hold: exactly the replies to this
        // client's own requests, each once, and in order per worker (per backend connection)
        let mut sorted = tags.clone();
        sorted.sort();
        if sorted != want {
            let kind = if tags.len() < want.len() { "reply-lost" } else if tags.len() > want.len() { "reply-duplicated" } else { "reply-wrong" };
            ctx.violation_with(&format!("C15/{kind}"), format!("client {c} received {tags:?}, expected (in any inter-worker order) {want:?}"), case.clone());
            return;
        }
        let mut last_per_worker: BTreeMap<usize, u32> = BTreeMap::new();
        for t in tags.iter().flatten() {
            if let Some((w, _)) = fwd_req.get(&(c as u16, t.1)) {
                if let Some(prev) = last_per_worker.get(w) {
                    if *prev > t.1 {
                        ctx.violation_with(
                            "C15/reply-order",
                            format!("client {c}: worker {w} answered request {prev} before {}, replies arrived reversed: {tags:?}", t.1),
                            case.clone(),
                        );
                        return;
                    }
                }
                last_per_worker.insert(*w, t.1);
            }
        }
    }
    ctx.add("replies_forwarded", total as u64);
    if let Some(cp) = &cap_peer {
        let msgs = match cp.out_msgs() {
            Ok(m) => m,
            Err(e) => {
                ctx.violation_with("C15/capture-stream-corrupted", e, case.clone());
                return;
            }
        };
        let mut seen: BTreeMap<(u16, u32), u32> = BTreeMap::new();
        for m in &msgs {
            match rc::parse_tag(m, 2) {
                Ok(t) if m.len() >= 3 && m[1].is_empty() => *seen.entry((t.origin, t.seq)).or_insert(0) += 1,
                _ => {
                    ctx.violation_with("C15/capture-not-a-copy", format!("capture received {}", rc::frames_summary(m)), case.clone());
                    return;
                }
            }
        }
        let extra = if reconnected.is_some() { 2 } else { 0 };
        let ok = seen.len() == 2 * total as usize + extra && seen.values().all(|n| *n == 1);
        if !ok {
            ctx.violation_with(
                "C15/capture-missing-or-duplicate",
                format!("{} forwarded messages, capture received {} ({} distinct)", 2 * total, msgs.len(), seen.len()),
                case.clone(),
            );
            return;
        }
        ctx.add("captured_copies", msgs.len() as u64);
        ctx.count("capture_runs");
    }
}

/// Real REQ sockets -> ROUTER/proxy/DEALER -> real REP sockets over wires.
async fn chain(ctx: &mut Ctx, nclients: usize, nworkers: usize, per: u32, capture: bool, seed: u64, case: &Value) {
    let mut r = Rng::keyed(seed, &[0x15C, nclients as u64, nworkers as u64]);
    let router = RouterSocket::new();
    let dealer = DealerSocket::new();
    let fb = router.backend();
    let bb = dealer.backend();
    let push = PushSocket::new();
    let cb = push.backend();
    let mut wires: Vec<Wire> = Vec::new();
    let mut reqs = Vec::new();
    for _ in 0..nclients {
        let q = ReqSocket::new();
        match connect_pair(q.backend(), fb.clone()).await {
            Ok((w, _, _)) => wires.push(w),
            Err(e) => {
                ctx.inconclusive(format!("C15 chain connect: {e}"));
                return;
            }
        }
        reqs.push(q);
    }
    let mut reps = Vec::new();
    for _ in 0..nworkers {
        let p = RepSocket::new();
        match connect_pair(p.backend(), bb.clone()).await {
            Ok((w, _, _)) => wires.push(w),
            Err(e) => {
                ctx.inconclusive(format!("C15 chain connect: {e}"));
                return;
            }
        }
        reps.push(p);
    }
    let cap_peer = if capture { Peer::attach_backend(cb.clone(), "PULL", Some(b"capture-sink")).await.ok() } else { None };
    let cap: Option<Box<dyn zeromq::CaptureSocket>> = if capture { Some(Box::new(push)) } else { None };
    let mut px = Managed::new(zeromq::proxy(router, dealer, cap));
    let mut client_futs: Vec<Managed<Result<(), String>>> = Vec::new();
    for (c, mut q) in reqs.into_iter().enumerate() {
        client_futs.push(Managed::new(async move {
            for i in 0..per {
                let req = rc::tagged(c as u16, i, SHAPES[(c + i as usize) % SHAPES.len()]);
                q.send(to_msg(&req)).await.map_err(|e| format!("client {c}: send {i}: {e}"))?;
                let rep = q.recv().await.map_err(|e| format!("client {c}: recv {i}: {e}"))?;
                let rep = from_msg(&rep);
                match rc::parse_tag(&rep, 0) {
                    Ok(t) if t.origin == 1000 + c as u16 && t.seq == i => {}
                    other => return Err(format!("client {c}: reply to request {i} is {other:?} {}", rc::frames_summary(&rep))),
                }
            }
            Ok(())
        }));
    }
    let mut worker_futs: Vec<Managed<Result<(), String>>> = Vec::new();
    for (j, mut p) in reps.into_iter().enumerate() {
        worker_futs.push(Managed::new(async move {
            loop {
                let m = p.recv().await.map_err(|e| format!("worker {j}: recv: {e}"))?;
                let m = from_msg(&m);
                let t = rc::parse_tag(&m, 0).map_err(|e| format!("worker {j}: request corrupted: {e} {}", rc::frames_summary(&m)))?;
                let rep = rc::tagged(1000 + t.origin, t.seq, SHAPES[(t.seq as usize + j) % SHAPES.len()]);
                p.send(to_msg(&rep)).await.map_err(|e| format!("worker {j}: send: {e}"))?;
            }
        }));
    }
    let mut done = vec![false; nclients];
    let mut idle = 0;
    for _ in 0..200_000 {
        let mut progressed = false;
        if px.woken() {
            if let Poll::Ready(res) = px.poll_once() {
                ctx.violation_with("C15/proxy-returned", format!("proxy ended: {res:?}"), case.clone());
                return;
            }
            progressed = true;
        }
        for (c, f) in client_futs.iter_mut().enumerate() {
            if !done[c] && f.woken() {
                progressed = true;
                if let Poll::Ready(res) = f.poll_once() {
                    done[c] = true;
                    if let Err(e) = res {
                        ctx.violation_with("C15/chain/client-got-wrong-or-no-reply", e, case.clone());
                        return;
                    }
                }
            }
        }
        for f in worker_futs.iter_mut() {
            if !f.done() && f.woken() {
                progressed = true;
                if let Poll::Ready(Err(e)) = f.poll_once() {
                    ctx.violation_with("C15/chain/worker-failed", e, case.clone());
                    return;
                }
            }
        }
        // segmentation: seeded chunk sizes on every wire
        for w in wires.iter_mut() {
            let max = *r.pick(&[1usize, 7, 96, 4096, usize::MAX, usize::MAX]);
            if w.pump(max) > 0 {
                progressed = true;
            }
        }
        if done.iter().all(|d| *d) {
            break;
        }
        if !progressed {
            sim::settle().await;
            idle += 1;
            if idle > 3 {
                let left: Vec<usize> = done.iter().enumerate().filter(|(_, d)| !**d).map(|(i, _)| i).collect();
                ctx.violation_with(
                    "C15/chain/request-or-reply-lost",
                    format!("clients {left:?} are still waiting, nothing is in flight and nobody is runnable"),
                    case.clone(),
                );
                return;
            }
        } else {
            idle = 0;
        }
    }
    ctx.add("chain_round_trips", (per as u64) * nclients as u64);
    if let Some(cp) = &cap_peer {
        // let the proxy finish the last capture write
        let n = cp.out_msgs().map(|m| m.len()).unwrap_or(0);
        if n != 2 * per as usize * nclients {
            ctx.violation_with(
                "C15/capture-missing-or-duplicate",
                format!("chain: {} messages forwarded, capture received {n}", 2 * per as usize * nclients),
                case.clone(),
            );
            return;
        }
        ctx.count("capture_runs");
    }
}

/// A request arrives while no worker is connected yet; a worker joins; a second request
/// follows. The proxy may give up with an error at the first request (it says so), but while
/// it RUNS every message it received is forwarded: the worker sees request 0, then 1.
async fn request_before_any_worker(ctx: &mut Ctx, case: &Value) {
    let router = RouterSocket::new();
    let dealer = DealerSocket::new();
    let (fb, bb) = (router.backend(), dealer.backend());
    let Ok(client) = Peer::attach_backend(fb.clone(), "DEALER", Some(b"early-client")).await else {
        ctx.inconclusive("C15 attach".into());
        return;
    };
    let mut px = Managed::new(zeromq::proxy(router, dealer, None));
    let send_req = |i: u32| {
        let mut w = vec![vec![]];
        w.extend(rc::tagged(7, i, &[3]));
        client.send(&w);
    };
    send_req(0);
    let mut ended = false;
    for _ in 0..200 {
        if let Poll::Ready(_) = px.poll_once() {
            ended = true;
            break;
        }
        sim::settle().await;
        if !px.woken() {
            break;
        }
    }
    if ended {
        ctx.count("proxy_gave_up_on_a_request_without_worker");
        return;
    }
    let Ok(worker) = Peer::attach_backend(bb.clone(), "DEALER", Some(b"late-worker")).await else {
        ctx.inconclusive("C15 attach worker".into());
        return;
    };
    send_req(1);
    for _ in 0..400 {
        if let Poll::Ready(_) = px.poll_once() {
            break;
        }
        sim::settle().await;
        if !px.woken() {
            break;
        }
    }
    let got: Vec<u32> = worker.out_msgs().unwrap_or_default().iter().filter_map(|m| rc::parse_tag(m, 2).ok().map(|t| t.seq)).collect();
    if got != vec![0, 1] {
        ctx.violation_with(
            "C15/request-lost",
            format!("request 0 arrived before any worker was connected and the proxy kept running; a worker joined and request 1 followed: the worker received requests {got:?} (expected [0, 1])"),
            case.clone(),
        );
        return;
    }
    ctx.count("requests_held_until_a_worker_joined");
}

impl Prop for C15 {
    fn id(&self) -> &'static str {
        "C15"
    }

    fn cases(&self, tier: Tier, seed: u64) -> Vec<Value> {
        let mut v = Vec::new();
        v.push(json!({"kind": "request_before_worker"}));
        for nc in 1..=4usize {
            for nw in 1..=3usize {
                for k in 0..tier.pick(60, 6000) {
                    v.push(json!({"kind": "scripted", "clients": nc, "workers": nw, "per": 5, "capture": k % 2 == 0,
                                  "seed": mix(seed ^ 0xC15 ^ (k as u64) << 8 ^ (nc * 10 + nw) as u64)}));
                }
                for k in 0..tier.pick(20, 2000) {
                    v.push(json!({"kind": "chain", "clients": nc, "workers": nw, "per": 6, "capture": k % 2 == 1,
                                  "seed": mix(seed ^ 0x1C15 ^ (k as u64) << 8 ^ (nc * 10 + nw) as u64)}));
                }
            }
        }
        v
    }

    fn run(&self, case: &Value, ctx: &mut Ctx) {
        if s(case, "kind") == "request_before_worker" {
            ctx.eval(hash_str(&case.to_string()), true);
            sim::run(request_before_any_worker(ctx, case));
            return;
        }
        let nc = u(case, "clients") as usize;
        let nw = u(case, "workers") as usize;
        ctx.eval(hash_str(&case.to_string()), nc + nw > 2);
        ctx.sample(s(case, "kind"), || case.clone());
        if nc >= 2 && nw >= 2 {
            ctx.count("runs_with_2_clients_and_2_workers");
        }
        let capture = case["capture"].as_bool().unwrap_or(false);
        match s(case, "kind") {
            "scripted" => {
                ctx.count("scripted_runs");
                sim::run(scripted(ctx, nc, nw, u(case, "per") as u32, capture, u(case, "seed"), case))
            }
            "chain" => {
                ctx.count("chain_runs");
                sim::run(chain(ctx, nc, nw, u(case, "per") as u32, capture, u(case, "seed"), case))
            }
            _ => ctx.inconclusive(format!("unknown case {case}")),
        }
    }

    fn floors(&self, _tier: Tier) -> Vec<(&'static str, u64)> {
        vec![
            ("clients_not_reading_for_a_while", 50),
            ("scripted_runs", 100),
            ("chain_runs", 40),
            ("requests_forwarded", 1000),
            ("replies_forwarded", 1000),
            ("chain_round_trips", 500),
            ("both_sides_ready_in_one_poll", 100),
            ("runs_with_2_clients_and_2_workers", 50),
            ("capture_runs", 50),
            ("cooperative_yields_during_proxy_poll", 100),
            ("client_reconnects_under_its_identity", 20),
            ("idle_worker_left_mid_run", 20),
            ("captured_copies", 1000),
        ]
    }
}
