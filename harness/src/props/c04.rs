//! C04 — the handshake admits exactly the well-formed, RFC-compatible peers.

use super::common::*;
use crate::pipe::Conn;
use crate::prng::{hash_str, Rng};
use crate::refcodec::{self as rc};
use crate::report::{Ctx, Tier};
use crate::sim::{self, Managed};
use crate::sock::{attach_future, peer_type_for, Peer, Sock, ALL_TYPES};
use crate::Prop;
use serde_json::{json, Value};
use std::panic::{catch_unwind, AssertUnwindSafe};
use zeromq::SocketType;

pub struct C04;

const NAMES12: [&str; 12] = [
    "PAIR", "PUB", "SUB", "REQ", "REP", "DEALER", "ROUTER", "PULL", "PUSH", "XPUB", "XSUB", "STREAM",
];
/// peer Socket-Type dimension: the 12 names, an unknown name, property missing
const PEER_TYPES: [&str; 14] = [
    "PAIR", "PUB", "SUB", "REQ", "REP", "DEALER", "ROUTER", "PULL", "PUSH", "XPUB", "XSUB", "STREAM",
    "BOGUS", "<missing>",
];
const VERSIONS: [(u8, u8); 5] = [(1, 0), (2, 1), (3, 0), (3, 1), (4, 0)];
const MECHS: [&str; 4] = ["NULL", "PLAIN", "CURVE", "WEIRD"];
const SIGS: [&str; 3] = ["ok", "byte0", "byte9"];
const IDENTS: [&str; 5] = ["none", "empty", "1", "255", "256"];
/// what follows the greeting; "+ready": the same, with a perfectly valid READY right behind it
/// (skipping the unexpected item instead of rejecting the connection would then admit it)
const FIRST: [&str; 7] = ["ready", "other-command", "message", "other-command+ready", "ping+ready", "message+ready", "message-frame-with-MORE+ready"];

/// RFC 23/28/29/30 socket compatibility, written independently of zmq.rs.
pub fn rfc_compatible(a: &str, b: &str) -> bool {
    let peers: &[&str] = match a {
        "PAIR" => &["PAIR"],
        "PUB" | "XPUB" => &["SUB", "XSUB"],
        "SUB" | "XSUB" => &["PUB", "XPUB"],
        "REQ" => &["REP", "ROUTER"],
        "REP" => &["REQ", "DEALER"],
        "DEALER" => &["REP", "DEALER", "ROUTER"],
        "ROUTER" => &["REQ", "DEALER", "ROUTER"],
        "PUSH" => &["PULL"],
        "PULL" => &["PUSH"],
        _ => &[],
    };
    peers.contains(&b)
}

fn socket_type_of(name: &str) -> Option<SocketType> {
    Some(match name {
        "PAIR" => SocketType::PAIR,
        "PUB" => SocketType::PUB,
        "SUB" => SocketType::SUB,
        "REQ" => SocketType::REQ,
        "REP" => SocketType::REP,
        "DEALER" => SocketType::DEALER,
        "ROUTER" => SocketType::ROUTER,
        "PULL" => SocketType::PULL,
        "PUSH" => SocketType::PUSH,
        "XPUB" => SocketType::XPUB,
        "XSUB" => SocketType::XSUB,
        "STREAM" => SocketType::STREAM,
        _ => return None,
    })
}

#[derive(Clone, Debug)]
struct Point {
    local: String,
    peer: String,
    version: (u8, u8),
    mech: String,
    sig: String,
    ident: String,
    first: String,
}

impl Point {
    fn to_json(&self, delivery: &str) -> Value {
        json!({"kind": "point", "local": self.local, "peer": self.peer,
               "version": [self.version.0, self.version.1], "mech": self.mech, "sig": self.sig,
               "ident": self.ident, "first": self.first, "delivery": delivery})
    }

    fn from_json(v: &Value) -> Point {
        Point {
            local: s(v, "local").into(),
            peer: s(v, "peer").into(),
            version: (
                v["version"][0].as_u64().unwrap_or(3) as u8,
                v["version"][1].as_u64().unwrap_or(0) as u8,
            ),
            mech: s(v, "mech").into(),
            sig: s(v, "sig").into(),
            ident: s(v, "ident").into(),
            first: s(v, "first").into(),
        }
    }

    fn identity(&self) -> Option<Vec<u8>> {
        match self.ident.as_str() {
            "none" => None,
            "empty" => Some(vec![]),
            "1" => Some(vec![0x42]),
            "255" => Some((0..255u32).map(|i| (i % 251) as u8 + 1).collect()),
            _ => Some((0..256u32).map(|i| (i % 251) as u8 + 1).collect()),
        }
    }

    /// First reason for which the reference predicate rejects, or None.
    fn reject_reason(&self) -> Option<&'static str> {
        if self.sig != "ok" {
            return Some("signature");
        }
        if self.version < (3, 0) {
            return Some("version");
        }
        if self.mech == "WEIRD" {
            return Some("mechanism");
        }
        if self.first != "ready" {
            return Some("first-item-not-READY");
        }
        if self.peer == "<missing>" {
            return Some("socket-type-missing");
        }
        if !NAMES12.contains(&self.peer.as_str()) {
            return Some("socket-type-unknown");
        }
        if !rfc_compatible(&self.local, &self.peer) {
            return Some("socket-type-incompatible");
        }
        if self.ident == "256" {
            return Some("identity-too-long");
        }
        None
    }

    fn bytes(&self) -> Vec<u8> {
        let (b0, b9) = match self.sig.as_str() {
            "byte0" => (0xFE, 0x7F),
            "byte9" => (0xFF, 0x7E),
            x if x.starts_with("b0:") => (x[3..].parse::<u8>().unwrap_or(0), 0x7F),
            x if x.starts_with("b9:") => (0xFF, x[3..].parse::<u8>().unwrap_or(0)),
            _ => (0xFF, 0x7F),
        };
        let mut v = rc::greeting_with(self.version, self.mech.as_bytes(), b0, b9, 0);
        let id = self.identity();
        match self.first.as_str() {
            "ready" => {
                let mut list: Vec<(&[u8], &[u8])> = Vec::new();
                if self.peer != "<missing>" {
                    list.push((b"Socket-Type", self.peer.as_bytes()));
                }
                if let Some(id) = &id {
                    list.push((b"Identity", id));
                }
                v.extend(rc::command(b"READY", &rc::props(&list)));
            }
            "other-command" => {
                let mut list: Vec<(&[u8], &[u8])> = vec![(b"Socket-Type", self.peer.as_bytes())];
                if let Some(id) = &id {
                    list.push((b"Identity", id));
                }
                v.extend(rc::command(b"ERROR", &rc::props(&list)));
            }
            "other-command+ready" | "ping+ready" | "message+ready" | "message-frame-with-MORE+ready" => {
                match self.first.as_str() {
                    "other-command+ready" => v.extend(rc::command(b"ERROR", b"\x05oops!")),
                    "ping+ready" => v.extend(rc::command(b"PING", b"\x00\x0a")),
                    // the first frame of a message that is never finished: what comes first is
                    // still a message
                    "message-frame-with-MORE+ready" => v.extend_from_slice(&[0x01, 0x02, b'h', b'i']),
                    _ => v.extend(rc::message(&[b"hello".to_vec()])),
                }
                let mut list: Vec<(&[u8], &[u8])> = Vec::new();
                if self.peer != "<missing>" {
                    list.push((b"Socket-Type", self.peer.as_bytes()));
                }
                if let Some(id) = &id {
                    list.push((b"Identity", id));
                }
                v.extend(rc::command(b"READY", &rc::props(&list)));
            }
            _ => v.extend(rc::message(&[b"hello".to_vec()])),
        }
        v
    }
}

async fn run_point(ctx: &mut Ctx, p: &Point, delivery: &str, follow_up: bool) {
    let case = p.to_json(delivery);
    let reason = p.reject_reason();
    ctx.eval(hash_str(&case.to_string()), true);
    ctx.count(&format!("local/{}", p.local));
    ctx.count(&format!("peer/{}", p.peer));
    ctx.count(&format!("version/{}.{}", p.version.0, p.version.1));
    ctx.count(&format!("mech/{}", p.mech));
    ctx.count(&format!("sig/{}", if p.sig.contains(':') { &p.sig[..2] } else { &p.sig[..] }));
    ctx.count(&format!("ident/{}", p.ident));
    ctx.count(&format!("first/{}", p.first));
    let mut sock = Sock::new(&p.local, None);
    let (conn, r, w) = Conn::new();
    let bytes = p.bytes();
    match delivery {
        "byte-at-a-time" => {
            conn.set_max_read(1);
            conn.feed(&bytes);
        }
        "ready-split" => {
            conn.set_read_chunks(&[64, 1, 3]);
            conn.feed(&bytes);
        }
        d if d.starts_with("chunks-") => {
            // seeded read sizes (thorough tier): the same grid under other segmentations
            let mut r = Rng::keyed(hash_str(d), &[4, bytes.len() as u64]);
            let chunks: Vec<usize> = (0..40).map(|_| *r.pick(&[1usize, 2, 3, 9, 10, 11, 31, 32, 53, 63, 64, 65, 70])).collect();
            conn.set_read_chunks(&chunks);
            conn.feed(&bytes);
        }
        _ => conn.feed(&bytes),
    }
    let mut att = Managed::new(attach_future(sock.backend(), r, w));
    let res = match att.drive().await {
        Ok(Some(r)) => r,
        Ok(None) => {
            // nothing more will ever arrive: a peer that sent all this and is
            // still "pending" is neither admitted nor rejected
            drop(att);
            if reason.is_none() {
                ctx.violation_with(
                    &format!("C04/valid-peer-left-pending/{}", p.local),
                    format!("{p:?}: handshake still pending after all bytes were delivered"),
                    case,
                );
            } else {
                ctx.count("rejected_by_waiting_forever");
            }
            return;
        }
        Err(_) => {
            ctx.violation_with("C04/handshake-spins", format!("{p:?}: handshake future spins"), case);
            return;
        }
    };
    drop(att);
    sim::settle().await;
    match (&res, reason) {
        (Ok(_), Some(why)) => {
            ctx.violation_with(
                &format!("C04/admitted-but-must-reject/{why}"),
                format!("{} socket admitted a peer that must be rejected ({why}): {p:?}", p.local),
                case,
            );
        }
        (Err(e), None) => {
            ctx.violation_with(
                &format!("C04/rejected-but-must-admit/{}-{}", p.local, p.peer),
                format!("{} socket rejected a well-formed compatible {} peer ({p:?}): {e}", p.local, p.peer),
                case,
            );
        }
        (Ok(id), None) => {
            ctx.count("admitted");
            ctx.count(&format!("admitted/ident/{}", p.ident));
            ctx.count(&format!("admitted/version/{}.{}", p.version.0, p.version.1));
            ctx.count(&format!("admitted/mech/{}", p.mech));
            // identity
            match p.identity() {
                Some(want) if !want.is_empty() => {
                    if id != &want {
                        ctx.violation_with(
                            "C04/identity-not-the-announced-one",
                            format!("{p:?}: announced {} registered as {}", rc::hex(&want), rc::hex(id)),
                            case.clone(),
                        );
                        return;
                    }
                }
                _ => {
                    if id.is_empty() {
                        ctx.violation_with(
                            "C04/identity-empty",
                            format!("{p:?}: peer without identity registered under an empty identity"),
                            case.clone(),
                        );
                        return;
                    }
                }
            }
            if !follow_up {
                return;
            }
            let hs_len = match crate::sock::library_handshake_len(&conn.tap()) {
                Ok(n) => n,
                Err(e) => {
                    ctx.violation_with(
                        "C04/admitted-without-own-handshake",
                        format!("{p:?}: peer admitted but the library's own greeting/READY is incomplete: {e}"),
                        case,
                    );
                    return;
                }
            };
            let peer = Peer {
                conn: conn.clone(),
                id: id.clone(),
                ty: p.peer.clone(),
                hs_len,
            };
            ctx.count("admitted_follow_up");
            if let Err(e) = exchange_with(&mut sock, &peer, 1).await {
                ctx.violation_with(
                    &format!("C04/admitted-not-usable/{}", p.local),
                    format!("{p:?}: {e}"),
                    case,
                );
                return;
            }
            // auto identities are unique; registration happened exactly once
            if let Err((sig, msg)) = registered_once(&mut sock, &peer, p).await {
                ctx.violation_with(&format!("C04/{sig}/{}", p.local), format!("{p:?}: {msg}"), case);
            }
        }
        (Err(_), Some(why)) => {
            ctx.count("rejected");
            ctx.count(&format!("rejected/{why}"));
            ctx.count(&format!("rejected/ident/{}", p.ident));
            ctx.count(&format!("rejected/version/{}.{}", p.version.0, p.version.1));
            ctx.count(&format!("rejected/mech/{}", p.mech));
            if !follow_up {
                return;
            }
            ctx.count("rejected_follow_up");
            if !conn.released_both() {
                ctx.violation_with(
                    "C04/rejected-connection-not-closed",
                    format!(
                        "{p:?}: rejected ({why}) but reader_dropped={} writer_dropped={}",
                        conn.reader_dropped(),
                        conn.writer_dropped()
                    ),
                    case,
                );
                return;
            }
            // traffic appended after the failed handshake never surfaces
            let tap_before = conn.tap_len();
            conn.feed(&rc::message(&rc::tagged(9, 9, &[4])));
            let mut stray = Vec::new();
            if sock.can_recv() && p.local != "REQ" {
                if let Some(r) = recv_now(&mut sock).await {
                    stray.push(format!("{r:?}"));
                }
            }
            if sock.can_send() {
                let msg = match p.local.as_str() {
                    "ROUTER" => {
                        let mut m = vec![p.identity().filter(|i| !i.is_empty() && i.len() < 256).unwrap_or(b"x".to_vec())];
                        m.extend(rc::tagged(9, 10, &[4]));
                        m
                    }
                    _ => rc::tagged(9, 10, &[4]),
                };
                let r = sim::complete(sock.send(&msg)).await;
                let sent_ok = matches!(r, Ok(Ok(())));
                if sent_ok && !matches!(p.local.as_str(), "PUB" | "XPUB") {
                    stray.push(format!("send succeeded although no peer was admitted: {r:?}"));
                }
            }
            sim::settle().await;
            if !stray.is_empty() {
                ctx.violation_with(
                    "C04/rejected-peer-exchanged-messages",
                    format!("{p:?}: rejected ({why}) yet: {stray:?}"),
                    case,
                );
                return;
            }
            let tap = conn.tap();
            let d = rc::decode_stream(&tap, true);
            let extra_items = d.items.len().saturating_sub(2);
            if conn.tap_len() != tap_before || extra_items > 0 || d.items.iter().any(|i| i.as_message().is_some()) {
                ctx.violation_with(
                    "C04/rejected-peer-was-written-to",
                    format!("{p:?}: rejected ({why}) but the library wrote application data to it"),
                    case,
                );
            }
        }
    }
}

/// With the admitted grid peer A and a fresh healthy peer B registered, the
/// peer set must be exactly {A, B}: rotation / fan-out / routing shows each once.
async fn registered_once(sock: &mut Sock, a: &Peer, p: &Point) -> Result<(), (String, String)> {
    let ty = sock.ty();
    let b = Peer::attach(sock, peer_type_for(ty), Some(b"second-peer"))
        .await
        .map_err(|e| ("second-peer-rejected".to_string(), e))?;
    if a.id == b.id {
        return Err(("identity-not-unique".into(), "two connections share one identity".into()));
    }
    let count = |peer: &Peer, origin: u16, skip: usize| -> usize {
        peer.out_msgs()
            .unwrap_or_default()
            .iter()
            .filter(|m| {
                let sk = skip.min(m.len().saturating_sub(1));
                rc::parse_tag(m, sk).map(|t| t.origin == origin).unwrap_or(false)
            })
            .count()
    };
    match ty {
        "PUSH" | "DEALER" => {
            for k in 0..4u32 {
                let _ = sim::complete(sock.send(&rc::tagged(50, k, &[3]))).await;
            }
            let (ca, cb) = (count(a, 50, 0), count(&b, 50, 0));
            if (ca, cb) != (2, 2) {
                return Err((
                    "registered-not-exactly-once".into(),
                    format!("4 round-robin sends over the admitted peer and one more peer: {ca} + {cb} deliveries (want 2 + 2)"),
                ));
            }
        }
        "REQ" => {
            for k in 0..4u32 {
                if !matches!(sim::complete(sock.send(&rc::tagged(50, k, &[3]))).await, Ok(Ok(()))) {
                    break;
                }
                // whoever got it answers
                for peer in [a, &b] {
                    if tap_has_tag(&peer.out_msgs().unwrap_or_default(), 50, k, 1) {
                        let mut reply = vec![vec![]];
                        reply.extend(rc::tagged(51, k, &[1]));
                        peer.send(&reply);
                    }
                }
                let _ = recv_now(sock).await;
            }
            let (ca, cb) = (count(a, 50, 1), count(&b, 50, 1));
            if (ca, cb) != (2, 2) {
                return Err((
                    "registered-not-exactly-once".into(),
                    format!("4 REQ round trips over the admitted peer and one more peer: {ca} + {cb} requests (want 2 + 2)"),
                ));
            }
        }
        "PUB" | "XPUB" => {
            // b subscribes too; one publish = one copy each
            b.send(&[vec![1u8]]);
            if ty == "XPUB" {
                let _ = recv_now(sock).await;
            }
            sim::settle().await;
            let _ = sim::complete(sock.send(&rc::tagged(50, 0, &[3]))).await;
            let (ca, cb) = (count(a, 50, 0), count(&b, 50, 0));
            if (ca, cb) != (1, 1) {
                return Err((
                    "registered-not-exactly-once".into(),
                    format!("one publish: {ca} copies to the admitted peer, {cb} to the other (want 1 + 1)"),
                ));
            }
        }
        _ => {
            // receiving side: one more message from A arrives exactly once
            let payload = rc::tagged(52, 0, &[2]);
            let wire = match ty {
                "REP" => {
                    let mut w = vec![vec![]];
                    w.extend(payload.clone());
                    w
                }
                "XPUB" => vec![payload.concat()],
                _ => payload.clone(),
            };
            a.conn.feed(&rc::message(&wire));
            let mut n = 0;
            for _ in 0..4 {
                match recv_now(sock).await {
                    Some(Ok(_)) => n += 1,
                    Some(Err(_)) => {}
                    None => break,
                }
            }
            if n != 1 {
                return Err((
                    "registered-not-exactly-once".into(),
                    format!("one message from the admitted peer was returned {n} times"),
                ));
            }
        }
    }
    let _ = p;
    Ok(())
}

fn compat_queries(ctx: &mut Ctx) {
    for a in NAMES12 {
        for b in NAMES12 {
            let (ta, tb) = (socket_type_of(a).unwrap(), socket_type_of(b).unwrap());
            ctx.eval(hash_str(&format!("compat/{a}/{b}")), true);
            ctx.count("compat_queries");
            let case = json!({"kind": "compat"});
            let r1 = catch_unwind(AssertUnwindSafe(|| ta.compatible(tb)));
            let r2 = catch_unwind(AssertUnwindSafe(|| tb.compatible(ta)));
            let _ = crate::take_last_panic();
            let want = rfc_compatible(a, b);
            match (r1, r2) {
                (Ok(x), Ok(y)) => {
                    if x != y {
                        ctx.violation_with(
                            "C04/compatible/asymmetric",
                            format!("{a}.compatible({b})={x} but {b}.compatible({a})={y}"),
                            case,
                        );
                    } else if x != want {
                        ctx.violation_with(
                            "C04/compatible/differs-from-rfc",
                            format!("{a}.compatible({b})={x}, RFC table says {want}"),
                            case,
                        );
                    }
                }
                _ => ctx.violation_with(
                    "C04/compatible/panic",
                    format!("SocketType::{a}.compatible({b}) (or the reverse) panicked"),
                    case,
                ),
            }
        }
    }
}

/// Admission depends on what a peer presents, not on the socket's history: after hundreds of
/// rejected (and abandoned) handshakes on one socket a valid peer is admitted like the first.
async fn admission_after_many_rejections(ctx: &mut Ctx, local: &str, case: &Value) {
    let mut sock = Sock::new(local, None);
    let pty = peer_type_for(local);
    let mut r = Rng::keyed(hash_str(local), &[4, 0x4E7]);
    for k in 0..260u32 {
        let (conn, rd, wr) = Conn::new();
        let bytes: Vec<u8> = match k % 5 {
            0 => rc::handshake("PAIR", None),                       // incompatible type
            1 => rc::greeting_with((2, 1), b"NULL", 0xFF, 0x7F, 0), // old version
            2 => r.bytes(80),                                       // garbage
            3 => rc::greeting()[..20].to_vec(),                     // stalls, then abandoned
            _ => {
                let mut v = rc::greeting();
                v.extend(rc::message(&[b"hello".to_vec()]));
                v
            }
        };
        conn.feed(&bytes);
        if k % 5 != 3 {
            conn.close_full(crate::pipe::EndKind::Eof);
        }
        let mut att = Managed::new(attach_future(sock.backend(), rd, wr));
        let res = att.drive().await;
        drop(att); // (a stalled one is abandoned here)
        if matches!(res, Ok(Some(Ok(_)))) {
            ctx.violation_with("C04/admitted-but-must-reject/history", format!("{local}: hostile handshake #{k} was admitted"), case.clone());
            return;
        }
        ctx.count("rejected_handshakes_before_a_valid_one");
    }
    sim::settle().await;
    match Peer::attach(&sock, pty, Some(b"late-but-valid")).await {
        Ok(p) => {
            if let Err(e) = exchange_with(&mut sock, &p, 77).await {
                ctx.violation_with(&format!("C04/admitted-peer-unusable/{local}"), format!("after 260 rejected handshakes: {e}"), case.clone());
                return;
            }
            ctx.count("valid_peers_admitted_after_many_rejections");
        }
        Err(e) => ctx.violation_with(
            &format!("C04/rejected-but-must-admit/{local}-{pty}"),
            format!("{local}: after 260 rejected or abandoned handshakes on this socket a well-formed compatible {pty} peer was refused: {e}"),
            case.clone(),
        ),
    }
}

/// "…or else a fresh unique one": an identity the socket generates never equals one that is
/// registered already — also when a peer announces the identities the generator is about
/// to hand out (which it can, if they are predictable from the ones already seen).
async fn generated_identities(ctx: &mut Ctx, local: &str, case: &Value) {
    let sock = Sock::new(local, None);
    let pty = peer_type_for(local);
    let mut ids: Vec<(String, Vec<u8>)> = Vec::new();
    let mut keep = Vec::new();
    for k in 0..2 {
        match Peer::attach(&sock, pty, None).await {
            Ok(p) => {
                ids.push((format!("generated #{k}"), p.id.clone()));
                keep.push(p);
            }
            Err(e) => {
                ctx.violation_with(&format!("C04/rejected-but-must-admit/{local}-{pty}"), format!("anonymous {pty} peer: {e}"), case.clone());
                return;
            }
        }
    }
    // the successors of what was generated so far, read as big-endian counters
    let last = ids[1].1.clone();
    for delta in 1..=4u32 {
        let mut cand = last.clone();
        let mut carry = delta;
        for b in cand.iter_mut().rev() {
            let v = *b as u32 + carry;
            *b = (v & 0xFF) as u8;
            carry = v >> 8;
            if carry == 0 {
                break;
            }
        }
        if cand.is_empty() || cand.len() > 255 || ids.iter().any(|(_, i)| *i == cand) {
            continue;
        }
        match Peer::attach(&sock, pty, Some(&cand)).await {
            Ok(p) => {
                if p.id != cand {
                    ctx.violation_with("C04/identity-announced-not-used", format!("announced {} registered as {}", rc::hex(&cand), rc::hex(&p.id)), case.clone());
                    return;
                }
                ids.push((format!("announced (last generated + {delta})"), p.id.clone()));
                keep.push(p);
            }
            Err(e) => {
                ctx.violation_with(&format!("C04/rejected-but-must-admit/{local}-{pty}"), format!("{pty} peer announcing a {}-byte identity: {e}", cand.len()), case.clone());
                return;
            }
        }
    }
    for k in 2..6 {
        match Peer::attach(&sock, pty, None).await {
            Ok(p) => {
                if let Some((what, _)) = ids.iter().find(|(_, i)| *i == p.id) {
                    ctx.violation_with(
                        "C04/generated-identity-not-unique",
                        format!("{local}: anonymous peer #{k} was given identity {}, which is already registered ({what}); generated so far: {:?}", rc::hex(&p.id), ids.iter().map(|(w, i)| format!("{w}={}", rc::hex(i))).collect::<Vec<_>>()),
                        case.clone(),
                    );
                    return;
                }
                ids.push((format!("generated #{k}"), p.id.clone()));
                keep.push(p);
            }
            Err(e) => {
                ctx.violation_with(&format!("C04/rejected-but-must-admit/{local}-{pty}"), format!("anonymous {pty} peer: {e}"), case.clone());
                return;
            }
        }
    }
    ctx.add("generated_identities_checked_against_announced_successors", 6);
}

/// The same iff over the real transports, with another connection sitting silent in the
/// middle of its own handshake: the valid peer is admitted, the incompatible one is
/// closed and reported, whatever else is connected to the listener.
async fn rig_admission(local: &str, transport: &str, stall_at: usize, mon_when: &str) -> Result<u64, (String, String)> {
    use crate::rig::{self, Raw, ReadEnd, WAIT};
    use futures::StreamExt;
    use std::time::Duration;
    use zeromq::SocketEvent;
    let inc = |e: String| ("inconclusive".to_string(), e);
    let mut sock = Sock::new(local, None);
    // the application may ask for its monitor before it binds, afterwards, or again
    // (the newest one is the one it holds)
    let early = if mon_when != "after" { Some(sock.monitor()) } else { None };
    let ep = sock.bind(&rig::bind_endpoint(transport)).await.map_err(inc)?;
    let mut mon = match (mon_when, early) {
        ("before", Some(m)) => m,
        (_, early) => {
            drop(early);
            sock.monitor()
        }
    };
    let hs = rc::handshake(peer_type_for(local), Some(b"staller"));
    let mut staller = Raw::connect(&ep).await.map_err(|e| inc(e.to_string()))?;
    staller.write_all(&hs[..stall_at.min(hs.len() - 1)]).await.map_err(|e| inc(e.to_string()))?;
    tokio::time::sleep(Duration::from_millis(20)).await;
    // valid peer
    let mut good = Raw::connect(&ep).await.map_err(|e| inc(e.to_string()))?;
    if let Err(e) = good.handshake(peer_type_for(local), Some(b"good")).await {
        if rig::canary_ok().await {
            return Err((
                format!("C04/valid-peer-not-admitted-over-transport/{transport}"),
                format!("{local} bound on {transport}: a valid {} peer was not answered while another connection sat at byte {stall_at} of its handshake: {e}", peer_type_for(local)),
            ));
        }
        return Err(inc(format!("handshake failed while the canary was slow: {e}")));
    }
    // incompatible peer: must be closed, never answered with application traffic
    let mut bad = Raw::connect(&ep).await.map_err(|e| inc(e.to_string()))?;
    let _ = bad.write_all(&rc::handshake("PAIR", Some(b"bad"))).await;
    let mut acc = Vec::new();
    let closed = loop {
        match bad.read_exact_or(&mut acc, 1, WAIT).await {
            Ok(()) => continue,
            Err(ReadEnd::Eof) | Err(ReadEnd::Error(_)) => break true,
            Err(ReadEnd::Timeout) => break false,
        }
    };
    if !closed {
        if rig::canary_ok().await {
            return Err((
                format!("C04/rejected-connection-not-closed-over-transport/{transport}"),
                format!("{local} on {transport}: a PAIR peer's connection was still open after {WAIT:?}"),
            ));
        }
        return Err(inc("rejected peer not closed while the canary was slow".into()));
    }
    let (mut accepted, mut failed) = (0, 0);
    let deadline = std::time::Instant::now() + WAIT;
    while (accepted < 1 || failed < 1) && std::time::Instant::now() < deadline {
        match tokio::time::timeout(Duration::from_millis(50), mon.next()).await {
            Ok(Some(SocketEvent::Accepted(..))) => accepted += 1,
            Ok(Some(SocketEvent::AcceptFailed(_))) => failed += 1,
            Ok(None) => break,
            _ => {}
        }
    }
    if accepted != 1 || failed < 1 {
        if rig::canary_ok().await {
            return Err((
                format!("C04/admission-not-reported-over-transport/{transport}"),
                format!("{local} on {transport} (monitor requested {mon_when} bind): one valid and one incompatible peer connected; the monitor the application holds saw {accepted} accepted, {failed} failed"),
            ));
        }
        return Err(inc("monitor wait expired while the canary was slow".into()));
    }
    drop(staller);
    let _ = tokio::time::timeout(WAIT, sock.close()).await;
    Ok(1)
}

impl Prop for C04 {
    fn id(&self) -> &'static str {
        "C04"
    }

    fn cases(&self, tier: Tier, seed: u64) -> Vec<Value> {
        let mut v = vec![json!({"kind": "compat"})];
        for local in ALL_TYPES {
            for transport in ["tcp4", "ipc"] {
                for (k, stall_at) in [0usize, 10, 64, 70].into_iter().enumerate() {
                    let when = ["before", "after", "replaced", "after"][k];
                    v.push(json!({"kind": "rig_admission", "local": local, "transport": transport, "stall_at": stall_at, "monitor": when}));
                }
            }
        }
        for local in ALL_TYPES {
            for k in 0..4 {
                v.push(json!({"kind": "generated_ids", "local": local, "k": k}));
            }
            v.push(json!({"kind": "after_rejections", "local": local}));
            v.push(json!({"kind": "sig_sweep", "local": local, "delivery": "whole"}));
            v.push(json!({"kind": "sig_sweep", "local": local, "delivery": "byte-at-a-time"}));
        }
        for local in ALL_TYPES {
            for peer in PEER_TYPES {
                v.push(json!({"kind": "unit", "local": local, "peer": peer, "delivery": "whole", "seed": seed}));
                {
                    let _ = tier;
                    v.push(json!({"kind": "unit", "local": local, "peer": peer, "delivery": "byte-at-a-time", "seed": seed}));
                    v.push(json!({"kind": "unit", "local": local, "peer": peer, "delivery": "ready-split", "seed": seed}));
                    if tier == Tier::Thorough {
                        for k in 0..6u64 {
                            v.push(json!({"kind": "unit", "local": local, "peer": peer, "delivery": format!("chunks-{}", crate::prng::mix(seed ^ k)), "seed": seed}));
                        }
                    }
                }
            }
        }
        v
    }

    fn run(&self, case: &Value, ctx: &mut Ctx) {
        match s(case, "kind") {
            "compat" => compat_queries(ctx),
            "point" => {
                let p = Point::from_json(case);
                let delivery = s(case, "delivery").to_string();
                sim::run(run_point(ctx, &p, &delivery, true));
            }
            "after_rejections" => {
                ctx.eval(hash_str(&case.to_string()), true);
                sim::run(admission_after_many_rejections(ctx, s(case, "local"), case));
            }
            "generated_ids" => {
                ctx.eval(hash_str(&case.to_string()), true);
                sim::run(generated_identities(ctx, s(case, "local"), case));
            }
            "rig_admission" => {
                ctx.eval(hash_str(&case.to_string()), true);
                ctx.sample("rig_admission", || case.clone());
                let (res, _) = crate::rig::run(2, rig_admission(s(case, "local"), s(case, "transport"), u(case, "stall_at") as usize, case["monitor"].as_str().unwrap_or("before")));
                match res {
                    Ok(n) => {
                        ctx.add("rig_admissions_beside_a_stalled_handshake", n);
                        ctx.count(&format!("rig_transport/{}", s(case, "transport")));
                        ctx.count(&format!("rig_monitor_requested/{}", case["monitor"].as_str().unwrap_or("before")));
                    }
                    Err((sig, msg)) if sig == "inconclusive" => ctx.inconclusive(format!("C04 rig: {msg}")),
                    Err((sig, msg)) => ctx.violation_with(&sig, msg, case.clone()),
                }
            }
            "sig_sweep" => {
                // every wrong value of either signature byte, everything else valid
                let local = s(case, "local");
                ctx.sample("sig_sweep", || case.clone());
                for byte in ["b0", "b9"] {
                    for val in 0..=255u8 {
                        if (byte == "b0" && val == 0xFF) || (byte == "b9" && val == 0x7F) {
                            continue;
                        }
                        let p = Point {
                            local: local.into(),
                            peer: crate::sock::peer_type_for(local).into(),
                            version: (3, 0),
                            mech: "NULL".into(),
                            sig: format!("{byte}:{val}"),
                            ident: "none".into(),
                            first: "ready".into(),
                        };
                        ctx.count("signature_byte_values_swept");
                        sim::run(run_point(ctx, &p, s(case, "delivery"), val % 16 == 1));
                    }
                }
            }
            "unit" => {
                let local = s(case, "local");
                let peer = s(case, "peer");
                let delivery = s(case, "delivery");
                let mut r = Rng::keyed(u(case, "seed"), &[4, hash_str(local), hash_str(peer)]);
                ctx.sample("unit", || case.clone());
                for version in VERSIONS {
                    for mech in MECHS {
                        for sig in SIGS {
                            for ident in IDENTS {
                                for first in FIRST {
                                    let p = Point {
                                        local: local.into(),
                                        peer: peer.into(),
                                        version,
                                        mech: mech.into(),
                                        sig: sig.into(),
                                        ident: ident.into(),
                                        first: first.into(),
                                    };
                                    let follow = p.reject_reason().is_none()
                                        || ctx.tier == Tier::Thorough
                                        || r.chance(1, 10);
                                    if p.reject_reason().is_none() {
                                        ctx.sample("admitted_point", || p.to_json(delivery));
                                    }
                                    sim::run(run_point(ctx, &p, delivery, follow));
                                }
                            }
                        }
                    }
                }
            }
            _ => ctx.inconclusive(format!("unknown case {case}")),
        }
    }

    fn floors(&self, _tier: Tier) -> Vec<(&'static str, u64)> {
        let mut f = vec![
            ("compat_queries", 144),
            ("admitted", 500),
            ("admitted_follow_up", 500),
            ("rejected", 100_000),
            ("rejected_follow_up", 5_000),
            ("rejected/signature", 1000),
            ("signature_byte_values_swept", 9000),
            ("valid_peers_admitted_after_many_rejections", 9),
            ("generated_identities_checked_against_announced_successors", 100),
            ("rig_admissions_beside_a_stalled_handshake", 60),
            ("rejected/version", 1000),
            ("rejected/mechanism", 1000),
            ("rejected/first-item-not-READY", 1000),
            ("rejected/socket-type-missing", 10),
            ("rejected/socket-type-unknown", 10),
            ("rejected/socket-type-incompatible", 100),
            ("rejected/identity-too-long", 50),
            ("admitted/ident/none", 10),
            ("admitted/ident/empty", 10),
            ("admitted/ident/255", 10),
            ("admitted/version/3.1", 10),
            ("admitted/version/4.0", 10),
            ("admitted/mech/PLAIN", 10),
            ("admitted/mech/CURVE", 10),
        ];
        f.push(("local/XPUB", 1000));
        f
    }
}
