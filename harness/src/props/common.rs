//! Helpers shared by the property modules.

use crate::prng::{hash_bytes, mix};
use crate::refcodec::{self as rc, Frames};
use crate::sock::{from_msg, to_msg};
use bytes::BytesMut;
use serde_json::{json, Value};
use zeromq::__verif::codec::{Codec, Item};

/// Boundary grid of frame lengths (C01).
pub const GRID: [usize; 11] = [0, 1, 2, 254, 255, 256, 257, 65534, 65535, 65536, 65537];

pub fn lib_encode(frames: &[Vec<u8>]) -> Result<Vec<u8>, String> {
    let mut c = Codec::new();
    let mut dst = BytesMut::new();
    c.encode_message(to_msg(frames), &mut dst)?;
    Ok(dst.to_vec())
}

/// Item as decoded by the library, in a comparable form.
#[derive(Clone, Debug, PartialEq, Eq)]
pub enum LItem {
    Greeting {
        version: (u8, u8),
        mechanism: String,
        as_server: bool,
    },
    Command {
        name: String,
        props: Vec<(String, Vec<u8>)>,
    },
    Message(Frames),
}

impl LItem {
    pub fn from_item(i: Item) -> LItem {
        match i {
            Item::Greeting {
                version,
                mechanism,
                as_server,
            } => LItem::Greeting {
                version,
                mechanism,
                as_server,
            },
            Item::Command { name, props } => LItem::Command { name, props },
            Item::Message(m) => LItem::Message(from_msg(&m)),
        }
    }

    pub fn summary(&self) -> String {
        match self {
            LItem::Greeting { version, mechanism, .. } => {
                format!("greeting {}.{} {}", version.0, version.1, mechanism)
            }
            LItem::Command { name, props } => format!(
                "command {name} {:?}",
                props
                    .iter()
                    .map(|(k, v)| format!("{k}={}", rc::hex(&v[..v.len().min(8)])))
                    .collect::<Vec<_>>()
            ),
            LItem::Message(f) => format!("message {}", rc::frames_summary(f)),
        }
    }
}

/// Reference item in the same comparable form (commands other than READY
/// with parseable properties keep their raw data as a single pseudo-property).
pub fn ritem_to_litem(i: &rc::RItem) -> LItem {
    match i {
        rc::RItem::Greeting(g) => LItem::Greeting {
            version: g.version,
            mechanism: String::from_utf8_lossy(&g.mechanism_name().unwrap_or_default()).into_owned(),
            as_server: g.as_server == 1,
        },
        rc::RItem::Command { name, data, .. } => {
            let mut props: Vec<(String, Vec<u8>)> = rc::parse_props(data)
                .unwrap_or_default()
                .into_iter()
                .map(|(k, v)| (String::from_utf8_lossy(&k).into_owned(), v))
                .collect();
            // the library keeps properties in a map: last one wins
            let mut dedup: Vec<(String, Vec<u8>)> = Vec::new();
            for (k, v) in props.drain(..) {
                if let Some(e) = dedup.iter_mut().find(|e| e.0 == k) {
                    e.1 = v;
                } else {
                    dedup.push((k, v));
                }
            }
            dedup.sort();
            LItem::Command {
                name: String::from_utf8_lossy(name).into_owned(),
                props: dedup,
            }
        }
        rc::RItem::Message { frames, .. } => LItem::Message(frames.clone()),
    }
}

/// The production decoder driven the way `FramedRead` drives it: bytes are
/// appended to one buffer and `decode` is called until it returns `Ok(None)`.
pub struct LibDecoder {
    pub codec: Codec,
    pub buf: BytesMut,
    pub failed: Option<String>,
}

impl LibDecoder {
    pub fn new() -> Self {
        LibDecoder {
            codec: Codec::new(),
            buf: BytesMut::with_capacity(8 * 1024),
            failed: None,
        }
    }

    /// Decoder that has already consumed a valid greeting.
    pub fn primed() -> Self {
        let mut d = Self::new();
        let items = d.feed(&rc::greeting());
        debug_assert_eq!(items.len(), 1);
        d
    }

    pub fn feed(&mut self, chunk: &[u8]) -> Vec<LItem> {
        let mut out = Vec::new();
        if self.failed.is_some() {
            return out;
        }
        self.buf.extend_from_slice(chunk);
        loop {
            match self.codec.decode(&mut self.buf) {
                Ok(Some(i)) => out.push(LItem::from_item(i)),
                Ok(None) => break,
                Err(e) => {
                    self.failed = Some(e);
                    break;
                }
            }
        }
        out
    }
}

pub fn shape_hash(lens: &[usize]) -> u64 {
    let mut h = 0x5eed_u64;
    for l in lens {
        h = mix(h ^ (*l as u64));
    }
    mix(h ^ lens.len() as u64)
}

pub fn frames_hash(frames: &[Vec<u8>]) -> u64 {
    let mut h = 0xF4A3_u64;
    for f in frames {
        h = mix(h ^ f.len() as u64);
        h = mix(h ^ hash_bytes(&f[..f.len().min(64)]));
    }
    h
}

/// JSON form of a message for witnesses/samples: lengths + hex of short frames.
pub fn frames_json(frames: &[Vec<u8>]) -> Value {
    Value::Array(
        frames
            .iter()
            .map(|f| {
                if f.len() <= 32 {
                    json!({"len": f.len(), "hex": rc::hex(f)})
                } else {
                    json!({"len": f.len(), "head": rc::hex(&f[..16])})
                }
            })
            .collect(),
    )
}

pub fn u(case: &Value, key: &str) -> u64 {
    case[key].as_u64().unwrap_or(0)
}

pub fn s<'a>(case: &'a Value, key: &str) -> &'a str {
    case[key].as_str().unwrap_or("")
}

pub fn usizes(case: &Value, key: &str) -> Vec<usize> {
    case[key]
        .as_array()
        .map(|a| a.iter().map(|x| x.as_u64().unwrap_or(0) as usize).collect())
        .unwrap_or_default()
}

/// Deterministic body of the given length (keyed fill).
pub fn body(key: u64, idx: usize, len: usize) -> Vec<u8> {
    let mut r = crate::prng::Rng::keyed(0xB0D1, &[key, idx as u64]);
    r.bytes(len)
}

// ------------------------------------------------ healthy-peer exchange

use crate::sim;
use crate::sock::{peer_type_for, Peer, Sock};

/// Drive `recv` until a result is there or the socket is quiescent.
pub async fn recv_now(sock: &mut Sock) -> Option<Result<Frames, String>> {
    let mut m = sim::Managed::new(sock.recv());
    match m.drive().await {
        Ok(Some(r)) => Some(r),
        _ => None,
    }
}

/// Does `tap_msgs` contain a message whose tag is (origin, seq)?
pub fn tap_has_tag(msgs: &[Frames], origin: u16, seq: u32, skip: usize) -> bool {
    msgs.iter().any(|m| {
        let sk = skip.min(m.len().saturating_sub(1));
        rc::parse_tag(m, sk).map(|t| t.origin == origin && t.seq == seq).unwrap_or(false)
    })
}

/// Attach a fresh well-behaved peer to `sock` and exchange tagged messages in
/// every direction the socket type supports ("other connections of the same
/// socket keep working"). `origin` must be unique per call on one socket.
pub async fn healthy_exchange(sock: &mut Sock, origin: u16) -> Result<Peer, String> {
    let ty = sock.ty();
    let ident = format!("good-{origin}");
    let peer = Peer::attach(sock, peer_type_for(ty), Some(ident.as_bytes()))
        .await
        .map_err(|e| format!("healthy {} peer could not complete its handshake: {e}", peer_type_for(ty)))?;
    exchange_with(sock, &peer, origin).await?;
    Ok(peer)
}

/// Exchange tagged messages with an already attached scripted peer in every
/// direction the socket type supports.
pub async fn exchange_with(sock: &mut Sock, peer: &Peer, origin: u16) -> Result<(), String> {
    let ty = sock.ty();
    // ---- inbound
    match ty {
        "PULL" | "SUB" | "DEALER" | "ROUTER" | "REP" | "XPUB" => {
            let payload = rc::tagged(origin, 1, &[3, 0, 40]);
            let (wire, want): (Frames, Frames) = match ty {
                "REP" => {
                    let mut w = vec![vec![]];
                    w.extend(payload.clone());
                    (w, payload.clone())
                }
                "ROUTER" => {
                    let mut want = vec![peer.id.clone()];
                    want.extend(payload.clone());
                    (payload.clone(), want)
                }
                "XPUB" => {
                    let mut f = vec![1u8];
                    f.extend(payload.concat());
                    (vec![f.clone()], vec![f])
                }
                _ => (payload.clone(), payload.clone()),
            };
            peer.send(&wire);
            let mut seen = Vec::new();
            let mut ok = false;
            for _ in 0..12 {
                match recv_now(sock).await {
                    Some(Ok(m)) if m == want => {
                        ok = true;
                        break;
                    }
                    Some(Ok(m)) => seen.push(format!("Ok{}", rc::frames_summary(&m))),
                    Some(Err(e)) => seen.push(format!("Err({e})")),
                    None => {
                        seen.push("pending".into());
                        break;
                    }
                }
            }
            if !ok {
                return Err(format!(
                    "message from a healthy {} peer was not received by {ty}; recv results: {seen:?}",
                    peer.ty
                ));
            }
        }
        _ => {}
    }
    // ---- outbound
    match ty {
        "REP" => {
            let reply = rc::tagged(origin, 2, &[5]);
            match sim::complete(sock.send(&reply)).await {
                Ok(Ok(())) => {}
                other => return Err(format!("REP reply to the healthy peer failed: {other:?}")),
            }
            let msgs = peer.out_msgs()?;
            if !tap_has_tag(&msgs, origin, 2, 1) {
                return Err("REP reply did not reach the healthy requester".into());
            }
        }
        "ROUTER" => {
            let mut m = vec![peer.id.clone()];
            m.extend(rc::tagged(origin, 2, &[5]));
            match sim::complete(sock.send(&m)).await {
                Ok(Ok(())) => {}
                other => return Err(format!("ROUTER send to the healthy peer failed: {other:?}")),
            }
            if !tap_has_tag(&peer.out_msgs()?, origin, 2, 0) {
                return Err("ROUTER message did not reach the healthy peer".into());
            }
        }
        "PUSH" | "DEALER" => {
            let mut ok = false;
            let mut errs = Vec::new();
            for k in 0..6u32 {
                match sim::complete(sock.send(&rc::tagged(origin, 10 + k, &[5]))).await {
                    Ok(Ok(())) => {}
                    other => errs.push(format!("{other:?}")),
                }
                if (0..=k).any(|j| tap_has_tag(&peer.out_msgs().unwrap_or_default(), origin, 10 + j, 0)) {
                    ok = true;
                    break;
                }
            }
            if !ok {
                return Err(format!("6 sends on {ty} never reached the healthy peer; errors: {errs:?}"));
            }
        }
        "PUB" | "XPUB" => {
            peer.send(&[vec![1u8]]);
            if ty == "XPUB" {
                for _ in 0..12 {
                    match recv_now(sock).await {
                        Some(Ok(m)) if m == vec![vec![1u8]] => break,
                        Some(_) => continue,
                        None => break,
                    }
                }
            }
            sim::settle().await;
            match sim::complete(sock.send(&rc::tagged(origin, 2, &[5]))).await {
                Ok(Ok(())) => {}
                other => return Err(format!("{ty} publish failed: {other:?}")),
            }
            if !tap_has_tag(&peer.out_msgs()?, origin, 2, 0) {
                return Err(format!("{ty} publish did not reach the healthy subscriber"));
            }
        }
        "REQ" => {
            let mut ok = false;
            let mut log = Vec::new();
            for k in 0..4u32 {
                match sim::complete(sock.send(&rc::tagged(origin, 10 + k, &[5]))).await {
                    Ok(Ok(())) => {}
                    other => {
                        log.push(format!("send: {other:?}"));
                        continue;
                    }
                }
                let arrived = tap_has_tag(&peer.out_msgs().unwrap_or_default(), origin, 10 + k, 1);
                if arrived {
                    let mut reply = vec![vec![]];
                    reply.extend(rc::tagged(origin, 100 + k, &[2]));
                    peer.send(&reply);
                }
                match recv_now(sock).await {
                    Some(Ok(m)) => {
                        if rc::parse_tag(&m, 0).map(|t| t.seq == 100 + k).unwrap_or(false) {
                            ok = true;
                            break;
                        }
                        log.push(format!("recv: unexpected {}", rc::frames_summary(&m)));
                    }
                    Some(Err(e)) => log.push(format!("recv: Err({e})")),
                    None => {
                        log.push("recv: pending".into());
                        break;
                    }
                }
            }
            if !ok {
                return Err(format!("REQ could not complete a request/reply with the healthy peer: {log:?}"));
            }
        }
        _ => {}
    }
    Ok(())
}

/// Exchange with every peer of `peers` (all live peers of the socket). REQ is
/// special: its requests rotate over all peers, so whoever receives a request
/// answers it, until every peer has served at least one round trip.
pub async fn exchange_all(sock: &mut Sock, peers: &[&Peer], origin: u16) -> Result<(), String> {
    if sock.ty() != "REQ" {
        for (k, p) in peers.iter().enumerate() {
            exchange_with(sock, p, origin + k as u16).await?;
        }
        return Ok(());
    }
    let mut served = vec![false; peers.len()];
    let mut log = Vec::new();
    for k in 0..(2 * peers.len() + 2) as u32 {
        if served.iter().all(|s| *s) {
            break;
        }
        match sim::complete(sock.send(&rc::tagged(origin, 10 + k, &[5]))).await {
            Ok(Ok(())) => {}
            other => {
                log.push(format!("send: {other:?}"));
                continue;
            }
        }
        let who = peers
            .iter()
            .position(|p| tap_has_tag(&p.out_msgs().unwrap_or_default(), origin, 10 + k, 1));
        match who {
            Some(i) => {
                let mut reply = vec![vec![]];
                reply.extend(rc::tagged(origin, 100 + k, &[2]));
                peers[i].send(&reply);
                match recv_now(sock).await {
                    Some(Ok(m)) if rc::parse_tag(&m, 0).map(|t| t.seq == 100 + k).unwrap_or(false) => served[i] = true,
                    other => log.push(format!("recv after peer {i} replied: {other:?}")),
                }
            }
            None => {
                log.push(format!("request {k} reached none of the live peers"));
                // whoever got it will not answer: observe that (Err) or give up
                match recv_now(sock).await {
                    Some(_) => {}
                    None => return Err(format!("REQ request went to a connection that is not a live peer and recv waits for it: {log:?}")),
                }
            }
        }
    }
    if served.iter().all(|s| *s) {
        Ok(())
    } else {
        Err(format!("REQ could not complete a round trip with every live peer (served {served:?}): {log:?}"))
    }
}
