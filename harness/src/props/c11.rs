//! C11 — PUB/XPUB deliver a message to a subscriber iff a subscription is a prefix.

use super::common::*;
use crate::prng::{hash_str, mix, Rng};
use crate::refcodec::{self as rc, Frames};
use crate::report::{Ctx, Tier};
use crate::sim;
use crate::sock::{Peer, Sock};
use crate::Prop;
use serde_json::{json, Value};

pub struct C11;

const TOPICS: [&[u8]; 7] = [b"", b"a", b"ab", b"abc", b"b", &[0x00], &[0x01]];
const PUBLISH: [&[u8]; 7] = [b"", b"a", b"ab", b"abc", b"abcd", b"b", b"ba"];
/// history alphabet: 0..7 = sub topic, 7..14 = unsub topic, 14.. = garbage
const NOPS: usize = 19;

fn op_name(op: usize) -> String {
    match op {
        0..=6 => format!("sub({})", rc::hex(TOPICS[op])),
        7..=13 => format!("unsub({})", rc::hex(TOPICS[op - 7])),
        14 => "garbage:empty-message".into(),
        15 => "garbage:first-byte-2".into(),
        16 => "garbage:first-byte-ff".into(),
        17 => "garbage:two-frames".into(),
        _ => "garbage:command".into(),
    }
}

/// wire bytes of a history op + the subscription message as XPUB should hand it over (if valid)
fn op_wire(op: usize) -> (Vec<u8>, Option<Frames>) {
    match op {
        0..=6 => {
            let mut f = vec![1u8];
            f.extend_from_slice(TOPICS[op]);
            (rc::message(&[f.clone()]), Some(vec![f]))
        }
        7..=13 => {
            let mut f = vec![0u8];
            f.extend_from_slice(TOPICS[op - 7]);
            (rc::message(&[f.clone()]), Some(vec![f]))
        }
        14 => (rc::message(&[vec![]]), None),
        15 => (rc::message(&[vec![2, b'a']]), None),
        16 => (rc::message(&[vec![0xFF, b'a']]), None),
        17 => (rc::message(&[vec![1, b'a'], vec![b'x']]), None),
        _ => (rc::ready(b"SUB", None), None),
    }
}

fn model_apply(set: &mut Vec<Vec<u8>>, op: usize) {
    match op {
        0..=6 => set.push(TOPICS[op].to_vec()),
        7..=13 => {
            if let Some(i) = set.iter().position(|t| t == TOPICS[op - 7]) {
                set.remove(i);
            }
        }
        _ => {}
    }
}

fn model_matches(set: &[Vec<u8>], frame0: &[u8]) -> bool {
    set.iter().any(|t| frame0.len() >= t.len() && &frame0[..t.len()] == t.as_slice())
}

fn note_state(ctx: &mut Ctx, set: &[Vec<u8>]) {
    let mut sorted = set.to_vec();
    sorted.sort();
    let mut h = 11u64;
    for t in &sorted {
        h = mix(h ^ crate::prng::hash_bytes(t) ^ t.len() as u64);
    }
    ctx.state(h);
    let mut d = sorted.clone();
    d.dedup();
    if d.len() < sorted.len() {
        ctx.count("states_with_duplicate_subscriptions");
    }
    if sorted.iter().any(|a| sorted.iter().any(|b| a != b && b.starts_with(a))) {
        ctx.count("states_with_overlapping_prefixes");
    }
}

struct Subscriber {
    peer: Peer,
    set: Vec<Vec<u8>>,
    handed: Vec<Frames>, // valid subscription messages sent so far (for XPUB)
    seen_msgs: usize,
}

/// publish every probe frame and compare each subscriber's tap with the model
async fn publish_round(ctx: &mut Ctx, sock: &mut Sock, subs: &mut [Subscriber], seq: &mut u32, case: &Value, hist: &str) -> bool {
    for f0 in PUBLISH {
        for second in [false, true] {
            let mut msg: Frames = vec![f0.to_vec()];
            if second {
                msg.push(b"second".to_vec());
            }
            msg.extend(rc::tagged(7, *seq, &[]));
            *seq += 1;
            match sim::complete(sock.send(&msg)).await {
                Ok(Ok(())) => {}
                other => {
                    ctx.violation_with(
                        &format!("C11/publish-failed/{}", sock.ty()),
                        format!("publish failed: {other:?}"),
                        case.clone(),
                    );
                    return false;
                }
            }
            ctx.count("publishes");
            for (i, sb) in subs.iter_mut().enumerate() {
                let msgs = match sb.peer.out_msgs() {
                    Ok(m) => m,
                    Err(e) => {
                        ctx.violation_with(&format!("C11/tap-corrupted/{}", sock.ty()), e, case.clone());
                        return false;
                    }
                };
                let newm = &msgs[sb.seen_msgs.min(msgs.len())..];
                let want = model_matches(&sb.set, f0);
                ctx.count("delivery_decisions");
                if f0.is_empty() || sb.set.iter().any(|t| t.as_slice() == f0) {
                    ctx.count("topic_equal_to_frame0");
                }
                if sb.set.iter().any(|t| t.len() > f0.len()) {
                    ctx.count("topic_longer_than_frame0");
                }
                let ok = if want { newm.len() == 1 && newm[0] == msg } else { newm.is_empty() };
                if !ok {
                    let kind = if want && newm.is_empty() {
                        "matching-message-not-delivered"
                    } else if !want {
                        "non-matching-message-delivered"
                    } else if newm.len() > 1 {
                        "delivered-more-than-once"
                    } else {
                        "delivered-message-altered"
                    };
                    ctx.violation_with(
                        &format!("C11/{kind}/{}", sock.ty()),
                        format!(
                            "subscriber {i} after history [{hist}] has subscriptions {:?}; publish of first frame {:?}: {} copies delivered, model says {}",
                            sb.set.iter().map(|t| rc::hex(t)).collect::<Vec<_>>(),
                            String::from_utf8_lossy(f0),
                            newm.len(),
                            if want { 1 } else { 0 }
                        ),
                        case.clone(),
                    );
                    return false;
                }
                sb.seen_msgs = msgs.len();
            }
        }
    }
    true
}

/// let the socket process everything its peers sent
async fn quiesce(ctx: &mut Ctx, sock: &mut Sock, xpub_got: &mut Vec<Frames>) {
    if sock.ty() == "XPUB" {
        for _ in 0..10_000 {
            match recv_now(sock).await {
                Some(Ok(m)) => xpub_got.push(m),
                Some(Err(_)) => ctx.count("xpub_recv_errors"),
                None => break,
            }
        }
    } else {
        sim::settle().await;
    }
}

async fn run_history(ctx: &mut Ctx, ty: &str, nsubs: usize, ops: &[(usize, usize)], case: &Value) {
    let mut sock = Sock::new(ty, None);
    let mut subs = Vec::new();
    for k in 0..nsubs {
        match Peer::attach(&sock, if k % 2 == 0 { "SUB" } else { "XSUB" }, Some(format!("s{k}").as_bytes())).await {
            Ok(p) => subs.push(Subscriber { peer: p, set: vec![], handed: vec![], seen_msgs: 0 }),
            Err(e) => {
                ctx.inconclusive(format!("C11 attach: {e}"));
                return;
            }
        }
    }
    let mut seq = 0u32;
    let mut xpub_got: Vec<Frames> = Vec::new();
    let mut hist = String::new();
    for (who, op) in ops {
        let (wire, handed) = op_wire(*op);
        subs[*who].peer.conn.feed(&wire);
        model_apply(&mut subs[*who].set, *op);
        if let Some(h) = handed {
            subs[*who].handed.push(h);
        }
        if *op >= 14 {
            ctx.count(&format!("garbage/{}", op_name(*op)));
        }
        if (7..14).contains(op) {
            ctx.count("unsubscribes");
        }
        hist.push_str(&format!("{}:{} ", who, op_name(*op)));
        quiesce(ctx, &mut sock, &mut xpub_got).await;
        let snapshot = subs[*who].set.clone();
        note_state(ctx, &snapshot);
        if !publish_round(ctx, &mut sock, &mut subs, &mut seq, case, &hist).await {
            return;
        }
    }
    if ty == "XPUB" {
        // every valid subscription message handed over verbatim, in per-peer order.
        // Messages of different peers interleave freely; garbage may or may not be handed over.
        let valid: Vec<&Frames> = xpub_got
            .iter()
            .filter(|m| m.len() == 1 && !m[0].is_empty() && m[0][0] <= 1)
            .collect();
        let mut want_all: Vec<Frames> = Vec::new();
        for sb in &subs {
            want_all.extend(sb.handed.clone());
        }
        // per-peer order: because all peers draw from the same alphabet, check as multiset + per-peer subsequence
        let mut pool: Vec<&Frames> = valid.clone();
        for (i, sb) in subs.iter().enumerate() {
            let mut pos = 0usize;
            for h in &sb.handed {
                // find h in valid at or after pos (subsequence)
                match valid[pos.min(valid.len())..].iter().position(|m| *m == h) {
                    Some(k) => pos += k + 1,
                    None => {
                        ctx.violation_with(
                            "C11/xpub-subscription-message-not-handed-over-in-order",
                            format!(
                                "subscriber {i} sent {:?}; XPUB.recv returned {:?}",
                                sb.handed.iter().map(|m| rc::hex(&m[0])).collect::<Vec<_>>(),
                                valid.iter().map(|m| rc::hex(&m[0])).collect::<Vec<_>>()
                            ),
                            case.clone(),
                        );
                        return;
                    }
                }
            }
        }
        for h in &want_all {
            if let Some(k) = pool.iter().position(|m| *m == h) {
                pool.remove(k);
            }
        }
        if !pool.is_empty() || valid.len() != want_all.len() {
            ctx.violation_with(
                "C11/xpub-subscription-messages-differ",
                format!("XPUB.recv returned {} subscription messages, peers sent {}", valid.len(), want_all.len()),
                case.clone(),
            );
            return;
        }
        ctx.add("xpub_messages_handed_over", valid.len() as u64);
    }
}

impl Prop for C11 {
    fn id(&self) -> &'static str {
        "C11"
    }

    fn cases(&self, tier: Tier, seed: u64) -> Vec<Value> {
        let mut v = Vec::new();
        let maxlen = tier.pick(3, 4);
        for ty in ["PUB", "XPUB"] {
            // exhaustive histories for one subscriber, batched by the first two ops
            for a in 0..NOPS {
                v.push(json!({"kind": "exh", "ty": ty, "first": a, "maxlen": maxlen}));
            }
            for n in 1..=5usize {
                for k in 0..tier.pick(120, 800) {
                    v.push(json!({"kind": "random", "ty": ty, "subs": n, "len": 30, "seed": mix(seed ^ (k as u64) << 3 ^ n as u64)}));
                }
            }
        }
        v
    }

    fn run(&self, case: &Value, ctx: &mut Ctx) {
        let ty = s(case, "ty").to_string();
        match s(case, "kind") {
            "exh" => {
                let first = u(case, "first") as usize;
                let maxlen = u(case, "maxlen") as usize;
                ctx.sample("exhaustive_histories", || case.clone());
                // all histories starting with `first`, length 1..=maxlen
                for len in 1..=maxlen {
                    let count = NOPS.pow((len - 1) as u32);
                    for code in 0..count {
                        let mut c = code;
                        let mut ops = vec![(0usize, first)];
                        for _ in 1..len {
                            ops.push((0, c % NOPS));
                            c /= NOPS;
                        }
                        let one = json!({"kind": "history", "ty": ty, "subs": 1, "ops": ops.iter().map(|o| json!([o.0, o.1])).collect::<Vec<_>>()});
                        ctx.eval(hash_str(&one.to_string()), len > 1);
                        ctx.count("exhaustive_histories");
                        sim::run(run_history(ctx, &ty, 1, &ops, &one));
                    }
                }
            }
            "random" => {
                let n = u(case, "subs") as usize;
                let mut r = Rng::keyed(u(case, "seed"), &[11, n as u64]);
                let ops: Vec<(usize, usize)> = (0..u(case, "len")).map(|_| (r.below(n), r.below(NOPS))).collect();
                let one = json!({"kind": "history", "ty": ty, "subs": n, "ops": ops.iter().map(|o| json!([o.0, o.1])).collect::<Vec<_>>()});
                ctx.eval(hash_str(&one.to_string()), true);
                ctx.count("random_histories");
                ctx.sample("random_history", || one.clone());
                sim::run(run_history(ctx, &ty, n, &ops, &one));
            }
            "history" => {
                let ops: Vec<(usize, usize)> = case["ops"]
                    .as_array()
                    .map(|a| a.iter().map(|o| (o[0].as_u64().unwrap_or(0) as usize, o[1].as_u64().unwrap_or(0) as usize)).collect())
                    .unwrap_or_default();
                ctx.eval(1, true);
                sim::run(run_history(ctx, &ty, u(case, "subs") as usize, &ops, case));
            }
            _ => ctx.inconclusive(format!("unknown case {case}")),
        }
    }

    fn floors(&self, _tier: Tier) -> Vec<(&'static str, u64)> {
        vec![
            ("exhaustive_histories", 2 * 7239),
            ("random_histories", 400),
            ("delivery_decisions", 100_000),
            ("states_with_duplicate_subscriptions", 100),
            ("states_with_overlapping_prefixes", 100),
            ("topic_equal_to_frame0", 1000),
            ("topic_longer_than_frame0", 1000),
            ("unsubscribes", 1000),
            ("garbage/garbage:empty-message", 100),
            ("garbage/garbage:first-byte-2", 100),
            ("garbage/garbage:first-byte-ff", 100),
            ("garbage/garbage:two-frames", 100),
            ("garbage/garbage:command", 100),
            ("xpub_messages_handed_over", 1000),
        ]
    }
}
