//! C11 — PUB/XPUB deliver a message to a subscriber iff a subscription is a prefix.

use super::common::*;
use crate::prng::{hash_str, mix, Rng};
use crate::refcodec::{self as rc, Frames};
use crate::report::{Ctx, Tier};
use crate::sim;
use crate::sock::{Peer, Sock};
use crate::Prop;
use serde_json::{json, Value};

pub struct C11;

const TOPICS: [&[u8]; 7] = [b"", b"a", b"ab", b"abc", b"b", &[0x00], &[0x01]];
const PUBLISH: [&[u8]; 7] = [b"", b"a", b"ab", b"abc", b"abcd", b"b", b"ba"];
/// history alphabet: 0..7 = sub topic, 7..14 = unsub topic, 14.. = garbage
const NOPS: usize = 19;

fn op_name(op: usize) -> String {
    match op {
        0..=6 => format!("sub({})", rc::hex(TOPICS[op])),
        7..=13 => format!("unsub({})", rc::hex(TOPICS[op - 7])),
        14 => "garbage:empty-message".into(),
        15 => "garbage:first-byte-2".into(),
        16 => "garbage:first-byte-ff".into(),
        17 => "garbage:two-frames".into(),
        _ => "garbage:command".into(),
    }
}

/// wire bytes of a history op + the subscription message as XPUB should hand it over (if valid)
fn op_wire(op: usize) -> (Vec<u8>, Option<Frames>) {
    match op {
        0..=6 => {
            let mut f = vec![1u8];
            f.extend_from_slice(TOPICS[op]);
            (rc::message(&[f.clone()]), Some(vec![f]))
        }
        7..=13 => {
            let mut f = vec![0u8];
            f.extend_from_slice(TOPICS[op - 7]);
            (rc::message(&[f.clone()]), Some(vec![f]))
        }
        14 => (rc::message(&[vec![]]), None),
        15 => (rc::message(&[vec![2, b'a']]), None),
        16 => (rc::message(&[vec![0xFF, b'a']]), None),
        17 => (rc::message(&[vec![1, b'a'], vec![b'x']]), None),
        _ => (rc::ready(b"SUB", None), None),
    }
}

fn model_apply(set: &mut Vec<Vec<u8>>, op: usize) {
    match op {
        0..=6 => set.push(TOPICS[op].to_vec()),
        7..=13 => {
            if let Some(i) = set.iter().position(|t| t == TOPICS[op - 7]) {
                set.remove(i);
            }
        }
        _ => {}
    }
}

fn model_matches(set: &[Vec<u8>], frame0: &[u8]) -> bool {
    set.iter().any(|t| frame0.len() >= t.len() && &frame0[..t.len()] == t.as_slice())
}

fn note_state(ctx: &mut Ctx, set: &[Vec<u8>]) {
    let mut sorted = set.to_vec();
    sorted.sort();
    let mut h = 11u64;
    for t in &sorted {
        h = mix(h ^ crate::prng::hash_bytes(t) ^ t.len() as u64);
    }
    ctx.state(h);
    let mut d = sorted.clone();
    d.dedup();
    if d.len() < sorted.len() {
        ctx.count("states_with_duplicate_subscriptions");
    }
    if sorted.iter().any(|a| sorted.iter().any(|b| a != b && b.starts_with(a))) {
        ctx.count("states_with_overlapping_prefixes");
    }
}

struct Subscriber {
    peer: Peer,
    set: Vec<Vec<u8>>,
    handed: Vec<Frames>, // valid subscription messages sent so far (for XPUB)
    seen_msgs: usize,
}

/// publish every probe frame and compare each subscriber's tap with the model
async fn publish_round(ctx: &mut Ctx, sock: &mut Sock, subs: &mut [Subscriber], seq: &mut u32, case: &Value, hist: &str) -> bool {
    for f0 in PUBLISH {
        for second in [false, true] {
            let mut msg: Frames = vec![f0.to_vec()];
            if second {
                msg.push(b"second".to_vec());
            }
            msg.extend(rc::tagged(7, *seq, &[]));
            *seq += 1;
            match sim::complete(sock.send(&msg)).await {
                Ok(Ok(())) => {}
                other => {
                    ctx.violation_with(
                        &format!("C11/publish-failed/{}", sock.ty()),
                        format!("publish failed: {other:?}"),
                        case.clone(),
                    );
                    return false;
                }
            }
            ctx.count("publishes");
            for (i, sb) in subs.iter_mut().enumerate() {
                let msgs = match sb.peer.out_msgs() {
                    Ok(m) => m,
                    Err(e) => {
                        ctx.violation_with(&format!("C11/tap-corrupted/{}", sock.ty()), e, case.clone());
                        return false;
                    }
                };
                let newm = &msgs[sb.seen_msgs.min(msgs.len())..];
                let want = model_matches(&sb.set, f0);
                ctx.count("delivery_decisions");
                if f0.is_empty() || sb.set.iter().any(|t| t.as_slice() == f0) {
                    ctx.count("topic_equal_to_frame0");
                }
                if sb.set.iter().any(|t| t.len() > f0.len()) {
                    ctx.count("topic_longer_than_frame0");
                }
                let ok = if want { newm.len() == 1 && newm[0] == msg } else { newm.is_empty() };
                if !ok {
                    let kind = if want && newm.is_empty() {
                        "matching-message-not-delivered"
                    } else if !want {
                        "non-matching-message-delivered"
                    } else if newm.len() > 1 {
                        "delivered-more-than-once"
                    } else {
                        "delivered-message-altered"
                    };
                    ctx.violation_with(
                        &format!("C11/{kind}/{}", sock.ty()),
                        format!(
                            "subscriber {i} after history [{hist}] has subscriptions {:?}; publish of first frame {:?}: {} copies delivered, model says {}",
                            sb.set.iter().map(|t| rc::hex(t)).collect::<Vec<_>>(),
                            String::from_utf8_lossy(f0),
                            newm.len(),
                            if want { 1 } else { 0 }
                        ),
                        case.clone(),
                    );
                    return false;
                }
                sb.seen_msgs = msgs.len();
            }
        }
    }
    true
}

/// let the socket process everything its peers sent
async fn quiesce(ctx: &mut Ctx, sock: &mut Sock, xpub_got: &mut Vec<Frames>) {
    if sock.ty() == "XPUB" {
        for _ in 0..10_000 {
            match recv_now(sock).await {
                Some(Ok(m)) => xpub_got.push(m),
                Some(Err(_)) => ctx.count("xpub_recv_errors"),
                None => break,
            }
        }
    } else {
        sim::settle().await;
    }
}

async fn run_history(ctx: &mut Ctx, ty: &str, nsubs: usize, ops: &[(usize, usize)], case: &Value) {
    let mut sock = Sock::new(ty, None);
    let mut subs = Vec::new();
    // announced identities, none, or an Identity property of length 0 (legal ZMTP): every
    // connection is a subscriber of its own
    let id_kind = hash_str(&case.to_string()) % 3;
    for k in 0..nsubs {
        let named = format!("s{k}").into_bytes();
        let ident: Option<&[u8]> = match id_kind {
            0 => Some(&named),
            1 => None,
            _ => Some(&[]),
        };
        match Peer::attach(&sock, if k % 2 == 0 { "SUB" } else { "XSUB" }, ident).await {
            Ok(p) => {
                if id_kind == 2 && k == 1 {
                    ctx.count("histories_with_empty_identity_subscribers");
                }
                if let Some(j) = subs.iter().position(|s: &Subscriber| s.peer.id == p.id) {
                    ctx.violation_with(
                        &format!("C11/two-subscribers-registered-under-one-identity/{ty}"),
                        format!("subscribers {j} and {k} are both registered as {}: their subscriptions cannot be counted per connection", rc::hex(&p.id)),
                        case.clone(),
                    );
                    return;
                }
                subs.push(Subscriber { peer: p, set: vec![], handed: vec![], seen_msgs: 0 })
            }
            Err(e) => {
                ctx.inconclusive(format!("C11 attach: {e}"));
                return;
            }
        }
    }
    let mut seq = 0u32;
    let mut xpub_got: Vec<Frames> = Vec::new();
    let mut hist = String::new();
    for (who, op) in ops {
        let (wire, handed) = op_wire(*op);
        subs[*who].peer.conn.feed(&wire);
        model_apply(&mut subs[*who].set, *op);
        if let Some(h) = handed {
            subs[*who].handed.push(h);
        }
        if *op >= 14 {
            ctx.count(&format!("garbage/{}", op_name(*op)));
        }
        if (7..14).contains(op) {
            ctx.count("unsubscribes");
        }
        hist.push_str(&format!("{}:{} ", who, op_name(*op)));
        quiesce(ctx, &mut sock, &mut xpub_got).await;
        let snapshot = subs[*who].set.clone();
        note_state(ctx, &snapshot);
        if !publish_round(ctx, &mut sock, &mut subs, &mut seq, case, &hist).await {
            return;
        }
    }
    if ty == "XPUB" {
        // every valid subscription message handed over verbatim, in per-peer order.
        // Messages of different peers interleave freely; garbage may or may not be handed over.
        let valid: Vec<&Frames> = xpub_got
            .iter()
            .filter(|m| m.len() == 1 && !m[0].is_empty() && m[0][0] <= 1)
            .collect();
        let mut want_all: Vec<Frames> = Vec::new();
        for sb in &subs {
            want_all.extend(sb.handed.clone());
        }
        // per-peer order: because all peers draw from the same alphabet, check as multiset + per-peer subsequence
        let mut pool: Vec<&Frames> = valid.clone();
        for (i, sb) in subs.iter().enumerate() {
            let mut pos = 0usize;
            for h in &sb.handed {
                // find h in valid at or after pos (subsequence)
                match valid[pos.min(valid.len())..].iter().position(|m| *m == h) {
                    Some(k) => pos += k + 1,
                    None => {
                        ctx.violation_with(
                            "C11/xpub-subscription-message-not-handed-over-in-order",
                            format!(
                                "subscriber {i} sent {:?}; XPUB.recv returned {:?}",
                                sb.handed.iter().map(|m| rc::hex(&m[0])).collect::<Vec<_>>(),
                                valid.iter().map(|m| rc::hex(&m[0])).collect::<Vec<_>>()
                            ),
                            case.clone(),
                        );
                        return;
                    }
                }
            }
        }
        for h in &want_all {
            if let Some(k) = pool.iter().position(|m| *m == h) {
                pool.remove(k);
            }
        }
        if !pool.is_empty() || valid.len() != want_all.len() {
            ctx.violation_with(
                "C11/xpub-subscription-messages-differ",
                format!("XPUB.recv returned {} subscription messages, peers sent {}", valid.len(), want_all.len()),
                case.clone(),
            );
            return;
        }
        ctx.add("xpub_messages_handed_over", valid.len() as u64);
    }
}

/// One subscriber's connection starts failing writes (broken pipe, reset, zero-length
/// write) without the socket having noticed anything on the read side: every other
/// subscriber still gets every matching message exactly once.
async fn faulty_subscriber(ctx: &mut Ctx, ty: &str, nsubs: usize, seed: u64, case: &Value) {
    use crate::pipe::WriteFail;
    let mut r = Rng::keyed(seed, &[11, 0xFA]);
    let mut sock = Sock::new(ty, None);
    let mut subs: Vec<Peer> = Vec::new();
    let mut topics: Vec<Vec<u8>> = Vec::new();
    for k in 0..nsubs {
        // random identities: the publisher walks its subscribers in hash order
        let id = r.bytes(6);
        match Peer::attach(&sock, "SUB", Some(&id)).await {
            Ok(p) => {
                let t = r.pick(&[&b""[..], b"a", b"ab"]).to_vec();
                let mut f = vec![1u8];
                f.extend_from_slice(&t);
                p.send(&[f]);
                topics.push(t);
                subs.push(p);
            }
            Err(e) => {
                ctx.inconclusive(format!("C11 attach {k}: {e}"));
                return;
            }
        }
    }
    let mut sink = Vec::new();
    quiesce(ctx, &mut sock, &mut sink).await;
    let bad = r.below(nsubs);
    topics[bad] = Vec::new();
    subs[bad].send(&[vec![1u8]]); // the faulty one matches everything
    quiesce(ctx, &mut sock, &mut sink).await;
    let kind = *r.pick(&[WriteFail::BrokenPipe, WriteFail::ConnectionReset, WriteFail::ConnectionReset, WriteFail::WriteZero]);
    let kind_name = format!("{kind:?}");
    subs[bad].conn.fail_writes_after(subs[bad].conn.tap_len() + r.below(3) * 7, kind);
    let mut seen: Vec<usize> = subs.iter().map(|p| p.out_msgs().map(|m| m.len()).unwrap_or(0)).collect();
    // large bodies: the failing connection's outgoing buffer passes its high-water mark
    // within a few publishes, which is when the publisher looks at the write result
    let big = r.chance(3, 4);
    for round in 0..8u32 {
        let f0: &[u8] = *r.pick(&[&b"a"[..], b"abc", b"b", b""]);
        let mut msg: Frames = vec![f0.to_vec()];
        let size = if big { *r.pick(&[50_000usize, 70_000, 140_000]) } else { r.below(40) };
        msg.extend(rc::tagged(11, round, &[size]));
        let res = sim::complete(sock.send(&msg)).await;
        let mut delivered = Vec::new();
        let mut missed = Vec::new();
        for (i, p) in subs.iter().enumerate() {
            if i == bad {
                continue;
            }
            let msgs = match p.out_msgs() {
                Ok(m) => m,
                Err(e) => {
                    ctx.violation_with(&format!("C11/tap-corrupted/{ty}"), e, case.clone());
                    return;
                }
            };
            let newm = &msgs[seen[i].min(msgs.len())..];
            let want = model_matches(&[topics[i].clone()], f0);
            ctx.count("delivery_decisions_beside_a_failing_subscriber");
            if !want && !newm.is_empty() {
                ctx.violation_with(&format!("C11/non-matching-message-delivered/{ty}"), format!("subscriber {i} ({:?})", topics[i]), case.clone());
                return;
            }
            if want {
                if newm.len() == 1 && newm[0] == msg {
                    delivered.push(i);
                } else if newm.is_empty() {
                    missed.push(i);
                } else {
                    ctx.violation_with(&format!("C11/delivered-more-than-once/{ty}"), format!("subscriber {i}: {} copies", newm.len()), case.clone());
                    return;
                }
            }
            seen[i] = msgs.len();
        }
        let ok = matches!(res, Ok(Ok(())));
        if !missed.is_empty() && (ok || !delivered.is_empty()) {
            ctx.violation_with(
                &format!("C11/matching-message-not-delivered/{ty}"),
                format!(
                    "publish #{round} of first frame {:?} with {nsubs} subscribers, subscriber {bad}'s connection failing writes with {kind_name}: healthy matching subscribers {missed:?} got nothing while {delivered:?} got it (send returned {})",
                    String::from_utf8_lossy(f0),
                    if ok { "Ok".to_string() } else { format!("{res:?}") }
                ),
                case.clone(),
            );
            return;
        }
        if !ok && delivered.is_empty() {
            ctx.count("publishes_refused_as_a_whole");
        }
        ctx.count(&format!("publishes_beside_a_failing_subscriber/{kind_name}"));
    }
}

/// Topics are byte strings, not text: subscriptions that are not valid UTF-8 filter exactly
/// like any other (prefix match on the raw bytes, one cancel per equal subscribe).
async fn binary_topics(ctx: &mut Ctx, ty: &str, case: &Value) {
    let mut sock = Sock::new(ty, None);
    let Ok(sub) = Peer::attach(&sock, "SUB", Some(b"bin")).await else {
        ctx.inconclusive("C11 attach".into());
        return;
    };
    let mut sink = Vec::new();
    let steps: Vec<(u8, Vec<u8>)> = vec![(1, vec![0xFF, 0x01]), (1, vec![0xFE]), (0, vec![0xFE]), (1, vec![0xE9, 0xC3, 0x00]), (1, vec![0xC3]), (0, vec![0xFF, 0x01])];
    let probes: Vec<Vec<u8>> = vec![
        vec![0xFF, 0x01, 0x55],
        vec![0xFF],
        vec![0xFE, 0x01],
        vec![0xEF, 0xBF, 0xBD, 0x01], // what a lossy text conversion turns 0xFF 0x01 into
        vec![0xEF, 0xBF, 0xBD],
        vec![0xE9, 0xC3, 0x00, 0x00],
        vec![0xC3, 0xA9],
        vec![0xC2],
    ];
    let mut set: Vec<Vec<u8>> = Vec::new();
    let mut seen = 0usize;
    let mut seq = 0u32;
    for (op, topic) in steps {
        let mut f = vec![op];
        f.extend_from_slice(&topic);
        sub.send(&[f]);
        if op == 1 {
            set.push(topic.clone());
        } else if let Some(i) = set.iter().position(|t| *t == topic) {
            set.remove(i);
        }
        quiesce(ctx, &mut sock, &mut sink).await;
        for p in &probes {
            let mut msg: Frames = vec![p.clone()];
            msg.extend(rc::tagged(14, seq, &[]));
            seq += 1;
            let _ = sim::complete(sock.send(&msg)).await;
            let msgs = sub.out_msgs().unwrap_or_default();
            let newm = msgs.len() - seen.min(msgs.len());
            seen = msgs.len();
            let want = model_matches(&set, p) as usize;
            ctx.count("delivery_decisions_with_non_utf8_topics");
            if newm != want {
                ctx.violation_with(
                    &format!("C11/{}/{ty}", if newm > want { "non-matching-message-delivered" } else { "matching-message-not-delivered" }),
                    format!("subscriptions (raw bytes) {:?}; publish with first frame {}: {newm} copies delivered, model says {want}", set.iter().map(|t| rc::hex(t)).collect::<Vec<_>>(), rc::hex(p)),
                    case.clone(),
                );
                return;
            }
        }
    }
}

/// The last publish is larger than what the connection takes at once (a kernel socket
/// buffer), the subscriber keeps reading, and nothing is published afterwards: at
/// quiescence the matching message has been delivered in full.
async fn large_last_publish(ctx: &mut Ctx, ty: &str, size: usize, window: usize, case: &Value) {
    let mut sock = Sock::new(ty, None);
    let Ok(sub) = Peer::attach(&sock, "SUB", Some(b"reader")).await else {
        ctx.inconclusive("C11 attach".into());
        return;
    };
    sub.send(&[vec![1u8]]);
    let mut sink = Vec::new();
    quiesce(ctx, &mut sock, &mut sink).await;
    // the connection takes `window` bytes, then says "not now" until the reader has read
    sub.conn.set_credit(Some(window));
    let mut msg: Frames = vec![b"big".to_vec()];
    msg.extend(rc::tagged(13, 0, &[size]));
    let want = rc::message(&msg);
    let start = sub.conn.tap_len();
    if !matches!(sim::complete(sock.send(&msg)).await, Ok(Ok(()))) {
        ctx.violation_with(&format!("C11/publish-failed/{ty}"), "publish of a large message".into(), case.clone());
        return;
    }
    // the subscriber reads: whenever the window is used up, it is opened again
    for _ in 0..(size / window.max(1) + 50) {
        sim::settle().await;
        sub.conn.set_credit(Some(window));
        if sub.conn.tap_len() - start >= want.len() {
            break;
        }
    }
    sub.conn.set_credit(None);
    quiesce(ctx, &mut sock, &mut sink).await;
    ctx.count("large_last_publishes");
    let got = sub.conn.tap_len() - start;
    if got < want.len() {
        ctx.violation_with(
            &format!("C11/matching-message-not-delivered-until-the-next-publish/{ty}"),
            format!(
                "one matching message of {} bytes was published to a subscriber whose connection takes {window} bytes at a time and that keeps reading; nothing was published afterwards: at quiescence {got} bytes are on the wire, the rest waits in the subscriber's write buffer for the next publish",
                want.len()
            ),
            case.clone(),
        );
    } else if sub.conn.tap_from(start) != want {
        ctx.violation_with(&format!("C11/delivered-message-altered/{ty}"), "large message altered".into(), case.clone());
    }
}

/// A subscriber comes back on a new connection under the identity it used before (the old
/// connection still open, or closed but not yet noticed): subscriptions are counted per
/// connection, so the new one starts with none.
async fn resubscriber(ctx: &mut Ctx, ty: &str, old_state: &str, case: &Value) {
    use crate::pipe::EndKind;
    let mut sock = Sock::new(ty, None);
    let mut sink = Vec::new();
    let other = match Peer::attach(&sock, "SUB", Some(b"other")).await {
        Ok(p) => p,
        Err(e) => {
            ctx.inconclusive(format!("C11 attach: {e}"));
            return;
        }
    };
    other.send(&[b"\x01a".to_vec()]);
    let old = match Peer::attach(&sock, "SUB", Some(b"same-id")).await {
        Ok(p) => p,
        Err(e) => {
            ctx.inconclusive(format!("C11 attach: {e}"));
            return;
        }
    };
    old.send(&[b"\x01a".to_vec()]);
    old.send(&[b"\x01b".to_vec()]);
    quiesce(ctx, &mut sock, &mut sink).await;
    match old_state {
        "open" => {}
        "closed-unnoticed" => old.conn.close_full(EndKind::Eof),
        _ => {
            old.conn.close_full(EndKind::Eof);
            quiesce(ctx, &mut sock, &mut sink).await;
        }
    }
    let new = match Peer::attach(&sock, "SUB", Some(b"same-id")).await {
        Ok(p) => p,
        Err(e) => {
            ctx.inconclusive(format!("C11 re-attach: {e}"));
            return;
        }
    };
    new.send(&[b"\x01b".to_vec()]);
    quiesce(ctx, &mut sock, &mut sink).await;
    let mut set: Vec<Vec<u8>> = vec![b"b".to_vec()];
    let mut seen = 0usize;
    let mut seen_other = other.out_msgs().map(|m| m.len()).unwrap_or(0);
    let steps: [(&str, Option<&[u8]>); 5] = [("publish", None), ("unsub-b", Some(b"\x00b")), ("publish", None), ("sub-a", Some(b"\x01a")), ("publish", None)];
    let mut seq = 0u32;
    for (name, feed) in steps {
        if let Some(f) = feed {
            new.send(&[f.to_vec()]);
            if f[0] == 1 {
                set.push(f[1..].to_vec());
            } else if let Some(i) = set.iter().position(|t| t[..] == f[1..]) {
                set.remove(i);
            }
            quiesce(ctx, &mut sock, &mut sink).await;
            continue;
        }
        let _ = name;
        for f0 in [&b"a1"[..], b"b1", b"c"] {
            let mut msg: Frames = vec![f0.to_vec()];
            msg.extend(rc::tagged(12, seq, &[]));
            seq += 1;
            let _ = sim::complete(sock.send(&msg)).await;
            let msgs = new.out_msgs().unwrap_or_default();
            let newm = msgs.len().saturating_sub(seen);
            seen = msgs.len();
            let want = model_matches(&set, f0) as usize;
            ctx.count("delivery_decisions_after_reconnect");
            if newm != want {
                ctx.violation_with(
                    &format!("C11/{}/{ty}", if newm > want { "non-matching-message-delivered" } else { "matching-message-not-delivered" }),
                    format!(
                        "a subscriber reconnected under its old identity (old connection: {old_state}) and on the new connection has subscriptions {:?}; publish of {:?}: {newm} copies, model says {want}",
                        set.iter().map(|t| String::from_utf8_lossy(t).into_owned()).collect::<Vec<_>>(),
                        String::from_utf8_lossy(f0)
                    ),
                    case.clone(),
                );
                return;
            }
            // the bystander is unaffected
            let om = other.out_msgs().unwrap_or_default();
            let want_o = f0.starts_with(b"a") as usize;
            if om.len() - seen_other.min(om.len()) != want_o {
                ctx.violation_with(&format!("C11/matching-message-not-delivered/{ty}"), format!("bystander subscribed to 'a' got {} copies of {:?}", om.len() - seen_other, String::from_utf8_lossy(f0)), case.clone());
                return;
            }
            seen_other = om.len();
        }
    }
    ctx.count(&format!("reconnects_under_same_identity/{old_state}"));
}

impl Prop for C11 {
    fn id(&self) -> &'static str {
        "C11"
    }

    fn cases(&self, tier: Tier, seed: u64) -> Vec<Value> {
        let mut v = Vec::new();
        let maxlen = tier.pick(3, 4);
        for ty in ["PUB", "XPUB"] {
            // exhaustive histories for one subscriber, batched by the first two ops
            for a in 0..NOPS {
                v.push(json!({"kind": "exh", "ty": ty, "first": a, "maxlen": maxlen}));
            }
            for n in 2..=7usize {
                for k in 0..tier.pick(40, 2000) {
                    v.push(json!({"kind": "faulty", "ty": ty, "subs": n, "seed": mix(seed ^ 0xFA17 ^ (k as u64) << 4 ^ n as u64)}));
                }
            }
            for old in ["open", "closed-unnoticed", "closed-noticed"] {
                v.push(json!({"kind": "resub", "ty": ty, "old": old}));
            }
            v.push(json!({"kind": "binary_topics", "ty": ty}));
            for (size, window) in [(300_000usize, 65_536usize), (1_000_000, 212_992), (100_000, 8_192)] {
                v.push(json!({"kind": "large_last", "ty": ty, "size": size, "window": window}));
            }
            for n in 1..=5usize {
                for k in 0..tier.pick(120, 3000) {
                    v.push(json!({"kind": "random", "ty": ty, "subs": n, "len": 30, "seed": mix(seed ^ (k as u64) << 3 ^ n as u64)}));
                }
            }
        }
        v
    }

    fn run(&self, case: &Value, ctx: &mut Ctx) {
        let ty = s(case, "ty").to_string();
        match s(case, "kind") {
            "exh" => {
                let first = u(case, "first") as usize;
                let maxlen = u(case, "maxlen") as usize;
                ctx.sample("exhaustive_histories", || case.clone());
                // all histories starting with `first`, length 1..=maxlen
                for len in 1..=maxlen {
                    let count = NOPS.pow((len - 1) as u32);
                    for code in 0..count {
                        let mut c = code;
                        let mut ops = vec![(0usize, first)];
                        for _ in 1..len {
                            ops.push((0, c % NOPS));
                            c /= NOPS;
                        }
                        let one = json!({"kind": "history", "ty": ty, "subs": 1, "ops": ops.iter().map(|o| json!([o.0, o.1])).collect::<Vec<_>>()});
                        ctx.eval(hash_str(&one.to_string()), len > 1);
                        ctx.count("exhaustive_histories");
                        sim::run(run_history(ctx, &ty, 1, &ops, &one));
                    }
                }
            }
            "random" => {
                let n = u(case, "subs") as usize;
                let mut r = Rng::keyed(u(case, "seed"), &[11, n as u64]);
                let ops: Vec<(usize, usize)> = (0..u(case, "len")).map(|_| (r.below(n), r.below(NOPS))).collect();
                let one = json!({"kind": "history", "ty": ty, "subs": n, "ops": ops.iter().map(|o| json!([o.0, o.1])).collect::<Vec<_>>()});
                ctx.eval(hash_str(&one.to_string()), true);
                ctx.count("random_histories");
                ctx.sample("random_history", || one.clone());
                sim::run(run_history(ctx, &ty, n, &ops, &one));
            }
            "faulty" => {
                ctx.eval(hash_str(&case.to_string()), true);
                ctx.sample("faulty_subscriber", || case.clone());
                sim::run(faulty_subscriber(ctx, &ty, u(case, "subs") as usize, u(case, "seed"), case));
            }
            "binary_topics" => {
                ctx.eval(hash_str(&case.to_string()), true);
                sim::run(binary_topics(ctx, &ty, case));
            }
            "large_last" => {
                ctx.eval(hash_str(&case.to_string()), true);
                ctx.sample("large_last", || case.clone());
                sim::run(large_last_publish(ctx, &ty, u(case, "size") as usize, u(case, "window") as usize, case));
            }
            "resub" => {
                ctx.eval(hash_str(&case.to_string()), true);
                ctx.sample("resubscriber", || case.clone());
                sim::run(resubscriber(ctx, &ty, s(case, "old"), case));
            }
            "history" => {
                let ops: Vec<(usize, usize)> = case["ops"]
                    .as_array()
                    .map(|a| a.iter().map(|o| (o[0].as_u64().unwrap_or(0) as usize, o[1].as_u64().unwrap_or(0) as usize)).collect())
                    .unwrap_or_default();
                ctx.eval(1, true);
                sim::run(run_history(ctx, &ty, u(case, "subs") as usize, &ops, case));
            }
            _ => ctx.inconclusive(format!("unknown case {case}")),
        }
    }

    fn floors(&self, _tier: Tier) -> Vec<(&'static str, u64)> {
        vec![
            ("exhaustive_histories", 2 * 7239),
            ("random_histories", 400),
            ("large_last_publishes", 6),
            ("delivery_decisions_with_non_utf8_topics", 90),
            ("histories_with_empty_identity_subscribers", 50),
            ("delivery_decisions_beside_a_failing_subscriber", 2000),
            ("publishes_beside_a_failing_subscriber/ConnectionReset", 200),
            ("publishes_beside_a_failing_subscriber/BrokenPipe", 100),
            ("delivery_decisions_after_reconnect", 50),
            ("delivery_decisions", 100_000),
            ("states_with_duplicate_subscriptions", 100),
            ("states_with_overlapping_prefixes", 100),
            ("topic_equal_to_frame0", 1000),
            ("topic_longer_than_frame0", 1000),
            ("unsubscribes", 1000),
            ("garbage/garbage:empty-message", 100),
            ("garbage/garbage:first-byte-2", 100),
            ("garbage/garbage:first-byte-ff", 100),
            ("garbage/garbage:two-frames", 100),
            ("garbage/garbage:command", 100),
            ("xpub_messages_handed_over", 1000),
        ]
    }
}
