//! C05 — receive delivers each peer's messages exactly once, whole and in order.
//! C06 — a waiting receiver is always woken, and no peer is starved.
//! Both run the same engines (fq.rs probe level, hist.rs socket level) and
//! each reports the findings that belong to it.

use super::common::*;
use crate::fq::{self, Act, Gen};
use crate::hist::{self, HistOpts};
use crate::prng::{hash_str, mix};
use crate::report::{Ctx, Tier};
use crate::sim;
use crate::sock::FQ_TYPES;
use crate::Prop;
use serde_json::{json, Value};

pub struct C05;
pub struct C06;

fn add_fq_counters(ctx: &mut Ctx, c: &fq::Counters) {
    ctx.add("fq_arrival_inside_checkout_window", c.arrival_inside_checkout_window);
    ctx.add("fq_insert_mid_poll", c.insert_mid_poll);
    ctx.add("fq_close_mid_poll", c.close_mid_poll);
    ctx.add("fq_insert_while_parked", c.insert_while_parked);
    ctx.add("fq_arrival_while_parked", c.arrival_while_parked);
    ctx.add("fq_last_stream_closed_while_parked", c.last_stream_closed_while_parked);
    ctx.add("fq_stale_polls", c.stale_polls);
    ctx.add("fq_stream_polls", c.stream_polls);
    ctx.add("fq_deliveries", c.deliveries);
    ctx.add("fq_parks", c.parks);
    ctx.add("fq_probes", c.probes);
    ctx.max("fq_max_overtaken", c.max_overtaken);
    ctx.add("fq_yielding_streams", c.yielding_streams);
    ctx.add("fq_waker_changes", c.waker_changes);
    ctx.add("fq_reinserts_under_a_registered_key", c.reinserts);
    ctx.add("fq_yield_polls", c.yield_polls);
}

fn add_hist_counters(ctx: &mut Ctx, c: &hist::HistCounters) {
    ctx.add("sock_deliveries", c.deliveries);
    ctx.add("sock_errors_returned", c.errors_returned);
    ctx.add("sock_joins_while_recv_pending", c.joins_while_recv_pending);
    ctx.add("sock_peers_cut_mid_message", c.peers_cut_mid_message);
    ctx.add("sock_peers_left_at_boundary", c.peers_left_at_boundary);
    ctx.add("sock_peers_reset", c.peers_reset);
    ctx.add("sock_partial_releases", c.partial_releases);
    ctx.add("sock_recv_parks", c.recv_parks);
    ctx.add("sock_probes", c.probes);
    ctx.add("sock_envelope_violations_sent", c.envelope_violations_sent);
    ctx.add("sock_messages_ending_in_empty_frame", c.messages_ending_in_empty_frame);
    ctx.add("sock_frames_beyond_64k", c.frames_beyond_64k);
    ctx.add("sock_reconnects_under_the_same_identity", c.reconnects_same_identity);
    ctx.add("sock_cooperative_yields", c.cooperative_yields);
    ctx.add("drops_total", c.drops_total);
    ctx.add("drops_with_partial_frame", c.drops_with_partial_frame);
    ctx.add("drops_after_waker_registered", c.drops_after_waker_registered);
    ctx.add("drops_with_full_message_buffered", c.drops_with_full_message_buffered);
    ctx.add("drops_never_polled", c.drops_never_polled);
    ctx.max("sock_max_overtaken", c.max_overtaken);
}

fn report(ctx: &mut Ctx, me: &str, findings: &[fq::Finding], witness: impl Fn() -> Value) {
    for f in findings {
        if f.signature == "harness" {
            ctx.inconclusive(format!("{me}: {}", f.message));
        } else if f.signature.starts_with(me) {
            ctx.violation_with(&f.signature, f.message.clone(), witness());
        } else if me == "C06" && f.signature.contains("never-delivered") {
            // an available message that no recv call ever returns is what C06 forbids too
            let sig = f
                .signature
                .replace("C05/fq/item-never-delivered", "C06/fq/available-item-never-returned")
                .replace("C05/fq-threaded/item-never-delivered", "C06/fq-threaded/available-item-never-returned")
                .replace("C05/message-never-delivered", "C06/available-message-never-returned");
            ctx.violation_with(&sig, f.message.clone(), witness());
        } else if me == "C05" && f.signature.starts_with("C14/") {
            // history with abandoned recv calls: a message consumed by a dropped call and
            // returned by none is not "consumed exactly once"
            ctx.violation_with(&f.signature.replacen("C14/", "C05/with-abandoned-recv/", 1), f.message.clone(), witness());
        } else if me == "C05" && f.signature.contains("lost-wakeup") {
            // a message the receiver is never woken for is also a message that is
            // never consumed: C05 reports it under its own signature
            let sig = f
                .signature
                .replace("C06/fq/lost-wakeup", "C05/fq/item-never-delivered-receiver-not-woken")
                .replace("C06/fq-threaded/lost-wakeup", "C05/fq-threaded/item-never-delivered")
                .replace("C06/socket-lost-wakeup", "C05/message-never-delivered");
            ctx.violation_with(&sig, f.message.clone(), witness());
        } else {
            // belongs to the sibling property: counted, reported by its own check
            ctx.count("findings_of_sibling_property");
        }
    }
}

fn acts_json(acts: &[Act]) -> Value {
    Value::Array(acts.iter().map(|a| json!(a.name())).collect())
}

/// DFS over all action sequences up to `depth`, each replayed from scratch.
fn sweep(ctx: &mut Ctx, me: &str, k: usize, depth: usize, pre: bool, block: bool, first: usize) {
    fn rec(
        ctx: &mut Ctx,
        me: &str,
        k: usize,
        depth: usize,
        pre: bool,
        block: bool,
        g: &Gen,
        acts: &mut Vec<Act>,
        n: &mut u64,
        stop: &mut bool,
    ) {
        if *stop {
            return;
        }
        if !acts.is_empty() {
            let out = fq::run_actions(k, block, pre, acts);
            *n += 1;
            ctx.interleaving(out.trace);
            if *n % 64 == 0 || !out.findings.is_empty() {
                add_fq_counters(ctx, &out.counters);
            }
            if !out.findings.is_empty() {
                let a = acts.clone();
                report(ctx, me, &out.findings, || {
                    json!({"kind": "fq_actions", "k": k, "pre": pre, "block": block, "acts": acts_json(&a)})
                });
                if out.findings.iter().any(|f| f.signature.starts_with(me)) {
                    *stop = true;
                }
                return;
            }
        }
        if acts.len() == depth {
            return;
        }
        for a in g.enabled(true, true) {
            let mut g2 = g.clone();
            g2.apply(a);
            acts.push(a);
            rec(ctx, me, k, depth, pre, block, &g2, acts, n, stop);
            acts.pop();
        }
    }
    let mut g = Gen::new(k, 3);
    if pre {
        for i in 0..k {
            g.apply(Act::Insert(i));
        }
    }
    let en = g.enabled(true, true);
    if first >= en.len() {
        return;
    }
    let a = en[first];
    let mut g2 = g.clone();
    g2.apply(a);
    let mut acts = vec![a];
    let mut n = 0u64;
    let mut stop = false;
    rec(ctx, me, k, depth, pre, block, &g2, &mut acts, &mut n, &mut stop);
    ctx.eval_bulk(n, n);
    ctx.add("fq_sweep_sequences", n);
}

/// `zmqmon child busyrecv <TYPE> <N>`: the application pattern
/// `#[tokio::main] async fn main() { loop { sock.recv().await } }` under load:
/// the recv loop runs in `block_on` of a multi-thread runtime while a peer
/// floods the socket, so every read is immediately ready and tokio's
/// cooperative budget runs out inside one poll.
pub fn child_busy_recv(args: &[String]) -> i32 {
    use crate::rig::{self, Raw};
    use crate::sock::{peer_type_for, Sock};
    let ty = args.first().cloned().unwrap_or_else(|| "PULL".into());
    let n: u32 = args.get(1).and_then(|x| x.parse().ok()).unwrap_or(400);
    let (res, _) = rig::run(2, async move {
        let mut sock = Sock::new(&ty, None);
        let ep = sock.bind("tcp://127.0.0.1:0").await?;
        let mut raw = Raw::connect(&ep).await.map_err(|e| e.to_string())?;
        raw.handshake(peer_type_for(&ty), Some(b"flood")).await?;
        let ty2 = ty.clone();
        let flood = tokio::spawn(async move {
            for i in 0..n {
                let payload = crate::refcodec::tagged(1, i, &[9000]);
                let wire = if ty2 == "REP" {
                    let mut w = vec![vec![]];
                    w.extend(payload);
                    w
                } else {
                    payload
                };
                if raw.send_msg(&wire).await.is_err() {
                    break;
                }
            }
            // keep the connection open until the receiver is done
            tokio::time::sleep(std::time::Duration::from_secs(120)).await;
            drop(raw);
        });
        // let the kernel buffers fill: from here on every read is immediately ready
        tokio::time::sleep(std::time::Duration::from_millis(300)).await;
        for i in 0..n {
            let m = sock.recv().await?;
            let skip = if ty == "ROUTER" { 1 } else { 0 };
            let t = crate::refcodec::parse_tag(&m, skip)?;
            if t.seq != i {
                return Err(format!("message {} received, expected {i}", t.seq));
            }
            if i % 50 == 0 {
                println!("PROGRESS {i}");
            }
        }
        flood.abort();
        Ok::<(), String>(())
    });
    match res {
        Ok(()) => {
            println!("DONE");
            0
        }
        Err(e) => {
            println!("ERROR {e}");
            1
        }
    }
}

/// Real library sockets on both sides over TCP, senders on their own tasks of a
/// multi-thread runtime; the same exactly-once / in-order oracle without schedule control.
async fn rig_pair(pair: &str, senders: usize, per: u32) -> Result<(u64, u64), String> {
    use crate::rig::WAIT;
    use crate::sock::Sock;
    let (recv_ty, send_ty) = match pair {
        "push-pull" => ("PULL", "PUSH"),
        "pub-sub" => ("SUB", "PUB"),
        "dealer-router" => ("ROUTER", "DEALER"),
        _ => ("REP", "REQ"),
    };
    let mut rx = Sock::new(recv_ty, None);
    let ep = rx.bind("tcp://127.0.0.1:0").await?;
    if recv_ty == "SUB" {
        rx.subscribe("").await?;
    }
    let done = std::sync::Arc::new(std::sync::atomic::AtomicBool::new(false));
    let mut tasks = Vec::new();
    for k in 0..senders {
        let ep = ep.clone();
        let done = done.clone();
        let send_ty = send_ty.to_string();
        tasks.push(tokio::spawn(async move {
            let mut tx = Sock::new(&send_ty, None);
            tx.connect(&ep).await?;
            if send_ty == "PUB" {
                // the subscription has to arrive first (slow joiner)
                tokio::time::sleep(std::time::Duration::from_millis(150)).await;
            }
            for i in 0..per {
                let m = crate::refcodec::tagged(k as u16, i, &[(i as usize * 37) % 700, 0]);
                tx.send(&m).await.map_err(|e| e.text)?;
                if send_ty == "REQ" {
                    let r = tokio::time::timeout(WAIT, tx.recv()).await.map_err(|_| format!("sender {k}: reply {i} timed out"))??;
                    let t = crate::refcodec::parse_tag(&r, 0)?;
                    if t.origin != 1000 + k as u16 || t.seq != i {
                        return Err(format!("sender {k}: reply to {i} is ({},{})", t.origin, t.seq));
                    }
                }
                if i % 64 == 0 {
                    tokio::task::yield_now().await;
                }
            }
            // keep the connection up until the receiver is done
            let t0 = std::time::Instant::now();
            while !done.load(std::sync::atomic::Ordering::SeqCst) && t0.elapsed() < std::time::Duration::from_secs(120) {
                tokio::time::sleep(std::time::Duration::from_millis(20)).await;
            }
            Ok::<(), String>(())
        }));
    }
    let mut next = vec![0u32; senders];
    let mut got = 0u64;
    let total = senders as u64 * per as u64;
    let mut gaps = 0u64;
    loop {
        if got == total {
            break;
        }
        let m = match tokio::time::timeout(std::time::Duration::from_millis(if recv_ty == "SUB" { 600 } else { 6000 }), rx.recv()).await {
            Ok(r) => r?,
            Err(_) => {
                if recv_ty == "SUB" {
                    break; // a publisher may drop for a slow subscriber; order is what is judged
                }
                return Err(format!("{pair}: receiver starved after {got} of {total} messages (next expected per sender: {next:?})"));
            }
        };
        let skip = if recv_ty == "ROUTER" { 1 } else { 0 };
        let t = crate::refcodec::parse_tag(&m, skip)?;
        let k = t.origin as usize;
        if k >= senders {
            return Err(format!("{pair}: message of unknown origin {k}"));
        }
        if t.seq < next[k] {
            return Err(format!("{pair}: sender {k}: message {} delivered again or out of order (next expected {})", t.seq, next[k]));
        }
        if t.seq > next[k] {
            if recv_ty != "SUB" {
                return Err(format!("{pair}: sender {k}: message {} delivered, {} skipped", t.seq, next[k]));
            }
            gaps += (t.seq - next[k]) as u64;
        }
        next[k] = t.seq + 1;
        got += 1;
        if recv_ty == "REP" {
            rx.send(&crate::refcodec::tagged(1000 + t.origin, t.seq, &[3])).await.map_err(|e| e.text)?;
        }
    }
    done.store(true, std::sync::atomic::Ordering::SeqCst);
    for t in tasks {
        match tokio::time::timeout(WAIT, t).await {
            Ok(Ok(Ok(()))) => {}
            Ok(Ok(Err(e))) => return Err(e),
            _ => return Err(format!("{pair}: a sender task did not finish")),
        }
    }
    Ok((got, gaps))
}

/// Many connected peers that say nothing, then one of them speaks: the receiver parked
/// after looking at all of them, so whichever speaks must wake it. (Work limits per poll
/// show only with more streams than the probe engine enumerates.)
async fn many_idle_peers(me: &str, ctx: &mut Ctx, ty: &str, n: usize, seed: u64, case: &Value) {
    use crate::sim::Managed;
    use crate::sock::{peer_type_for, Peer, Sock};
    use std::task::Poll;
    let mut r = crate::prng::Rng::keyed(seed, &[5, 0x1D7E, n as u64]);
    let mut sock = Sock::new(ty, None);
    let mut peers = Vec::new();
    for k in 0..n {
        match Peer::attach(&sock, peer_type_for(ty), Some(format!("idle{k}").as_bytes())).await {
            Ok(p) => peers.push(p),
            Err(e) => {
                ctx.inconclusive(format!("{me} attach: {e}"));
                return;
            }
        }
    }
    if ty == "SUB" {
        let _ = crate::sim::complete(sock.subscribe("")).await;
    }
    let mut next_seq = vec![0u32; n];
    for round in 0..12 {
        // the speaker: biased towards the peers that joined last
        let who = if round % 2 == 0 { n - 1 - r.below(n.min(10)) } else { r.below(n) };
        let mut rv = Managed::new(sock.recv());
        match rv.poll_once() {
            Poll::Pending => {}
            Poll::Ready(x) => {
                ctx.violation_with(&format!("{me}/message-from-nowhere/{ty}"), format!("recv returned {x:?} although all {n} peers are silent"), case.clone());
                return;
            }
        }
        crate::sim::settle().await;
        while rv.woken() {
            // (wake-ups left over from registering wakers: poll until it really parks)
            if rv.poll_once().is_ready() {
                ctx.violation_with(&format!("{me}/message-from-nowhere/{ty}"), "recv returned although all peers are silent".into(), case.clone());
                return;
            }
            crate::sim::settle().await;
        }
        let payload = crate::refcodec::tagged(who as u16, next_seq[who], &[r.below(300)]);
        let wire: crate::refcodec::Frames = if ty == "REP" {
            let mut w = vec![vec![]];
            w.extend(payload.clone());
            w
        } else {
            payload.clone()
        };
        peers[who].send(&wire);
        crate::sim::settle().await;
        ctx.count("messages_from_one_of_many_idle_peers");
        if !rv.woken() {
            // nothing will wake it any more: is the message there for the taking?
            let got = rv.poll_once();
            let sig = if me == "C06" { format!("C06/socket-lost-wakeup/{ty}") } else { format!("C05/message-never-delivered/{ty}") };
            ctx.violation_with(
                &sig,
                format!(
                    "{n} connected peers, all idle; the receiver parked; peer {who} then sent a message and the receiver was not woken (a poll without wake-up {})",
                    if got.is_ready() { "returns the message" } else { "returns nothing either" }
                ),
                case.clone(),
            );
            return;
        }
        match rv.drive().await {
            Ok(Some(Ok(m))) => {
                let skip = if ty == "ROUTER" { 1 } else { 0 };
                match crate::refcodec::parse_tag(&m, skip) {
                    Ok(t) if t.origin as usize == who && t.seq == next_seq[who] => {}
                    other => {
                        if me == "C05" {
                            ctx.violation_with(&format!("C05/lost-or-reordered/{ty}"), format!("expected ({who},{}) got {other:?}", next_seq[who]), case.clone());
                        }
                        return;
                    }
                }
            }
            other => {
                let sig = if me == "C06" { format!("C06/available-message-never-returned/{ty}") } else { format!("C05/message-never-delivered/{ty}") };
                ctx.violation_with(&sig, format!("peer {who} of {n} sent a message; recv gave {other:?}"), case.clone());
                return;
            }
        }
        drop(rv);
        next_seq[who] += 1;
        if ty == "REP" {
            let _ = crate::sim::complete(sock.send(&crate::refcodec::tagged(999, round, &[1]))).await;
        }
    }
}

/// Targeted: (a) a peer's connection ends, the socket notices, the peer comes back under
/// its identity and sends SEVERAL messages; (b) a peer sends a command the library does not
/// know, then a short complete message, then nothing: the message is returned or the
/// connection is given up with an error — never neither.
async fn targeted_streams(me: &str, ctx: &mut Ctx, ty: &str, what: &str, case: &Value) {
    use crate::sock::{peer_type_for, Peer, Sock};
    let lost = |ty: &str| if me == "C06" { format!("C06/available-message-never-returned/{ty}") } else { format!("C05/message-never-delivered/{ty}") };
    let mut sock = Sock::new(ty, None);
    if ty == "SUB" {
        let _ = crate::sim::complete(sock.subscribe("")).await;
    }
    let wire = |payload: &crate::refcodec::Frames| -> crate::refcodec::Frames {
        if ty == "REP" {
            let mut w = vec![vec![]];
            w.extend(payload.clone());
            w
        } else {
            payload.clone()
        }
    };
    let bystander = Peer::attach(&sock, peer_type_for(ty), Some(b"bystander")).await.ok();
    let Ok(a) = Peer::attach(&sock, peer_type_for(ty), Some(b"comes-back")).await else {
        ctx.inconclusive(format!("{me} attach"));
        return;
    };
    let skip = if ty == "ROUTER" { 1 } else { 0 };
    let mut reply_if_rep = |sock: &mut Sock| {
        let _ = sock;
    };
    let _ = &mut reply_if_rep;
    match what {
        "xpub-repeated-subscriptions" => {
            // every message a subscriber sends is a message of its own for XPUB.recv, also one
            // that changes nothing (a repeated subscribe, a cancel of something never subscribed)
            let msgs: Vec<Vec<u8>> = vec![b"\x01a".to_vec(), b"\x01a".to_vec(), b"\x00b".to_vec(), b"\x00a".to_vec(), b"\x00a".to_vec(), b"\x00a".to_vec(), b"\x01".to_vec(), b"\x01".to_vec()];
            for m in &msgs {
                a.send(&[m.clone()]);
            }
            for (i, m) in msgs.iter().enumerate() {
                match recv_now(&mut sock).await {
                    Some(Ok(got)) if got == vec![m.clone()] => ctx.count("xpub_redundant_subscription_messages_returned"),
                    other => {
                        ctx.violation_with(
                            &lost(ty),
                            format!("a subscriber sent 8 subscription messages, some of them redundant; message #{i} ({}) : XPUB.recv gave {other:?}", crate::refcodec::hex(m)),
                            case.clone(),
                        );
                        return;
                    }
                }
            }
        }
        "reconnect-noticed" => {
            a.send(&wire(&crate::refcodec::tagged(1, 0, &[3])));
            if !matches!(recv_now(&mut sock).await, Some(Ok(_))) {
                ctx.inconclusive(format!("{me} targeted: first message not received"));
                return;
            }
            if ty == "REP" {
                let _ = crate::sim::complete(sock.send(&crate::refcodec::tagged(9, 0, &[1]))).await;
            }
            a.conn.close_full(crate::pipe::EndKind::Eof);
            let _ = recv_now(&mut sock).await; // the end is noticed (nothing to return)
            let Ok(b) = Peer::attach(&sock, peer_type_for(ty), Some(b"comes-back")).await else {
                ctx.violation_with(&format!("{me}/reconnect-rejected/{ty}"), "a peer coming back under its identity was rejected".into(), case.clone());
                return;
            };
            for i in 1..=4u32 {
                b.send(&wire(&crate::refcodec::tagged(1, i, &[(i as usize) * 3, 0])));
                match recv_now(&mut sock).await {
                    Some(Ok(m)) if crate::refcodec::parse_tag(&m, skip).map(|t| t.seq == i).unwrap_or(false) => {}
                    other => {
                        ctx.violation_with(
                            &lost(ty),
                            format!("a peer's connection ended (noticed by the socket), the peer came back under its identity; message #{i} on the new connection: recv gave {other:?}"),
                            case.clone(),
                        );
                        return;
                    }
                }
                if ty == "REP" {
                    let _ = crate::sim::complete(sock.send(&crate::refcodec::tagged(9, i, &[1]))).await;
                }
                ctx.count("messages_after_a_noticed_end_and_reconnect");
            }
        }
        _ => {
            // unknown command (7-byte body), then a message shorter than that body
            a.conn.feed(&crate::refcodec::command(b"PING", &[0, 1, 2, 3, 4, 5, 6]));
            a.conn.feed(&crate::refcodec::message(&wire(&vec![b"ok".to_vec()])));
            let mut outcome = None;
            for _ in 0..3 {
                match recv_now(&mut sock).await {
                    Some(Ok(m)) => {
                        outcome = Some(format!("message {}", crate::refcodec::frames_summary(&m)));
                        break;
                    }
                    Some(Err(_)) => {
                        outcome = Some("error".into());
                        break;
                    }
                    None => {}
                }
            }
            let gave_up = a.conn.reader_dropped();
            if outcome.is_none() && !gave_up {
                ctx.violation_with(
                    &lost(ty),
                    "a peer sent a command the library does not know (PING, 7-byte body), then the complete message ['ok'], then nothing: recv neither returns the message nor reports an error, and the connection is still held".into(),
                    case.clone(),
                );
                return;
            }
            ctx.count("short_messages_behind_an_unknown_command");
        }
    }
    // the bystander is served all along
    if let Some(bp) = bystander {
        bp.send(&wire(&crate::refcodec::tagged(2, 0, &[5])));
        if !matches!(recv_now(&mut sock).await, Some(Ok(_))) {
            ctx.violation_with(&lost(ty), "a bystander's message was not delivered afterwards".into(), case.clone());
        }
    }
}

fn busy_recv_case(me: &str, case: &Value, ctx: &mut Ctx) {
    use std::process::{Command, Stdio};
    let ty = s(case, "ty").to_string();
    let n = u(case, "n");
    ctx.eval(crate::prng::hash_str(&case.to_string()), true);
    ctx.count("busy_recv_loops");
    ctx.sample("busy_recv", || case.clone());
    let exe = std::env::current_exe().expect("current_exe");
    let mut child = match Command::new(exe)
        .args(["child", "busyrecv", &ty, &n.to_string()])
        .stdout(Stdio::piped())
        .stderr(Stdio::null())
        .spawn()
    {
        Ok(c) => c,
        Err(e) => {
            ctx.inconclusive(format!("{me}: cannot spawn child: {e}"));
            return;
        }
    };
    let t0 = std::time::Instant::now();
    let limit = std::time::Duration::from_secs(40);
    loop {
        match child.try_wait() {
            Ok(Some(_)) => break,
            Ok(None) => {
                if t0.elapsed() > limit {
                    // CPU time tells a spin from a machine that is merely slow
                    let stat = std::fs::read_to_string(format!("/proc/{}/stat", child.id())).unwrap_or_default();
                    let f: Vec<&str> = stat.rsplit(')').next().unwrap_or("").split_whitespace().collect();
                    let ticks: u64 = f.get(11).and_then(|x| x.parse().ok()).unwrap_or(0) + f.get(12).and_then(|x| x.parse().ok()).unwrap_or(0);
                    let _ = child.kill();
                    let out = child.wait_with_output().map(|o| String::from_utf8_lossy(&o.stdout).into_owned()).unwrap_or_default();
                    let last = out.lines().last().unwrap_or("").to_string();
                    let cpu_s = ticks / 100;
                    if me == "C06" {
                        ctx.violation_with(
                            &format!("C06/rig/recv-loop-never-completes/{ty}"),
                            format!(
                                "a {ty} socket receiving {n} x 9 KB messages in a `loop {{ recv().await }}` inside block_on made no progress for {limit:?} (last: {last:?}, child CPU time {cpu_s} s: {})",
                                if cpu_s >= 10 { "spinning" } else { "blocked" }
                            ),
                            case.clone(),
                        );
                    } else {
                        ctx.count("findings_of_sibling_property");
                    }
                    return;
                }
                std::thread::sleep(std::time::Duration::from_millis(20));
            }
            Err(e) => {
                ctx.inconclusive(format!("{me}: wait: {e}"));
                return;
            }
        }
    }
    let out = child.wait_with_output().map(|o| String::from_utf8_lossy(&o.stdout).into_owned()).unwrap_or_default();
    if out.lines().any(|l| l == "DONE") {
        ctx.add("busy_recv_messages", n);
    } else {
        let last = out.lines().last().unwrap_or("").to_string();
        if me == "C05" {
            ctx.violation_with(&format!("C05/rig/busy-recv-wrong-result/{ty}"), last, case.clone());
        } else {
            ctx.inconclusive(format!("C06 busy recv child: {last}"));
        }
    }
}

fn run_case(me: &str, case: &Value, ctx: &mut Ctx) {
    match s(case, "kind") {
        "busy_recv" => busy_recv_case(me, case, ctx),
        "targeted" => {
            ctx.eval(crate::prng::hash_str(&case.to_string()), true);
            ctx.sample("targeted", || case.clone());
            let ty = s(case, "ty").to_string();
            let what = s(case, "what").to_string();
            sim::run(targeted_streams(me, ctx, &ty, &what, case));
        }
        "many_idle" => {
            ctx.eval(crate::prng::hash_str(&case.to_string()), true);
            ctx.sample("many_idle", || case.clone());
            let ty = s(case, "ty").to_string();
            sim::run(many_idle_peers(me, ctx, &ty, u(case, "n") as usize, u(case, "seed"), case));
        }
        "rig_pair" => {
            let pair = s(case, "pair").to_string();
            ctx.eval(crate::prng::hash_str(&case.to_string()), true);
            ctx.sample("rig_pair", || case.clone());
            let (res, _) = crate::rig::run(4, rig_pair(&pair, u(case, "senders") as usize, u(case, "per") as u32));
            match res {
                Ok((got, gaps)) => {
                    ctx.add("rig_messages_delivered", got);
                    ctx.add("rig_pubsub_messages_dropped_by_hwm", gaps);
                    ctx.count(&format!("rig_pairs/{pair}"));
                }
                Err(e) => {
                    if me == "C05" {
                        ctx.violation_with(&format!("C05/rig/{pair}"), e, case.clone());
                    } else if e.contains("starved") || e.contains("timed out") {
                        ctx.violation_with(&format!("C06/rig/receiver-starved/{pair}"), e, case.clone());
                    } else {
                        ctx.count("findings_of_sibling_property");
                    }
                }
            }
        }
        "fq_sweep" => {
            ctx.sample("fq_sweep", || case.clone());
            sweep(
                ctx,
                me,
                u(case, "k") as usize,
                u(case, "depth") as usize,
                case["pre"].as_bool().unwrap_or(false),
                case["block"].as_bool().unwrap_or(true),
                u(case, "first") as usize,
            );
        }
        "fq_actions" => {
            let acts: Vec<Act> = case["acts"]
                .as_array()
                .map(|a| a.iter().filter_map(|x| Act::from_name(x.as_str().unwrap_or(""))).collect())
                .unwrap_or_default();
            let out = fq::run_actions(u(case, "k") as usize, case["block"].as_bool().unwrap_or(true), case["pre"].as_bool().unwrap_or(false), &acts);
            ctx.eval(out.trace, true);
            add_fq_counters(ctx, &out.counters);
            report(ctx, me, &out.findings, || case.clone());
        }
        "fq_walks" => {
            let k = u(case, "k") as usize;
            let saturate = case["saturate"].as_bool().unwrap_or(false);
            for w in 0..u(case, "n") {
                let seed = mix(u(case, "seed") ^ w);
                let (acts, out) = fq::random_walk(k, u(case, "len") as usize, seed, saturate);
                ctx.eval(out.trace, true);
                ctx.interleaving(out.trace);
                add_fq_counters(ctx, &out.counters);
                ctx.count(if saturate { "fq_saturation_walks" } else { "fq_random_walks" });
                if w == 0 {
                    ctx.sample("fq_walk", || json!({"k": k, "saturate": saturate, "first_actions": acts_json(&acts[..acts.len().min(25)])}));
                }
                if !out.findings.is_empty() {
                    report(ctx, me, &out.findings, || json!({"kind": "fq_actions", "k": k, "pre": false, "block": true, "acts": acts_json(&acts)}));
                    if out.findings.iter().any(|f| f.signature.starts_with(me)) {
                        break;
                    }
                }
            }
        }
        "fq_threaded" => {
            let (findings, st) = fq::threaded_runs(u(case, "runs"), u(case, "seed"));
            ctx.eval_bulk(st.runs, st.runs);
            ctx.add("threaded_runs", st.runs);
            ctx.add("threaded_deliveries", st.deliveries);
            ctx.add("threaded_parks", st.parks);
            ctx.add("threaded_parks_followed_by_wake", st.parks_followed_by_wake);
            ctx.add("threaded_inserts_from_producer_thread", st.inserts_from_producer_thread);
            ctx.sample("fq_threaded", || case.clone());
            if st.watchdog_expired > 0 {
                ctx.inconclusive(format!("{me}: threaded leg watchdog expired {} times", st.watchdog_expired));
            }
            report(ctx, me, &findings, || case.clone());
        }
        "hist" => {
            let o = HistOpts {
                ty: s(case, "ty").to_string(),
                peers: u(case, "peers") as usize,
                per_peer: u(case, "per") as u32,
                seed: u(case, "seed"),
                late_joiners: u(case, "late") as usize,
                leavers: case["leavers"].as_bool().unwrap_or(false),
                envelope_violations: case["violations"].as_bool().unwrap_or(false),
                drops: case["drops"].as_bool().unwrap_or(false),
                saturate: case["saturate"].as_bool().unwrap_or(false),
            };
            let out = sim::run(hist::run(&o));
            ctx.eval(hash_str(&case.to_string()), o.peers + o.late_joiners > 1);
            ctx.interleaving(out.trace);
            add_hist_counters(ctx, &out.counters);
            ctx.count(&format!("sock_runs/{}", o.ty));
            ctx.sample(&format!("hist_{}", o.ty), || case.clone());
            report(ctx, me, &out.findings, || case.clone());
        }
        _ => ctx.inconclusive(format!("unknown case {case}")),
    }
}

fn common_cases(tier: Tier, seed: u64, me: &str) -> Vec<Value> {
    let mut v = Vec::new();
    // exhaustive sweeps at the probe level
    let plans: &[(usize, usize, bool)] = match tier {
        Tier::Quick => &[(1, 7, false), (2, 5, false), (2, 6, true), (3, 4, false), (3, 5, true)],
        Tier::Thorough => &[(1, 8, false), (2, 6, false), (2, 7, true), (3, 5, false), (3, 6, true)],
    };
    for (k, depth, pre) in plans {
        for first in 0..(1 + 7 * k) {
            v.push(json!({"kind": "fq_sweep", "k": k, "depth": depth, "pre": pre, "block": true, "first": first}));
        }
    }
    v.push(json!({"kind": "fq_sweep", "k": 2, "depth": 4, "pre": false, "block": false, "first": 0}));
    for k in 1..=8usize {
        v.push(json!({"kind": "fq_walks", "k": k, "len": 200, "n": tier.pick(600, 30_000), "seed": mix(seed ^ k as u64), "saturate": false}));
        if k >= 2 {
            v.push(json!({"kind": "fq_walks", "k": k, "len": 300, "n": tier.pick(30, 1500), "seed": mix(seed ^ 77 ^ k as u64), "saturate": true}));
        }
    }
    for sh in 0..tier.pick(8, 16) {
        v.push(json!({"kind": "fq_threaded", "runs": tier.pick(15_000, 150_000), "seed": mix(seed ^ 0x7777 ^ sh)}));
    }
    // cooperative yielding (tokio's coop budget) at the probe level, targeted
    for acts in [
        vec!["insert(0)", "arrive(0)", "yield(0)", "poll"],
        vec!["insert(0)", "insert(1)", "arrive(1)", "poll", "yield(0)", "arrive(0)", "poll", "poll"],
        vec!["insert(0)", "poll", "yield(0)", "poll", "arrive(0)", "poll"],
    ] {
        v.push(json!({"kind": "fq_actions", "k": 2, "pre": false, "block": true, "acts": acts}));
    }
    for acts in [
        vec!["insert(0)", "arrive(0)", "poll", "new-waker", "poll", "arrive(0)"],
        vec!["insert(0)", "insert(1)", "arrive(1)", "poll", "poll", "new-waker", "poll", "arrive(0)"],
        vec!["insert(0)", "poll", "reinsert(0)", "arrive(0)"],
        vec!["insert(0)", "arrive(0)", "poll", "poll", "reinsert(0)", "poll", "arrive(0)"],
    ] {
        v.push(json!({"kind": "fq_actions", "k": 2, "pre": false, "block": true, "acts": acts}));
    }
    // a key that is inserted again (a peer reconnecting under its identity) while its
    // earlier events are still queued must not collect one more turn per re-insertion
    for (k, r) in [(2usize, 3usize), (2, 5), (2, 9), (3, 5), (3, 9), (3, 17)] {
        let mut acts: Vec<String> = (0..k).map(|i| format!("insert({i})")).collect();
        for i in 0..k {
            if i != 1 {
                acts.extend(std::iter::repeat(format!("arrive({i})")).take(r + 6));
            }
        }
        for _ in 0..r {
            acts.push("arrive(1)".into());
            acts.push("reinsert(1)".into());
        }
        acts.extend(std::iter::repeat("arrive(1)".to_string()).take(2 * r + 8));
        acts.extend(std::iter::repeat("poll".to_string()).take(k * (r + 6) + 2 * r + 8));
        v.push(json!({"kind": "fq_actions", "k": k, "pre": false, "block": true, "acts": acts}));
    }
    // ... and for real: a recv loop in block_on while a peer floods the socket
    for ty in ["PULL", "ROUTER", "REP", "DEALER", "SUB"] {
        v.push(json!({"kind": "busy_recv", "ty": ty, "n": tier.pick(400, 2000)}));
    }
    for pair in ["push-pull", "pub-sub", "dealer-router", "req-rep"] {
        for senders in [1usize, 4, 8] {
            v.push(json!({"kind": "rig_pair", "pair": pair, "senders": senders, "per": tier.pick(300, 3000)}));
        }
    }
    for ty in FQ_TYPES {
        for what in ["reconnect-noticed", "unknown-command-then-short-message"] {
            v.push(json!({"kind": "targeted", "ty": ty, "what": what}));
        }
        if ty == "XPUB" {
            v.push(json!({"kind": "targeted", "ty": ty, "what": "xpub-repeated-subscriptions"}));
        }
    }
    for ty in FQ_TYPES {
        for n in [33usize, 40, 70, 130] {
            for k in 0..tier.pick(2u64, 20) {
                v.push(json!({"kind": "many_idle", "ty": ty, "n": n, "seed": mix(seed ^ 0x1D7E ^ k)}));
            }
        }
    }
    // socket level
    for ty in FQ_TYPES {
        for n in 1..=6usize {
            for k in 0..tier.pick(30, 3000) {
                // C05: in a fifth of the runs the application abandons recv calls (select!,
                // timeouts): a consumed message still has to be returned by some call
                let drops = me == "C05" && k % 5 == 4;
                v.push(json!({"kind": "hist", "ty": ty, "peers": n, "per": 5, "late": k % 3, "leavers": k % 2 == 1, "drops": drops,
                              "violations": me == "C05" && !drops, "saturate": false, "seed": mix(seed ^ (k as u64) << 8 ^ n as u64)}));
            }
        }
        for n in 2..=6usize {
            for k in 0..tier.pick(3, 300) {
                v.push(json!({"kind": "hist", "ty": ty, "peers": n, "per": 60, "late": 0, "leavers": false,
                              "violations": false, "saturate": true, "seed": mix(seed ^ 0x5A7 ^ (k as u64) << 8 ^ n as u64)}));
            }
        }
    }
    v
}

impl Prop for C05 {
    fn id(&self) -> &'static str {
        "C05"
    }
    fn cases(&self, tier: Tier, seed: u64) -> Vec<Value> {
        common_cases(tier, seed, "C05")
    }
    fn run(&self, case: &Value, ctx: &mut Ctx) {
        run_case("C05", case, ctx)
    }
    fn sanitizer_cases(&self, seed: u64) -> Vec<Value> {
        fq_sanitizer_cases(seed)
    }
    fn floors(&self, _tier: Tier) -> Vec<(&'static str, u64)> {
        vec![
            ("fq_sweep_sequences", 100_000),
            ("fq_random_walks", 2000),
            ("fq_deliveries", 10_000),
            ("fq_arrival_inside_checkout_window", 100),
            ("fq_insert_mid_poll", 100),
            ("fq_close_mid_poll", 100),
            ("fq_insert_while_parked", 100),
            ("fq_stale_polls", 100),
            ("fq_waker_changes", 100),
            ("fq_reinserts_under_a_registered_key", 100),
            ("threaded_runs", 50_000),
            ("sock_deliveries", 5000),
            ("sock_joins_while_recv_pending", 50),
            ("sock_peers_cut_mid_message", 50),
            ("sock_peers_reset", 50),
            ("sock_partial_releases", 1000),
            ("sock_envelope_violations_sent", 20),
            ("sock_messages_ending_in_empty_frame", 100),
            ("sock_reconnects_under_the_same_identity", 20),
            ("sock_cooperative_yields", 100),
            ("rig_messages_delivered", 5000),
            ("messages_from_one_of_many_idle_peers", 300),
            ("messages_after_a_noticed_end_and_reconnect", 20),
            ("short_messages_behind_an_unknown_command", 6),
            ("sock_frames_beyond_64k", 50),
        ]
    }
    fn case_timeout(&self) -> std::time::Duration {
        std::time::Duration::from_secs(240)
    }
}

impl Prop for C06 {
    fn id(&self) -> &'static str {
        "C06"
    }
    fn cases(&self, tier: Tier, seed: u64) -> Vec<Value> {
        common_cases(tier, seed ^ 0xC06, "C06")
    }
    fn run(&self, case: &Value, ctx: &mut Ctx) {
        run_case("C06", case, ctx)
    }
    fn sanitizer_cases(&self, seed: u64) -> Vec<Value> {
        fq_sanitizer_cases(seed ^ 0xC06)
    }
    fn floors(&self, _tier: Tier) -> Vec<(&'static str, u64)> {
        vec![
            ("fq_sweep_sequences", 100_000),
            ("fq_probes", 1000),
            ("fq_parks", 1000),
            ("fq_arrival_while_parked", 1000),
            ("fq_insert_while_parked", 100),
            ("fq_arrival_inside_checkout_window", 100),
            ("fq_last_stream_closed_while_parked", 10),
            ("fq_saturation_walks", 100),
            ("threaded_runs", 50_000),
            ("threaded_parks_followed_by_wake", 1000),
            ("threaded_inserts_from_producer_thread", 1000),
            ("sock_recv_parks", 1000),
            ("sock_probes", 100),
        ]
    }
    fn case_timeout(&self) -> std::time::Duration {
        std::time::Duration::from_secs(240)
    }
}

fn fq_sanitizer_cases(seed: u64) -> Vec<Value> {
    let mut v = vec![
        json!({"kind": "fq_sweep", "k": 2, "depth": 3, "pre": true, "block": true, "first": 1}),
        json!({"kind": "fq_walks", "k": 3, "len": 60, "n": 6, "seed": seed, "saturate": false}),
        json!({"kind": "fq_walks", "k": 3, "len": 30, "n": 1, "seed": seed ^ 5, "saturate": true}),
        // real threads: data races / UB in the queue under the interpreter's scheduler
        json!({"kind": "fq_threaded", "runs": 12, "seed": seed}),
    ];
    for ty in ["PULL", "ROUTER", "REP"] {
        v.push(json!({"kind": "hist", "ty": ty, "peers": 2, "per": 2, "late": 1, "leavers": true, "violations": false, "saturate": false, "seed": seed ^ 9}));
    }
    v
}
