//! C05 — receive delivers each peer's messages exactly once, whole and in order.
//! C06 — a waiting receiver is always woken, and no peer is starved.
//! Both run the same engines (fq.rs probe level, hist.rs socket level) and
//! each reports the findings that belong to it.

use super::common::*;
use crate::fq::{self, Act, Gen};
use crate::hist::{self, HistOpts};
use crate::prng::{hash_str, mix};
use crate::report::{Ctx, Tier};
use crate::sim;
use crate::sock::FQ_TYPES;
use crate::Prop;
use serde_json::{json, Value};

pub struct C05;
pub struct C06;

fn add_fq_counters(ctx: &mut Ctx, c: &fq::Counters) {
    ctx.add("fq_arrival_inside_checkout_window", c.arrival_inside_checkout_window);
    ctx.add("fq_insert_mid_poll", c.insert_mid_poll);
    ctx.add("fq_close_mid_poll", c.close_mid_poll);
    ctx.add("fq_insert_while_parked", c.insert_while_parked);
    ctx.add("fq_arrival_while_parked", c.arrival_while_parked);
    ctx.add("fq_last_stream_closed_while_parked", c.last_stream_closed_while_parked);
    ctx.add("fq_stale_polls", c.stale_polls);
    ctx.add("fq_stream_polls", c.stream_polls);
    ctx.add("fq_deliveries", c.deliveries);
    ctx.add("fq_parks", c.parks);
    ctx.add("fq_probes", c.probes);
    ctx.max("fq_max_overtaken", c.max_overtaken);
}

fn add_hist_counters(ctx: &mut Ctx, c: &hist::HistCounters) {
    ctx.add("sock_deliveries", c.deliveries);
    ctx.add("sock_errors_returned", c.errors_returned);
    ctx.add("sock_joins_while_recv_pending", c.joins_while_recv_pending);
    ctx.add("sock_peers_cut_mid_message", c.peers_cut_mid_message);
    ctx.add("sock_peers_left_at_boundary", c.peers_left_at_boundary);
    ctx.add("sock_peers_reset", c.peers_reset);
    ctx.add("sock_partial_releases", c.partial_releases);
    ctx.add("sock_recv_parks", c.recv_parks);
    ctx.add("sock_probes", c.probes);
    ctx.add("sock_envelope_violations_sent", c.envelope_violations_sent);
    ctx.add("drops_total", c.drops_total);
    ctx.add("drops_with_partial_frame", c.drops_with_partial_frame);
    ctx.add("drops_after_waker_registered", c.drops_after_waker_registered);
    ctx.add("drops_with_full_message_buffered", c.drops_with_full_message_buffered);
    ctx.add("drops_never_polled", c.drops_never_polled);
    ctx.max("sock_max_overtaken", c.max_overtaken);
}

fn report(ctx: &mut Ctx, me: &str, findings: &[fq::Finding], witness: impl Fn() -> Value) {
    for f in findings {
        if f.signature == "harness" {
            ctx.inconclusive(format!("{me}: {}", f.message));
        } else if f.signature.starts_with(me) {
            ctx.violation_with(&f.signature, f.message.clone(), witness());
        } else if me == "C05" && f.signature.contains("lost-wakeup") {
            // a message the receiver is never woken for is also a message that is
            // never consumed: C05 reports it under its own signature
            let sig = f
                .signature
                .replace("C06/fq/lost-wakeup", "C05/fq/item-never-delivered-receiver-not-woken")
                .replace("C06/fq-threaded/lost-wakeup", "C05/fq-threaded/item-never-delivered")
                .replace("C06/socket-lost-wakeup", "C05/message-never-delivered");
            ctx.violation_with(&sig, f.message.clone(), witness());
        } else {
            // belongs to the sibling property: counted, reported by its own check
            ctx.count("findings_of_sibling_property");
        }
    }
}

fn acts_json(acts: &[Act]) -> Value {
    Value::Array(acts.iter().map(|a| json!(a.name())).collect())
}

/// DFS over all action sequences up to `depth`, each replayed from scratch.
fn sweep(ctx: &mut Ctx, me: &str, k: usize, depth: usize, pre: bool, block: bool, first: usize) {
    fn rec(
        ctx: &mut Ctx,
        me: &str,
        k: usize,
        depth: usize,
        pre: bool,
        block: bool,
        g: &Gen,
        acts: &mut Vec<Act>,
        n: &mut u64,
        stop: &mut bool,
    ) {
        if *stop {
            return;
        }
        if !acts.is_empty() {
            let out = fq::run_actions(k, block, pre, acts);
            *n += 1;
            ctx.interleaving(out.trace);
            if *n % 64 == 0 || !out.findings.is_empty() {
                add_fq_counters(ctx, &out.counters);
            }
            if !out.findings.is_empty() {
                let a = acts.clone();
                report(ctx, me, &out.findings, || {
                    json!({"kind": "fq_actions", "k": k, "pre": pre, "block": block, "acts": acts_json(&a)})
                });
                if out.findings.iter().any(|f| f.signature.starts_with(me)) {
                    *stop = true;
                }
                return;
            }
        }
        if acts.len() == depth {
            return;
        }
        for a in g.enabled(true, true) {
            let mut g2 = g.clone();
            g2.apply(a);
            acts.push(a);
            rec(ctx, me, k, depth, pre, block, &g2, acts, n, stop);
            acts.pop();
        }
    }
    let mut g = Gen::new(k, 3);
    if pre {
        for i in 0..k {
            g.apply(Act::Insert(i));
        }
    }
    let en = g.enabled(true, true);
    if first >= en.len() {
        return;
    }
    let a = en[first];
    let mut g2 = g.clone();
    g2.apply(a);
    let mut acts = vec![a];
    let mut n = 0u64;
    let mut stop = false;
    rec(ctx, me, k, depth, pre, block, &g2, &mut acts, &mut n, &mut stop);
    ctx.eval_bulk(n, n);
    ctx.add("fq_sweep_sequences", n);
}

fn run_case(me: &str, case: &Value, ctx: &mut Ctx) {
    match s(case, "kind") {
        "fq_sweep" => {
            ctx.sample("fq_sweep", || case.clone());
            sweep(
                ctx,
                me,
                u(case, "k") as usize,
                u(case, "depth") as usize,
                case["pre"].as_bool().unwrap_or(false),
                case["block"].as_bool().unwrap_or(true),
                u(case, "first") as usize,
            );
        }
        "fq_actions" => {
            let acts: Vec<Act> = case["acts"]
                .as_array()
                .map(|a| a.iter().filter_map(|x| Act::from_name(x.as_str().unwrap_or(""))).collect())
                .unwrap_or_default();
            let out = fq::run_actions(u(case, "k") as usize, case["block"].as_bool().unwrap_or(true), case["pre"].as_bool().unwrap_or(false), &acts);
            ctx.eval(out.trace, true);
            add_fq_counters(ctx, &out.counters);
            report(ctx, me, &out.findings, || case.clone());
        }
        "fq_walks" => {
            let k = u(case, "k") as usize;
            let saturate = case["saturate"].as_bool().unwrap_or(false);
            for w in 0..u(case, "n") {
                let seed = mix(u(case, "seed") ^ w);
                let (acts, out) = fq::random_walk(k, u(case, "len") as usize, seed, saturate);
                ctx.eval(out.trace, true);
                ctx.interleaving(out.trace);
                add_fq_counters(ctx, &out.counters);
                ctx.count(if saturate { "fq_saturation_walks" } else { "fq_random_walks" });
                if w == 0 {
                    ctx.sample("fq_walk", || json!({"k": k, "saturate": saturate, "first_actions": acts_json(&acts[..acts.len().min(25)])}));
                }
                if !out.findings.is_empty() {
                    report(ctx, me, &out.findings, || json!({"kind": "fq_actions", "k": k, "pre": false, "block": true, "acts": acts_json(&acts)}));
                    if out.findings.iter().any(|f| f.signature.starts_with(me)) {
                        break;
                    }
                }
            }
        }
        "fq_threaded" => {
            let (findings, st) = fq::threaded_runs(u(case, "runs"), u(case, "seed"));
            ctx.eval_bulk(st.runs, st.runs);
            ctx.add("threaded_runs", st.runs);
            ctx.add("threaded_deliveries", st.deliveries);
            ctx.add("threaded_parks", st.parks);
            ctx.add("threaded_parks_followed_by_wake", st.parks_followed_by_wake);
            ctx.add("threaded_inserts_from_producer_thread", st.inserts_from_producer_thread);
            ctx.sample("fq_threaded", || case.clone());
            if st.watchdog_expired > 0 {
                ctx.inconclusive(format!("{me}: threaded leg watchdog expired {} times", st.watchdog_expired));
            }
            report(ctx, me, &findings, || case.clone());
        }
        "hist" => {
            let o = HistOpts {
                ty: s(case, "ty").to_string(),
                peers: u(case, "peers") as usize,
                per_peer: u(case, "per") as u32,
                seed: u(case, "seed"),
                late_joiners: u(case, "late") as usize,
                leavers: case["leavers"].as_bool().unwrap_or(false),
                envelope_violations: case["violations"].as_bool().unwrap_or(false),
                drops: false,
                saturate: case["saturate"].as_bool().unwrap_or(false),
            };
            let out = sim::run(hist::run(&o));
            ctx.eval(hash_str(&case.to_string()), o.peers + o.late_joiners > 1);
            ctx.interleaving(out.trace);
            add_hist_counters(ctx, &out.counters);
            ctx.count(&format!("sock_runs/{}", o.ty));
            ctx.sample(&format!("hist_{}", o.ty), || case.clone());
            report(ctx, me, &out.findings, || case.clone());
        }
        _ => ctx.inconclusive(format!("unknown case {case}")),
    }
}

fn common_cases(tier: Tier, seed: u64, me: &str) -> Vec<Value> {
    let mut v = Vec::new();
    // exhaustive sweeps at the probe level
    let plans: &[(usize, usize, bool)] = match tier {
        Tier::Quick => &[(1, 6, false), (2, 5, false), (2, 6, true), (3, 4, false), (3, 5, true)],
        Tier::Thorough => &[(1, 8, false), (2, 6, false), (2, 7, true), (3, 5, false), (3, 6, true)],
    };
    for (k, depth, pre) in plans {
        for first in 0..(1 + 7 * k) {
            v.push(json!({"kind": "fq_sweep", "k": k, "depth": depth, "pre": pre, "block": true, "first": first}));
        }
    }
    v.push(json!({"kind": "fq_sweep", "k": 2, "depth": 4, "pre": false, "block": false, "first": 0}));
    for k in 1..=8usize {
        v.push(json!({"kind": "fq_walks", "k": k, "len": 200, "n": tier.pick(300, 3000), "seed": mix(seed ^ k as u64), "saturate": false}));
        if k >= 2 {
            v.push(json!({"kind": "fq_walks", "k": k, "len": 300, "n": tier.pick(30, 300), "seed": mix(seed ^ 77 ^ k as u64), "saturate": true}));
        }
    }
    for sh in 0..tier.pick(8, 16) {
        v.push(json!({"kind": "fq_threaded", "runs": tier.pick(15_000, 150_000), "seed": mix(seed ^ 0x7777 ^ sh)}));
    }
    // socket level
    for ty in FQ_TYPES {
        for n in 1..=6usize {
            for k in 0..tier.pick(12, 120) {
                v.push(json!({"kind": "hist", "ty": ty, "peers": n, "per": 5, "late": k % 3, "leavers": k % 2 == 1,
                              "violations": me == "C05", "saturate": false, "seed": mix(seed ^ (k as u64) << 8 ^ n as u64)}));
            }
        }
        for n in 2..=6usize {
            for k in 0..tier.pick(3, 30) {
                v.push(json!({"kind": "hist", "ty": ty, "peers": n, "per": 60, "late": 0, "leavers": false,
                              "violations": false, "saturate": true, "seed": mix(seed ^ 0x5A7 ^ (k as u64) << 8 ^ n as u64)}));
            }
        }
    }
    v
}

impl Prop for C05 {
    fn id(&self) -> &'static str {
        "C05"
    }
    fn cases(&self, tier: Tier, seed: u64) -> Vec<Value> {
        common_cases(tier, seed, "C05")
    }
    fn run(&self, case: &Value, ctx: &mut Ctx) {
        run_case("C05", case, ctx)
    }
    fn floors(&self, _tier: Tier) -> Vec<(&'static str, u64)> {
        vec![
            ("fq_sweep_sequences", 100_000),
            ("fq_random_walks", 2000),
            ("fq_deliveries", 10_000),
            ("fq_arrival_inside_checkout_window", 100),
            ("fq_insert_mid_poll", 100),
            ("fq_close_mid_poll", 100),
            ("fq_insert_while_parked", 100),
            ("fq_stale_polls", 100),
            ("threaded_runs", 50_000),
            ("sock_deliveries", 5000),
            ("sock_joins_while_recv_pending", 50),
            ("sock_peers_cut_mid_message", 50),
            ("sock_peers_reset", 50),
            ("sock_partial_releases", 1000),
            ("sock_envelope_violations_sent", 20),
        ]
    }
    fn case_timeout(&self) -> std::time::Duration {
        std::time::Duration::from_secs(900)
    }
}

impl Prop for C06 {
    fn id(&self) -> &'static str {
        "C06"
    }
    fn cases(&self, tier: Tier, seed: u64) -> Vec<Value> {
        common_cases(tier, seed ^ 0xC06, "C06")
    }
    fn run(&self, case: &Value, ctx: &mut Ctx) {
        run_case("C06", case, ctx)
    }
    fn floors(&self, _tier: Tier) -> Vec<(&'static str, u64)> {
        vec![
            ("fq_sweep_sequences", 100_000),
            ("fq_probes", 1000),
            ("fq_parks", 1000),
            ("fq_arrival_while_parked", 1000),
            ("fq_insert_while_parked", 100),
            ("fq_arrival_inside_checkout_window", 100),
            ("fq_last_stream_closed_while_parked", 10),
            ("fq_saturation_walks", 100),
            ("threaded_runs", 50_000),
            ("threaded_parks_followed_by_wake", 1000),
            ("threaded_inserts_from_producer_thread", 1000),
            ("sock_recv_parks", 1000),
            ("sock_probes", 100),
        ]
    }
    fn case_timeout(&self) -> std::time::Duration {
        std::time::Duration::from_secs(900)
    }
}
