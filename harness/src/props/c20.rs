//! C20 — a stalled or malicious handshake never blocks other connections.

use super::c18::{exchange, ConnRec};
use super::common::*;
use crate::prng::{hash_str, mix, Rng};
use crate::refcodec::{self as rc};
use crate::report::{Ctx, Tier};
use crate::rig::{self, Raw, WAIT};
use crate::sock::{peer_type_for, Sock};
use crate::Prop;
use futures::StreamExt;
use serde_json::{json, Value};
use std::time::Duration;
use zeromq::SocketEvent;

pub struct C20;

const TYPES: [&str; 5] = ["REP", "ROUTER", "PULL", "PUB", "XPUB"];
/// stop: keeps the connection open and silent; close: drops it (with the library's
/// greeting unread that is a reset); fin: orderly end of stream, connection kept open
/// (half-close); garbage: 48 junk bytes.
const BEHAVIOURS: [&str; 4] = ["stop", "close", "garbage", "fin"];

struct Out {
    viol: Vec<(String, String)>,
    inconc: Vec<String>,
    counts: Vec<(String, u64)>,
}

async fn good_client(sock: &mut Sock, ep: &str, ty: &str, name: &str, seq: &mut u32) -> Result<ConnRec, String> {
    let mut raw = tokio::time::timeout(WAIT, Raw::connect(ep))
        .await
        .map_err(|_| "connect timed out".to_string())?
        .map_err(|e| format!("connect: {e}"))?;
    let id = name.as_bytes().to_vec();
    tokio::time::timeout(WAIT, raw.handshake(peer_type_for(ty), Some(&id)))
        .await
        .map_err(|_| "handshake timed out".to_string())??;
    if ty == "PUB" || ty == "XPUB" {
        let _ = raw.send_msg(&[vec![1u8]]).await;
        if ty == "XPUB" {
            let _ = tokio::time::timeout(WAIT, sock.recv()).await;
        }
    }
    tokio::time::sleep(Duration::from_millis(10)).await;
    let mut c = ConnRec { raw, id, ep: ep.to_string() };
    *seq += 1;
    let ty_for_exchange = if ty == "XPUB" { "PUB" } else { ty };
    let _ = ty_for_exchange;
    exchange_any(sock, &mut c, *seq).await?;
    Ok(c)
}

async fn exchange_any(sock: &mut Sock, c: &mut ConnRec, seq: u32) -> Result<(), String> {
    if sock.ty() == "XPUB" {
        // publish until the subscriber receives (subscription processing is asynchronous to us)
        let deadline = std::time::Instant::now() + WAIT;
        loop {
            let m = rc::tagged(78, seq, &[2]);
            tokio::time::timeout(WAIT, sock.send(&m)).await.map_err(|_| "publish timed out".to_string())?.map_err(|e| e.text)?;
            match c.raw.read_msg(Duration::from_millis(40)).await {
                Ok(r) => {
                    rc::parse_tag(&r, 0).map_err(|e| format!("published message corrupted: {e}"))?;
                    while c.raw.read_msg(Duration::from_millis(5)).await.is_ok() {}
                    return Ok(());
                }
                Err(rig::ReadEnd::Timeout) if std::time::Instant::now() < deadline => continue,
                Err(e) => return Err(format!("subscriber received nothing: {e:?}")),
            }
        }
    }
    exchange(sock, c, seq).await
}

async fn scenario(ty: &str, transport: &str, bad: &[(usize, String)]) -> Out {
    let mut o = Out { viol: vec![], inconc: vec![], counts: vec![] };
    let mut sock = Sock::new(ty, None);
    // the monitor the application holds is the one it asked for last: before it bound, after
    // it bound, or a second one replacing the first
    let mon_when = ["before", "after", "replaced"][bad.len() % 3];
    let early = if mon_when != "after" { Some(sock.monitor()) } else { None };
    let ep = match sock.bind(&rig::bind_endpoint(transport)).await {
        Ok(e) => e,
        Err(e) => {
            o.inconc.push(format!("bind: {e}"));
            return o;
        }
    };
    let mut mon = match (mon_when, early) {
        ("before", Some(m)) => m,
        (_, early) => {
            drop(early);
            sock.monitor()
        }
    };
    o.counts.push((format!("monitor_requested/{mon_when}"), 1));
    let hs = rc::handshake(peer_type_for(ty), Some(b"bad-client"));
    let mut seq = 0u32;
    let mut good: Vec<ConnRec> = Vec::new();
    let sig = |k: &str| format!("C20/{k}/{ty}");
    macro_rules! good {
        ($name:expr, $phase:expr) => {
            match good_client(&mut sock, &ep, ty, $name, &mut seq).await {
                Ok(c) => good.push(c),
                Err(e) => {
                    let open = bad.len();
                    if rig::canary_ok().await {
                        o.viol.push((
                            sig(&format!("good-client-blocked-{}", $phase)),
                            format!("well-behaved client connecting {} {open} stalled/failed handshakes ({bad:?}) over {transport}: {e}", $phase),
                        ));
                    } else {
                        o.inconc.push(format!("good client failed while the canary was slow too: {e}"));
                    }
                    let _ = tokio::time::timeout(WAIT, sock.close()).await;
                    return o;
                }
            }
        };
    }
    good!("good-before", "before");
    // ---- the bad clients arrive
    let mut stalled: Vec<Raw> = Vec::new();
    let mut n_close = 0u64;
    let mut n_garbage = 0u64;
    let mut n_fin = 0u64;
    for (k, (off, beh)) in bad.iter().enumerate() {
        let mut raw = match Raw::connect(&ep).await {
            Ok(r) => r,
            Err(e) => {
                o.viol.push((sig("listener-stopped-accepting"), format!("bad client {k} could not even connect: {e}")));
                return o;
            }
        };
        let off = (*off).min(hs.len() - 1);
        if raw.write_all(&hs[..off]).await.is_err() {
            continue;
        }
        match beh.as_str() {
            "close" => {
                drop(raw);
                n_close += 1;
            }
            "fin" => {
                let _ = raw.shutdown_write().await;
                n_close += 1;
                n_fin += 1;
                stalled.push(raw);
            }
            "garbage" => {
                let _ = raw.write_all(&[0xAA; 48]).await;
                n_garbage += 1;
                stalled.push(raw);
            }
            _ => stalled.push(raw),
        }
        if k == bad.len() / 2 {
            good!("good-during-1", "during");
        }
    }
    good!("good-during-2", "during");
    // established traffic is not interrupted
    for c in good.iter_mut() {
        seq += 1;
        if let Err(e) = exchange_any(&mut sock, c, seq).await {
            if rig::canary_ok().await {
                o.viol.push((sig("established-traffic-interrupted"), format!("with {} bad handshakes open ({bad:?}): {e}", stalled.len())));
            } else {
                o.inconc.push(format!("exchange failed while the canary was slow: {e}"));
            }
            let _ = tokio::time::timeout(WAIT, sock.close()).await;
            return o;
        }
    }
    // ---- monitor: accept failures reported, good ones accepted
    let mut accepted = 0u64;
    let mut failed = 0u64;
    let deadline = std::time::Instant::now() + WAIT;
    loop {
        match tokio::time::timeout(Duration::from_millis(30), mon.next()).await {
            Ok(Some(SocketEvent::Accepted(..))) => accepted += 1,
            Ok(Some(SocketEvent::AcceptFailed(_))) => failed += 1,
            Ok(Some(_)) => {}
            Ok(None) => break,
            Err(_) => {
                if failed >= n_close || std::time::Instant::now() > deadline {
                    break;
                }
            }
        }
    }
    if failed < n_close {
        if rig::canary_ok().await {
            o.viol.push((
                sig("failed-handshake-not-reported"),
                format!("{n_close} clients ended their stream mid-handshake ({n_fin} of them by an orderly half-close) ({bad:?}); the monitor the application holds (requested {mon_when} bind) reported {failed} accept failures"),
            ));
        } else {
            o.inconc.push("monitor wait expired while the canary was slow".into());
        }
    } else if failed > n_close + n_garbage {
        o.viol.push((
            sig("accept-failures-over-reported"),
            format!("{n_close} closed + {n_garbage} garbage handshakes, monitor reported {failed} accept failures"),
        ));
    }
    // garbage that lands inside a variable-length field of READY (identity value, ...) is
    // just data: such a client may legitimately complete its handshake
    let maybe_valid = bad.iter().filter(|(off, beh)| beh == "garbage" && *off >= 64).count() as u64;
    if accepted < good.len() as u64 || accepted > good.len() as u64 + maybe_valid {
        o.viol.push((
            sig("peer-set-changed-by-failed-handshakes"),
            format!("{} well-behaved clients connected (+ at most {maybe_valid} garbage clients whose bytes may form a valid READY), the monitor reported {accepted} accepted peers ({bad:?})", good.len()),
        ));
    }
    good!("good-after", "after");
    o.counts.push(("good_handshakes_completed_while_a_staller_was_open".into(), if stalled.is_empty() { 0 } else { 2 }));
    o.counts.push(("bad_clients".into(), bad.len() as u64));
    o.counts.push(("accept_failures_reported".into(), failed));
    o.counts.push(("good_clients".into(), good.len() as u64));
    drop(stalled);
    let _ = tokio::time::timeout(WAIT, sock.close()).await;
    o
}

/// More failed handshakes than the monitor channel holds while nobody reads it; the
/// application then catches up. Failures that happen afterwards are reported again ("a
/// handshake that fails is reported to an installed monitor"), and so are good clients.
async fn monitor_overflow(ty: &str, transport: &str, burst: usize) -> Out {
    let mut o = Out { viol: vec![], inconc: vec![], counts: vec![] };
    let mut sock = Sock::new(ty, None);
    let mut mon = sock.monitor();
    let ep = match sock.bind(&rig::bind_endpoint(transport)).await {
        Ok(e) => e,
        Err(e) => {
            o.inconc.push(format!("bind: {e}"));
            return o;
        }
    };
    let sig = |k: &str| format!("C20/{k}/{ty}");
    // failing handshakes: a few junk bytes, then an orderly end
    for k in 0..burst {
        match Raw::connect(&ep).await {
            Ok(mut raw) => {
                let _ = raw.write_all(b"GET / HTTP/1.0\r\n\r\n").await;
                let _ = raw.shutdown_write().await;
                // let the listener take them as they come: keep at most a handful open
                if k % 16 == 15 {
                    tokio::time::sleep(Duration::from_millis(2)).await;
                }
            }
            Err(e) => {
                o.viol.push((sig("listener-stopped-accepting"), format!("connect #{k} of a burst of failing handshakes: {e}")));
                return o;
            }
        }
    }
    tokio::time::sleep(Duration::from_millis(300)).await;
    // the application catches up with whatever was kept for it
    let mut drained = 0u64;
    loop {
        match tokio::time::timeout(Duration::from_millis(100), mon.next()).await {
            Ok(Some(_)) => drained += 1,
            Ok(None) => {
                o.viol.push((
                    sig("monitor-stream-ended-while-the-socket-is-alive"),
                    format!("{burst} handshakes failed while the monitor was not being read; after {drained} events the monitor stream ended although the socket is alive"),
                ));
                return o;
            }
            Err(_) => break,
        }
    }
    o.counts.push(("monitor_events_drained_after_a_burst".into(), drained));
    // one more failure and one good client: both are reported
    if let Ok(mut raw) = Raw::connect(&ep).await {
        let _ = raw.write_all(b"junk junk junk").await;
        let _ = raw.shutdown_write().await;
    }
    let mut seq = 0u32;
    let good = good_client(&mut sock, &ep, ty, "good-after-burst", &mut seq).await;
    let (mut accepted, mut failed) = (0, 0);
    let deadline = std::time::Instant::now() + WAIT;
    while (accepted < 1 || failed < 1) && std::time::Instant::now() < deadline {
        match tokio::time::timeout(Duration::from_millis(50), mon.next()).await {
            Ok(Some(SocketEvent::Accepted(..))) => accepted += 1,
            Ok(Some(SocketEvent::AcceptFailed(_))) => failed += 1,
            Ok(Some(_)) => {}
            Ok(None) => break,
            Err(_) => {}
        }
    }
    if good.is_err() || accepted < 1 || failed < 1 {
        if rig::canary_ok().await {
            o.viol.push((
                sig("failed-handshake-not-reported"),
                format!(
                    "after a burst of {burst} failed handshakes that overflowed the unread monitor ({drained} events were kept) and after the application caught up: one more failing and one good client connected (good client: {:?}); the monitor reported {failed} failures and {accepted} accepted peers",
                    good.as_ref().map(|_| ()).map_err(|e| e.clone())
                ),
            ));
        } else {
            o.inconc.push("monitor wait expired while the canary was slow".into());
        }
    } else {
        o.counts.push(("failures_reported_after_a_monitor_overflow".into(), 1));
    }
    let _ = tokio::time::timeout(WAIT, sock.close()).await;
    o
}

/// A client pauses for longer than any "reasonable" handshake interval (33 s) in the middle
/// of its greeting and then carries on: it was only delayed — it completes its handshake and
/// is served; if the library gave up on it instead, that is a failed handshake and is
/// reported as one. Good clients come and go meanwhile.
async fn long_pause(ty: &str, transport: &str, secs: u64) -> Out {
    let mut o = Out { viol: vec![], inconc: vec![], counts: vec![] };
    let mut sock = Sock::new(ty, None);
    let mut mon = sock.monitor();
    let ep = match sock.bind(&rig::bind_endpoint(transport)).await {
        Ok(e) => e,
        Err(e) => {
            o.inconc.push(format!("bind: {e}"));
            return o;
        }
    };
    let sig = |k: &str| format!("C20/{k}/{ty}");
    let hs = rc::handshake(peer_type_for(ty), Some(b"slow-but-honest"));
    let Ok(mut slow) = Raw::connect(&ep).await else {
        o.inconc.push("connect".into());
        return o;
    };
    let _ = slow.write_all(&hs[..11]).await;
    let mut seq = 0u32;
    let t0 = std::time::Instant::now();
    while t0.elapsed() < Duration::from_secs(secs) {
        if let Err(e) = good_client(&mut sock, &ep, ty, "good-meanwhile", &mut seq).await {
            if rig::canary_ok().await {
                o.viol.push((sig("good-client-blocked-during"), format!("while a client paused mid-greeting: {e}")));
            } else {
                o.inconc.push(e);
            }
            return o;
        }
        tokio::time::sleep(Duration::from_secs(4)).await;
    }
    // the paused client carries on
    let resumed = async {
        slow.write_all(&hs[11..]).await.map_err(|e| format!("write: {e}"))?;
        let mut acc = Vec::new();
        slow.read_exact_or(&mut acc, 64 + 2, WAIT).await.map_err(|e| format!("no greeting+READY from the library: {e:?}"))?;
        Ok::<(), String>(())
    }
    .await;
    let (mut accepted, mut failed) = (0, 0);
    let deadline = std::time::Instant::now() + Duration::from_millis(1500);
    while std::time::Instant::now() < deadline {
        match tokio::time::timeout(Duration::from_millis(50), mon.next()).await {
            Ok(Some(SocketEvent::Accepted(_, id))) => {
                if format!("{id:?}").contains("slow") || Vec::<u8>::from(id.clone()) == b"slow-but-honest".to_vec() {
                    accepted += 1;
                }
            }
            Ok(Some(SocketEvent::AcceptFailed(_))) => failed += 1,
            Ok(None) => break,
            _ => {}
        }
    }
    match resumed {
        Ok(()) => o.counts.push(("clients_admitted_after_a_long_pause".into(), 1)),
        Err(e) => {
            if failed == 0 {
                if rig::canary_ok().await {
                    o.viol.push((
                        sig("failed-handshake-not-reported"),
                        format!("a client paused for {secs} s after 11 greeting bytes and then sent the rest: {e}; the monitor reported {failed} accept failures and {accepted} admissions of it (it was given up on silently)"),
                    ));
                } else {
                    o.inconc.push(e);
                }
            } else {
                o.counts.push(("long_pauses_ended_by_a_reported_failure".into(), 1));
            }
        }
    }
    let _ = tokio::time::timeout(WAIT, sock.close()).await;
    o
}

impl Prop for C20 {
    fn id(&self) -> &'static str {
        "C20"
    }

    fn cases(&self, tier: Tier, seed: u64) -> Vec<Value> {
        let n = rc::handshake("REQ", Some(b"bad-client")).len() + 4; // longest peer type name is close enough; clamped later
        let mut v = Vec::new();
        // (first in the list: it runs alongside everything else)
        v.push(json!({"kind": "long_pause", "ty": "REP", "transport": "tcp4", "secs": 33}));
        if tier == Tier::Thorough {
            v.push(json!({"kind": "long_pause", "ty": "PULL", "transport": "ipc", "secs": 33}));
            v.push(json!({"kind": "long_pause", "ty": "ROUTER", "transport": "tcp4", "secs": 65}));
        }
        for (ty, transport) in [("REP", "tcp4"), ("PULL", "ipc"), ("XPUB", "tcp4")] {
            v.push(json!({"kind": "monitor_overflow", "ty": ty, "transport": transport, "burst": 1300}));
        }
        for ty in TYPES {
            for transport in ["tcp4", "ipc"] {
                // so many silent clients that the listener cannot even accept for a while
                v.push(json!({"kind": "accept_errors", "ty": ty, "transport": transport, "stallers": 12}));
            }
        }
        for ty in TYPES {
            for transport in ["tcp4", "ipc"] {
                let mut plan: Vec<(usize, &str)> = Vec::new();
                for off in 0..n {
                    for beh in BEHAVIOURS {
                        let boundary = matches!(off, 0 | 9 | 10 | 63 | 64 | 65) || off % 8 == 0 || off + 1 == n;
                        let take = tier == Tier::Thorough || boundary || (hash_str(&format!("{ty}{transport}{off}{beh}")) ^ seed) % 4 == 0;
                        if take {
                            plan.push((off, beh));
                        }
                    }
                }
                let mut r = Rng::keyed(seed, &[20, hash_str(ty), hash_str(transport)]);
                // many simultaneous bad clients (limits on in-flight handshakes show only then)
                for (count, mix_kinds) in [(40usize, false), (24, true)] {
                    let group: Vec<Value> = (0..count)
                        .map(|i| {
                            let off = (i * 7 + r.below(5)) % n;
                            let beh = if mix_kinds { BEHAVIOURS[i % 4] } else { "stop" };
                            json!([off, beh])
                        })
                        .collect();
                    v.push(json!({"kind": "scenario", "ty": ty, "transport": transport, "bad": group, "seed": mix(seed ^ count as u64)}));
                }
                r.shuffle(&mut plan);
                let mut i = 0;
                let mut k = 1usize;
                while i < plan.len() {
                    let group: Vec<Value> = plan[i..(i + k).min(plan.len())].iter().map(|(o, b)| json!([o, b])).collect();
                    v.push(json!({"kind": "scenario", "ty": ty, "transport": transport, "bad": group, "seed": mix(seed ^ i as u64)}));
                    i += k;
                    k = k % 8 + 1;
                }
            }
        }
        v
    }

    fn run(&self, case: &Value, ctx: &mut Ctx) {
        if s(case, "kind") == "long_pause" {
            ctx.eval(hash_str(&case.to_string()), true);
            ctx.sample("long_pause", || case.clone());
            let (o, _) = rig::run(2, long_pause(s(case, "ty"), s(case, "transport"), u(case, "secs")));
            for (k, n) in o.counts {
                ctx.add(&k, n);
            }
            for i in o.inconc {
                ctx.inconclusive(format!("C20 long pause: {i}"));
            }
            for (sig, msg) in o.viol {
                ctx.violation_with(&sig, msg, case.clone());
            }
            return;
        }
        if s(case, "kind") == "monitor_overflow" {
            ctx.eval(hash_str(&case.to_string()), true);
            ctx.sample("monitor_overflow", || case.clone());
            let (o, _) = rig::run(2, monitor_overflow(s(case, "ty"), s(case, "transport"), u(case, "burst") as usize));
            for (k, n) in o.counts {
                ctx.add(&k, n);
            }
            for i in o.inconc {
                ctx.inconclusive(format!("C20 monitor overflow: {i}"));
            }
            for (sig, msg) in o.viol {
                ctx.violation_with(&sig, msg, case.clone());
            }
            return;
        }
        if s(case, "kind") == "accept_errors" {
            super::c18::accept_fail_case("C20", ctx, case);
            return;
        }
        let ty = s(case, "ty").to_string();
        let transport = s(case, "transport").to_string();
        let bad: Vec<(usize, String)> = case["bad"]
            .as_array()
            .map(|a| a.iter().map(|x| (x[0].as_u64().unwrap_or(0) as usize, x[1].as_str().unwrap_or("stop").to_string())).collect())
            .unwrap_or_default();
        ctx.eval(hash_str(&case.to_string()), true);
        ctx.count("scenarios");
        ctx.count(&format!("scenarios/{ty}"));
        ctx.count(&format!("transport/{transport}"));
        for (off, beh) in &bad {
            ctx.count(&format!("behaviour/{beh}"));
            ctx.count("offsets_x_behaviours_executed");
            if *off < 64 {
                ctx.count("stall_inside_greeting");
            } else {
                ctx.count("stall_inside_ready");
            }
        }
        ctx.max("max_simultaneous_bad_clients", bad.len() as u64);
        ctx.sample(&format!("scenario_{ty}"), || case.clone());
        let (o, _) = rig::run(2, scenario(&ty, &transport, &bad));
        for (k, n) in o.counts {
            ctx.add(&k, n);
        }
        for i in o.inconc {
            ctx.inconclusive(format!("C20 {ty}/{transport}: {i}"));
        }
        for (sig, msg) in o.viol {
            ctx.violation_with(&sig, msg, case.clone());
        }
    }

    fn floors(&self, _tier: Tier) -> Vec<(&'static str, u64)> {
        vec![
            ("scenarios", 100),
            ("offsets_x_behaviours_executed", 800),
            ("behaviour/stop", 200),
            ("behaviour/close", 200),
            ("behaviour/garbage", 200),
            ("behaviour/fin", 200),
            ("stall_inside_greeting", 300),
            ("stall_inside_ready", 100),
            ("good_handshakes_completed_while_a_staller_was_open", 100),
            ("accept_failures_reported", 200),
            ("transport/ipc", 40),
            ("accept_error_episodes", 10),
            ("failures_reported_after_a_monitor_overflow", 2),
            ("monitor_events_drained_after_a_burst", 2000),
            ("max_simultaneous_bad_clients", 40),
        ]
    }

    fn max_threads(&self) -> usize {
        8
    }

    fn case_timeout(&self) -> Duration {
        Duration::from_secs(300)
    }
}
