//! C19 — endpoint parsing is total, strict, and round-trips (DESIGN.md §4).
//!
//! Differential monitor: every generated string is parsed by the library
//! (`str::parse::<Endpoint>`, under catch_unwind) and by an independent
//! reference parser written from the statement; accept/reject, host
//! classification, the round-trip law and IPv6 bracketing are compared.

use crate::prng::{hash_str, Rng};
use crate::report::{Ctx, Tier};
use crate::Prop;
use serde_json::{json, Value};
use std::net::{Ipv4Addr, Ipv6Addr};
use std::panic::{catch_unwind, AssertUnwindSafe};
use zeromq::{Endpoint, Host};

pub struct C19;

const ALPHABET: [&str; 15] = [
    "t", "c", "p", "i", ":", "/", "[", "]", ".", "0", "1", "9", "a", "\n", "é",
];
const PREFIXES: [&str; 5] = ["tcp://", "ipc://", "", "TCP://", "tcp:/"];

#[derive(Debug, Clone, PartialEq, Eq)]
enum RHost {
    V4(Ipv4Addr),
    V6(Ipv6Addr),
    Domain(String),
}

#[derive(Debug, Clone, PartialEq, Eq)]
enum REndpoint {
    Tcp(RHost, u16),
    Ipc(String),
}

/// Reference parser, from the statement: lower-case scheme, "://", non-empty
/// single-line remainder; tcp = non-empty host, last ':', decimal port
/// 0..=65535; ipc = path.
fn ref_parse(s: &str) -> Option<REndpoint> {
    let i = s.find("://")?;
    let scheme = &s[..i];
    if scheme.is_empty() || !scheme.bytes().all(|b| b.is_ascii_lowercase()) {
        return None;
    }
    let rest = &s[i + 3..];
    if rest.is_empty() || rest.contains('\n') {
        return None;
    }
    match scheme {
        "tcp" => {
            let j = rest.rfind(':')?;
            let host = &rest[..j];
            let port = &rest[j + 1..];
            if host.is_empty() || port.is_empty() || !port.bytes().all(|b| b.is_ascii_digit()) {
                return None;
            }
            let digits = port.trim_start_matches('0');
            let value: u32 = if digits.is_empty() {
                0
            } else if digits.len() > 5 {
                return None;
            } else {
                digits.parse().ok()?
            };
            if value > 65535 {
                return None;
            }
            Some(REndpoint::Tcp(ref_host(host), value as u16))
        }
        "ipc" => Some(REndpoint::Ipc(rest.to_string())),
        _ => None,
    }
}

fn ref_host(h: &str) -> RHost {
    if let Ok(a) = h.parse::<Ipv4Addr>() {
        return RHost::V4(a);
    }
    if let Ok(a) = h.parse::<Ipv6Addr>() {
        return RHost::V6(a);
    }
    if h.len() >= 2 && h.starts_with('[') && h.ends_with(']') {
        if let Ok(a) = h[1..h.len() - 1].parse::<Ipv6Addr>() {
            return RHost::V6(a);
        }
    }
    RHost::Domain(h.to_string())
}

fn lib_view(e: &Endpoint) -> Option<REndpoint> {
    match e {
        Endpoint::Tcp(Host::Ipv4(a), p) => Some(REndpoint::Tcp(RHost::V4(*a), *p)),
        Endpoint::Tcp(Host::Ipv6(a), p) => Some(REndpoint::Tcp(RHost::V6(*a), *p)),
        Endpoint::Tcp(Host::Domain(d), p) => Some(REndpoint::Tcp(RHost::Domain(d.clone()), *p)),
        Endpoint::Ipc(Some(path)) => Some(REndpoint::Ipc(path.to_string_lossy().into_owned())),
        _ => None,
    }
}

#[derive(Default)]
struct Tally {
    n: u64,
    nontrivial: u64,
    accepted_tcp: u64,
    accepted_ipc: u64,
    rejected: u64,
    v4: u64,
    v6: u64,
    v6_bracketed: u64,
    domain: u64,
    roundtrips: u64,
}

fn check_one(s: &str, ctx: &mut Ctx, t: &mut Tally) {
    t.n += 1;
    let expect = ref_parse(s);
    let got = catch_unwind(AssertUnwindSafe(|| s.parse::<Endpoint>()));
    let witness = || json!({"kind": "one", "s": s});
    let got = match got {
        Ok(g) => g,
        Err(_) => {
            let (loc, msg) = crate::take_last_panic().unwrap_or_default();
            ctx.violation_with(
                "C19/panic",
                format!("parsing {s:?} panicked at {loc}: {msg}"),
                witness(),
            );
            return;
        }
    };
    if s.contains("://") {
        t.nontrivial += 1;
    }
    // bind() and connect() take their endpoint through the conversion trait: it is the same
    // parser, with the same verdict, for every string
    {
        use zeromq::TryIntoEndpoint;
        match catch_unwind(AssertUnwindSafe(|| TryIntoEndpoint::try_into(s))) {
            Ok(via) => {
                let same = match (&via, &got) {
                    (Ok(a), Ok(b)) => a == b,
                    (Err(_), Err(_)) => true,
                    _ => false,
                };
                if !same {
                    ctx.violation_with(
                        "C19/bind-connect-conversion-differs-from-parse",
                        format!("{s:?}: str::parse gives {got:?}, the conversion used by bind()/connect() gives {via:?}"),
                        witness(),
                    );
                    return;
                }
            }
            Err(_) => {
                let (loc, msg) = crate::take_last_panic().unwrap_or_default();
                ctx.violation_with("C19/panic", format!("converting {s:?} for bind/connect panicked at {loc}: {msg}"), witness());
                return;
            }
        }
    }
    match (&expect, &got) {
        (None, Err(_)) => {
            t.rejected += 1;
        }
        (Some(r), Err(e)) => ctx.violation_with(
            "C19/rejects-valid",
            format!("{s:?} should parse to {r:?}, library rejected it: {e}"),
            witness(),
        ),
        (None, Ok(e)) => ctx.violation_with(
            "C19/accepts-invalid",
            format!("{s:?} must be rejected, library returned {e:?}"),
            witness(),
        ),
        (Some(r), Ok(e)) => {
            let lv = lib_view(e);
            if lv.as_ref() != Some(r) {
                let sig = match (r, &lv) {
                    (REndpoint::Tcp(rh, _), Some(REndpoint::Tcp(lh, _)))
                        if std::mem::discriminant(rh) != std::mem::discriminant(lh) =>
                    {
                        "C19/host-classification"
                    }
                    _ => "C19/wrong-endpoint",
                };
                ctx.violation_with(
                    sig,
                    format!("{s:?}: reference {r:?}, library {e:?}"),
                    witness(),
                );
                return;
            }
            match r {
                REndpoint::Tcp(RHost::V4(_), _) => {
                    t.accepted_tcp += 1;
                    t.v4 += 1
                }
                REndpoint::Tcp(RHost::V6(_), _) => {
                    t.accepted_tcp += 1;
                    t.v6 += 1;
                    if s.contains('[') {
                        t.v6_bracketed += 1;
                    }
                }
                REndpoint::Tcp(RHost::Domain(_), _) => {
                    t.accepted_tcp += 1;
                    t.domain += 1
                }
                REndpoint::Ipc(_) => t.accepted_ipc += 1,
            }
            // round-trip law
            let text = match catch_unwind(AssertUnwindSafe(|| e.to_string())) {
                Ok(t) => t,
                Err(_) => {
                    let (loc, msg) = crate::take_last_panic().unwrap_or_default();
                    ctx.violation_with(
                        "C19/panic",
                        format!("formatting the endpoint parsed from {s:?} panicked at {loc}: {msg}"),
                        witness(),
                    );
                    return;
                }
            };
            if let REndpoint::Tcp(RHost::V6(a), p) = r {
                let want = format!("tcp://[{a}]:{p}");
                if text != want {
                    ctx.violation_with(
                        "C19/display-ipv6-not-bracketed",
                        format!("{s:?} formats as {text:?}, expected {want:?}"),
                        witness(),
                    );
                    return;
                }
            }
            match catch_unwind(AssertUnwindSafe(|| text.parse::<Endpoint>())) {
                Ok(Ok(e2)) if &e2 == e => t.roundtrips += 1,
                Ok(other) => ctx.violation_with(
                    "C19/round-trip",
                    format!("{s:?} -> {e:?} -> {text:?} -> {other:?}"),
                    witness(),
                ),
                Err(_) => ctx.violation_with(
                    "C19/panic",
                    format!("re-parsing {text:?} panicked"),
                    witness(),
                ),
            }
        }
    }
}

fn flush(ctx: &mut Ctx, t: &Tally) {
    ctx.add("strings", t.n);
    ctx.add("accepted_tcp", t.accepted_tcp);
    ctx.add("accepted_ipc", t.accepted_ipc);
    ctx.add("rejected", t.rejected);
    ctx.add("host_ipv4", t.v4);
    ctx.add("host_ipv6", t.v6);
    ctx.add("host_ipv6_bracketed", t.v6_bracketed);
    ctx.add("host_domain", t.domain);
    ctx.add("roundtrips_checked", t.roundtrips);
}

fn enumerate(prefix: &str, first: usize, maxlen: usize, ctx: &mut Ctx) {
    // all strings prefix + ALPHABET[first] + w, |w| <= maxlen-1
    let mut t = Tally::default();
    let mut idx = vec![0usize; maxlen.saturating_sub(1)];
    let mut s = String::new();
    for len in 0..maxlen {
        for x in idx.iter_mut() {
            *x = 0;
        }
        'outer: loop {
            s.clear();
            s.push_str(prefix);
            s.push_str(ALPHABET[first]);
            for x in idx.iter().take(len) {
                s.push_str(ALPHABET[*x]);
            }
            check_one(&s, ctx, &mut t);
            // next
            let mut k = len;
            loop {
                if k == 0 {
                    break 'outer;
                }
                k -= 1;
                idx[k] += 1;
                if idx[k] < ALPHABET.len() {
                    break;
                }
                idx[k] = 0;
            }
        }
    }
    ctx.eval_bulk(t.n, t.nontrivial);
    ctx.add("exhaustive_strings", t.n);
    flush(ctx, &t);
}

fn grammar_string(r: &mut Rng) -> String {
    let schemes = [
        "tcp", "ipc", "tcp", "tcp", "TCP", "Tcp", "udp", "inproc", "tc", "tcpp", "", "tçp", "tcp ",
    ];
    let seps = ["://", "://", "://", "://", ":/", ":///", "//", ":"];
    let hosts = [
        "localhost",
        "127.0.0.1",
        "0.0.0.0",
        "255.255.255.255",
        "256.1.1.1",
        "01.2.3.4",
        "1.2.3",
        "1.2.3.4.5",
        "::1",
        "::",
        "[::1]",
        "[::]",
        "[::1",
        "::1]",
        "[]",
        "[:]",
        "[[::1]]",
        "[1.2.3.4]",
        "::ffff:1.2.3.4",
        "[::ffff:1.2.3.4]",
        "2001:db8::2:1",
        "[2001:db8:0:0:0:0:2:1]",
        "fe80::1%eth0",
        "*",
        "",
        " ",
        "a:b",
        "a b",
        "www.example.com",
        "i❤.ws",
        "xn--i-7iq.ws",
        "host\n",
        "\nhost",
        "ho\rst",
        "/tmp/sock",
        "[::1]x",
        "x[::1]",
        "１２７.0.0.1",
    ];
    let ports = [
        "0", "1", "80", "8080", "65535", "65536", "65537", "99999", "100000", "4294967296",
        "00080", "0000000000000000000080", "065535", "065536", "", "-1", "+80", " 80", "80 ",
        "8o", "٨٠", "１２", "1٢", "0x50", "80\n", "18446744073709551616",
    ];
    let paths = [
        "/tmp/a", "a", "@abstract", "/", " ", "", "a\nb", "\n", "é", "/tmp/with:colon:80", "*",
        "a://b", "////",
    ];
    let scheme = *r.pick(&schemes);
    let sep = *r.pick(&seps);
    let mut s = String::new();
    s.push_str(scheme);
    s.push_str(sep);
    if scheme == "ipc" || r.chance(1, 8) {
        s.push_str(*r.pick(&paths));
    } else {
        s.push_str(*r.pick(&hosts));
        if !r.chance(1, 10) {
            s.push(':');
        }
        s.push_str(*r.pick(&ports));
    }
    // white space around an otherwise complete endpoint (config files, line ends)
    if r.chance(1, 6) {
        let pad = *r.pick(&[" ", "\n", "\t", "\r\n", "\u{a0}", "\u{2003}", "  "]);
        if r.chance(1, 2) {
            s.push_str(pad);
        } else {
            s = format!("{pad}{s}");
        }
    }
    // occasional mutation: delete / duplicate / replace one char
    if r.chance(1, 3) && !s.is_empty() {
        let chars: Vec<char> = s.chars().collect();
        let i = r.below(chars.len());
        let mut out: Vec<char> = Vec::new();
        let pool = [':', '/', '[', ']', '0', '9', 'a', '\n', 'é', '.', ' ', '\u{0}'];
        match r.below(3) {
            0 => {
                out.extend_from_slice(&chars[..i]);
                out.extend_from_slice(&chars[i + 1..]);
            }
            1 => {
                out.extend_from_slice(&chars[..=i]);
                out.extend_from_slice(&chars[i..]);
            }
            _ => {
                out.extend_from_slice(&chars[..i]);
                out.push(*r.pick(&pool));
                out.extend_from_slice(&chars[i + 1..]);
            }
        }
        s = out.into_iter().collect();
    }
    s
}

/// Every textual form of a random address value: the longest (zero-padded groups,
/// dotted-quad tail: up to 45 characters), the compressed ones, upper case, with and
/// without brackets; the reference classification is std's own parser.
fn address_string(r: &mut Rng) -> String {
    let mut s = String::from("tcp://");
    let host = if r.chance(1, 4) {
        let o: Vec<u8> = (0..4)
            .map(|_| {
                let any = r.below(256) as u8;
                *r.pick(&[0u8, 1, 9, 10, 99, 100, 199, 255, any])
            })
            .collect();
        format!("{}.{}.{}.{}", o[0], o[1], o[2], o[3])
    } else {
        let g: Vec<u16> = (0..8)
            .map(|_| match r.below(5) {
                0 => 0,
                1 => 0xffff,
                2 => r.below(16) as u16,
                _ => r.below(0x10000) as u16,
            })
            .collect();
        let hex = |x: u16, r: &mut Rng| match r.below(3) {
            0 => format!("{x:04x}"),
            1 => format!("{x:X}"),
            _ => format!("{x:x}"),
        };
        let body = match r.below(4) {
            0 => std::net::Ipv6Addr::new(g[0], g[1], g[2], g[3], g[4], g[5], g[6], g[7]).to_string(),
            1 => (0..8).map(|i| hex(g[i], r)).collect::<Vec<_>>().join(":"),
            2 => {
                // six groups and a dotted-quad tail
                let head = (0..6).map(|i| hex(g[i], r)).collect::<Vec<_>>().join(":");
                format!("{head}:{}.{}.{}.{}", g[6] >> 8, g[6] & 255, g[7] >> 8, g[7] & 255)
            }
            _ => {
                // a '::' somewhere, groups on either side
                let a = r.below(7);
                let b = r.below(7 - a);
                let left = (0..a).map(|i| hex(g[i], r)).collect::<Vec<_>>().join(":");
                let right = (0..b).map(|i| hex(g[7 - i], r)).collect::<Vec<_>>().join(":");
                let tail = if r.chance(1, 3) && a + b < 6 {
                    format!("{}{}.{}.{}.{}", if b > 0 { ":" } else { "" }, g[6] >> 8, g[6] & 255, g[7] >> 8, g[7] & 255)
                } else {
                    String::new()
                };
                format!("{left}::{right}{tail}")
            }
        };
        if r.chance(2, 3) {
            format!("[{body}]")
        } else {
            body
        }
    };
    s.push_str(&host);
    s.push(':');
    let any = r.below(70000) as u32;
    s.push_str(&r.pick(&[0u32, 1, 80, 5555, 65535, 65536, any]).to_string());
    s
}

fn random_unicode(r: &mut Rng) -> String {
    let n = r.below(24);
    let mut s = String::new();
    if r.chance(2, 3) {
        s.push_str(*r.pick(&["tcp://", "ipc://", "tcp:", "ipc:/"]));
    }
    for _ in 0..n {
        let c = match r.below(6) {
            0 => char::from_u32(r.below(0x80) as u32),
            1 => char::from_u32(0x80 + r.below(0x780) as u32),
            2 => char::from_u32(0x660 + r.below(10) as u32), // Arabic-Indic digits
            3 => char::from_u32(r.below(0x11_0000) as u32),
            4 => Some(*r.pick(&[':', '[', ']', '.', '/', '0', '5', 'f'])),
            _ => Some(*r.pick(&['a', 'z', '1', ':', ':'])),
        };
        if let Some(c) = c {
            s.push(c);
        }
    }
    s
}

impl Prop for C19 {
    fn id(&self) -> &'static str {
        "C19"
    }

    fn cases(&self, tier: Tier, seed: u64) -> Vec<Value> {
        let maxlen = tier.pick(5, 6);
        let mut v = Vec::new();
        for p in PREFIXES {
            v.push(json!({"kind": "one", "s": p}));
            for first in 0..ALPHABET.len() {
                v.push(json!({"kind": "exh", "prefix": p, "first": first, "maxlen": maxlen}));
            }
        }
        let batches = tier.pick(48, 1600);
        for b in 0..batches {
            v.push(json!({"kind": "grammar", "seed": seed, "batch": b, "n": 20_000}));
            v.push(json!({"kind": "unicode", "seed": seed, "batch": b, "n": 20_000}));
            v.push(json!({"kind": "address", "seed": seed, "batch": b, "n": 10_000}));
        }
        v
    }

    fn run(&self, case: &Value, ctx: &mut Ctx) {
        match case["kind"].as_str().unwrap_or("") {
            "one" => {
                let s = case["s"].as_str().unwrap_or("");
                let mut t = Tally::default();
                check_one(s, ctx, &mut t);
                ctx.eval(hash_str(s), s.contains("://"));
                flush(ctx, &t);
            }
            "exh" => {
                let prefix = case["prefix"].as_str().unwrap_or("");
                let first = case["first"].as_u64().unwrap_or(0) as usize;
                let maxlen = case["maxlen"].as_u64().unwrap_or(1) as usize;
                ctx.sample("exhaustive", || case.clone());
                enumerate(prefix, first, maxlen, ctx);
            }
            k @ ("grammar" | "unicode" | "address") => {
                let seed = case["seed"].as_u64().unwrap_or(0);
                let batch = case["batch"].as_u64().unwrap_or(0);
                let n = case["n"].as_u64().unwrap_or(0);
                let mut r = Rng::keyed(seed, &[19, hash_str(k), batch]);
                let mut t = Tally::default();
                for _ in 0..n {
                    let s = if k == "grammar" {
                        grammar_string(&mut r)
                    } else if k == "address" {
                        let s = address_string(&mut r);
                        if s.len() > 6 + 39 + 6 {
                            ctx.count("ipv6_literals_longer_than_39_chars");
                        }
                        s
                    } else {
                        random_unicode(&mut r)
                    };
                    let before = t.accepted_tcp + t.accepted_ipc;
                    check_one(&s, ctx, &mut t);
                    let accepted = t.accepted_tcp + t.accepted_ipc > before;
                    ctx.eval(hash_str(&s), s.contains("://"));
                    if accepted {
                        ctx.sample(&format!("{k}_accepted"), || json!(s));
                    } else {
                        ctx.sample(&format!("{k}_rejected"), || json!(s));
                    }
                }
                ctx.add(&format!("{k}_strings"), n);
                flush(ctx, &t);
            }
            _ => ctx.inconclusive(format!("unknown case {case}")),
        }
    }

    fn floors(&self, _tier: Tier) -> Vec<(&'static str, u64)> {
        vec![
            ("exhaustive_strings", 1_000_000),
            ("ipv6_literals_longer_than_39_chars", 1000),
            ("accepted_tcp", 1000),
            ("accepted_ipc", 1000),
            ("rejected", 1000),
            ("host_ipv4", 10),
            ("host_ipv6", 100),
            ("host_ipv6_bracketed", 10),
            ("host_domain", 100),
            ("roundtrips_checked", 2000),
        ]
    }
}
