//! C01 — message framing conforms to ZMTP 3.0 and round-trips exactly.

use super::common::*;
use crate::prng::Rng;
use crate::refcodec::{self as rc, Frames, RItem};
use crate::report::{Ctx, Tier};
use crate::sim;
use crate::sock::{peer_type_for, Peer, Sock, ALL_TYPES};
use crate::Prop;
use serde_json::{json, Value};

pub struct C01;

/// Strict RFC-23 judgement of the bytes the library produced for one message.
pub fn judge_message_bytes(bytes: &[u8], want: &[Vec<u8>]) -> Result<(), (String, String)> {
    let d = rc::decode_stream(bytes, false);
    if let Some((o, e)) = &d.error {
        return Err(("undecodable".into(), format!("reference decoder: offset {o}: {e}")));
    }
    if d.consumed != bytes.len() || d.partial_frames != 0 {
        return Err((
            "extra-or-missing-bytes".into(),
            format!(
                "{} of {} bytes form complete items, {} frames left open (MORE on the last frame?)",
                d.consumed,
                bytes.len(),
                d.partial_frames
            ),
        ));
    }
    if d.items.len() != 1 {
        return Err((
            "item-count".into(),
            format!("bytes decode to {} items instead of one message", d.items.len()),
        ));
    }
    let (frames, metas) = match &d.items[0] {
        RItem::Message { frames, metas } => (frames, metas),
        other => {
            return Err((
                "not-a-message".into(),
                format!("bytes decode to {other:?}, not a message"),
            ))
        }
    };
    if frames != want {
        return Err((
            "frames-differ".into(),
            format!(
                "sent {} got {}",
                rc::frames_summary(want),
                rc::frames_summary(frames)
            ),
        ));
    }
    for (i, m) in metas.iter().enumerate() {
        if m.flags & 0xF8 != 0 {
            return Err((
                "reserved-bits".into(),
                format!("frame {i}: flags {:#04x} has reserved bits set", m.flags),
            ));
        }
        if m.long != (m.len > 255) {
            return Err((
                "size-form".into(),
                format!("frame {i}: body of {} bytes encoded with long={}", m.len, m.long),
            ));
        }
        if m.more != (i + 1 != metas.len()) {
            return Err((
                "more-flag".into(),
                format!("frame {i} of {}: MORE={}", metas.len(), m.more),
            ));
        }
    }
    Ok(())
}

fn is_nontrivial(lens: &[usize]) -> bool {
    lens.len() > 1 || lens.iter().any(|l| matches!(l, 0 | 255 | 256) || *l > 65535)
}

fn note_shape(ctx: &mut Ctx, lens: &[usize]) {
    for l in lens {
        match *l {
            0 => ctx.count("frames_len_0"),
            255 => ctx.count("frames_len_255"),
            256 => ctx.count("frames_len_256"),
            _ => {}
        }
        if *l > 65536 {
            ctx.count("frames_gt_64k");
        }
        if *l > 1 << 20 {
            ctx.count("frames_gt_1m");
        }
    }
    if lens.len() > 1 {
        ctx.count("multi_frame_messages");
    }
}

/// codec level: encode with the library, judge with the reference decoder,
/// decode again with the library.
fn codec_roundtrip(ctx: &mut Ctx, key: u64, lens: &[usize]) {
    let frames: Frames = lens
        .iter()
        .enumerate()
        .map(|(i, l)| body(key, i, *l))
        .collect();
    ctx.eval(shape_hash(lens) ^ key, is_nontrivial(lens));
    note_shape(ctx, lens);
    ctx.count("codec_messages");
    let witness = json!({"kind": "shape", "key": key, "lens": lens});
    let bytes = match lib_encode(&frames) {
        Ok(b) => b,
        Err(e) => {
            ctx.violation_with("C01/encode-error", format!("encoding {lens:?} failed: {e}"), witness);
            return;
        }
    };
    if let Err((sig, msg)) = judge_message_bytes(&bytes, &frames) {
        ctx.violation_with(
            &format!("C01/wire/{sig}"),
            format!("message with frame lengths {lens:?}: {msg}"),
            witness,
        );
        return;
    }
    // library decode of its own bytes: exactly one identical message, buffer empty
    let mut d = LibDecoder::primed();
    let items = d.feed(&bytes);
    let ok = d.failed.is_none()
        && items.len() == 1
        && items[0] == LItem::Message(frames.clone())
        && d.buf.is_empty();
    // the same bytes arriving in small pieces (the decoder is resumable: what it returns must
    // not depend on where reads end) - byte at a time for small messages, 7-byte reads beyond
    let step = if bytes.len() <= 2048 { 1 } else { 4093 };
    let mut d2 = LibDecoder::primed();
    let mut items2 = Vec::new();
    for c in bytes.chunks(step) {
        items2.extend(d2.feed(c));
    }
    ctx.count("codec_messages_redecoded_in_pieces");
    if ok && (d2.failed.is_some() || items2 != items || !d2.buf.is_empty()) {
        ctx.violation_with(
            "C01/library-roundtrip",
            format!(
                "library decode of its own encoding of {lens:?} fed in {step}-byte reads: error={:?} items={:?} leftover={}",
                d2.failed,
                items2.iter().map(|i| i.summary()).collect::<Vec<_>>(),
                d2.buf.len()
            ),
            witness.clone(),
        );
        return;
    }
    if !ok {
        ctx.violation_with(
            "C01/library-roundtrip",
            format!(
                "library decode of its own encoding of {lens:?}: error={:?} items={:?} leftover={}",
                d.failed,
                items.iter().map(|i| i.summary()).collect::<Vec<_>>(),
                d.buf.len()
            ),
            witness,
        );
    }
}

fn grid_batch(ctx: &mut Ctx, n: usize, first: usize) {
    let mut idx = vec![0usize; n];
    idx[0] = first;
    loop {
        let lens: Vec<usize> = idx.iter().map(|i| GRID[*i]).collect();
        codec_roundtrip(ctx, 0xC01, &lens);
        // next (positions 1..n)
        let mut k = n;
        loop {
            if k == 1 {
                return;
            }
            k -= 1;
            idx[k] += 1;
            if idx[k] < GRID.len() {
                break;
            }
            idx[k] = 0;
        }
    }
}

fn judge_greeting(ctx: &mut Ctx, ty: &str, tap: &[u8], witness: &Value) -> bool {
    if tap.len() < 64 {
        ctx.violation_with(
            "C01/greeting/short",
            format!("{ty}: only {} greeting bytes written", tap.len()),
            witness.clone(),
        );
        return false;
    }
    let g = &tap[..64];
    let mut problems = Vec::new();
    if g[0] != 0xFF || g[9] != 0x7F {
        problems.push(format!("signature bytes {:#04x}/{:#04x}", g[0], g[9]));
    }
    if (g[10], g[11]) != (3, 0) {
        problems.push(format!("version {}.{}", g[10], g[11]));
    }
    let mut mech = [0u8; 20];
    mech[..4].copy_from_slice(b"NULL");
    if g[12..32] != mech {
        problems.push(format!("mechanism field {}", rc::hex(&g[12..32])));
    }
    if g[32] != 0 {
        problems.push(format!("as-server {}", g[32]));
    }
    if g[33..64].iter().any(|b| *b != 0) {
        problems.push("filler not zero".into());
    }
    if !problems.is_empty() {
        ctx.violation_with(
            "C01/greeting/malformed",
            format!("{ty}: {}", problems.join(", ")),
            witness.clone(),
        );
        return false;
    }
    true
}

fn judge_ready(
    ctx: &mut Ctx,
    ty: &str,
    identity: Option<&[u8]>,
    tap: &[u8],
    witness: &Value,
) -> Option<usize> {
    let d = rc::decode_stream(tap, true);
    if let Some((o, e)) = &d.error {
        ctx.violation_with(
            "C01/ready/undecodable",
            format!("{ty}: handshake bytes invalid at {o}: {e}"),
            witness.clone(),
        );
        return None;
    }
    let (name, data, meta, end) = match (d.items.get(1), d.ends.get(1)) {
        (Some(RItem::Command { name, data, meta }), Some(end)) => (name, data, meta, *end),
        other => {
            ctx.violation_with(
                "C01/ready/missing",
                format!("{ty}: no command after the greeting ({other:?})"),
                witness.clone(),
            );
            return None;
        }
    };
    let mut problems = Vec::new();
    if meta.flags & 0xF9 != 0 {
        problems.push(format!("flags {:#04x}", meta.flags));
    }
    if meta.long != (meta.len > 255) {
        problems.push(format!("size form long={} for body {}", meta.long, meta.len));
    }
    if name != b"READY" {
        problems.push(format!("command name {:?}", String::from_utf8_lossy(name)));
    }
    match rc::parse_props(data) {
        Err(e) => problems.push(format!("property list: {e}")),
        Ok(props) => {
            let st: Vec<_> = props
                .iter()
                .filter(|(k, _)| k.eq_ignore_ascii_case(b"Socket-Type"))
                .collect();
            if st.len() != 1 || st[0].1 != ty.as_bytes() {
                problems.push(format!(
                    "Socket-Type {:?}",
                    st.iter()
                        .map(|(_, v)| String::from_utf8_lossy(v).into_owned())
                        .collect::<Vec<_>>()
                ));
            }
            let idp: Vec<_> = props
                .iter()
                .filter(|(k, _)| k.eq_ignore_ascii_case(b"Identity"))
                .collect();
            match identity {
                Some(id) => {
                    if idp.len() != 1 || idp[0].1 != id {
                        problems.push(format!(
                            "Identity announced {:?}, configured {}",
                            idp.iter().map(|(_, v)| rc::hex(v)).collect::<Vec<_>>(),
                            rc::hex(id)
                        ));
                    }
                }
                None => {
                    if idp.iter().any(|(_, v)| !v.is_empty()) {
                        problems.push("Identity announced although none configured".into());
                    }
                }
            }
        }
    }
    if !problems.is_empty() {
        ctx.violation_with(
            "C01/ready/malformed",
            format!("{ty} identity={:?}: {}", identity.map(rc::hex), problems.join("; ")),
            witness.clone(),
        );
        return None;
    }
    if meta.long {
        ctx.count("ready_long_form");
    } else {
        ctx.count("ready_short_form");
    }
    Some(end)
}

/// What the wire must carry for an application message sent on `ty`.
fn expected_wire(ty: &str, app: &[Vec<u8>]) -> Frames {
    match ty {
        "REQ" | "REP" => {
            let mut v = vec![vec![]];
            v.extend_from_slice(app);
            v
        }
        "ROUTER" => app[1..].to_vec(),
        _ => app.to_vec(),
    }
}

async fn socket_case(ctx: &mut Ctx, ty: &str, idlen: usize, shapes: &[Vec<usize>], case: &Value) {
    let identity: Option<Vec<u8>> = if idlen == 0 {
        None
    } else {
        Some((0..idlen).map(|i| (i as u8).wrapping_mul(37).wrapping_add(1)).collect())
    };
    let mut sock = Sock::new(ty, identity.as_deref());
    let peer_ty = peer_type_for(ty);
    let peer = match Peer::attach(&sock, peer_ty, Some(b"peer-1")).await {
        Ok(p) => p,
        Err(e) => {
            // the handshake bytes the library wrote are judged below even then
            ctx.violation_with(
                "C01/handshake-failed",
                format!("{ty}: handshake with a valid {peer_ty} peer failed: {e}"),
                case.clone(),
            );
            return;
        }
    };
    ctx.count("handshakes_judged");
    ctx.eval(crate::prng::hash_str(&format!("hs/{ty}/{idlen}")), true);
    let tap = peer.conn.tap();
    if !judge_greeting(ctx, ty, &tap, case) {
        return;
    }
    let hs_end = match judge_ready(ctx, ty, identity.as_deref(), &tap, case) {
        Some(e) => e,
        None => return,
    };
    if !sock.can_send() {
        return;
    }
    // library decode of the library's own handshake bytes
    {
        let mut d = LibDecoder::new();
        let items = d.feed(&tap[..hs_end]);
        let ok = d.failed.is_none()
            && items.len() == 2
            && matches!(&items[0], LItem::Greeting { version: (3, 0), .. })
            && matches!(&items[1], LItem::Command { name, .. } if name == "READY")
            && d.buf.is_empty();
        if !ok {
            ctx.violation_with(
                "C01/library-roundtrip-handshake",
                format!("{ty}: library cannot decode its own greeting+READY: {:?} {:?}", d.failed, items),
                case.clone(),
            );
            return;
        }
    }
    // PUB/XPUB: subscribe to everything first
    if ty == "PUB" || ty == "XPUB" {
        peer.send(&[vec![1u8]]);
        if ty == "XPUB" {
            let _ = sim::complete(sock.recv()).await;
        }
        sim::settle().await;
    }
    let mut wire_pos = peer.conn.tap_len();
    // a second library decoder follows the whole outbound stream
    let mut follow = LibDecoder::new();
    let _ = follow.feed(&tap[..hs_end]);
    let _ = follow.feed(&peer.conn.tap_from(hs_end));
    for (k, lens) in shapes.iter().enumerate() {
        let key = 0x50C ^ (k as u64) << 8;
        let mut app: Frames = lens
            .iter()
            .enumerate()
            .map(|(i, l)| body(key, i, *l))
            .collect();
        match ty {
            "ROUTER" => app.insert(0, peer.id.clone()),
            "REP" => {
                // a request must be pending first
                peer.send(&[vec![], b"rq".to_vec()]);
                match sim::complete(sock.recv()).await {
                    Ok(Ok(_)) => {}
                    other => {
                        ctx.inconclusive(format!("C01 REP could not receive a request: {other:?}"));
                        return;
                    }
                }
            }
            _ => {}
        }
        ctx.eval(shape_hash(lens) ^ crate::prng::hash_str(ty), is_nontrivial(lens));
        note_shape(ctx, lens);
        ctx.count("socket_messages");
        let witness = json!({"kind": "socket", "ty": ty, "idlen": idlen, "shapes": [lens]});
        match sim::complete(sock.send(&app)).await {
            Ok(Ok(())) => {}
            other => {
                ctx.violation_with(
                    "C01/send-failed",
                    format!("{ty}: send of {lens:?} to a connected, accepting peer: {other:?}"),
                    witness,
                );
                return;
            }
        }
        let bytes = peer.conn.tap_from(wire_pos);
        wire_pos += bytes.len();
        let want = expected_wire(ty, &app);
        if let Err((sig, msg)) = judge_message_bytes(&bytes, &want) {
            ctx.violation_with(
                &format!("C01/wire/{sig}"),
                format!("{ty} socket, frame lengths {lens:?}: {msg}"),
                witness,
            );
            return;
        }
        let items = follow.feed(&bytes);
        if follow.failed.is_some() || items != vec![LItem::Message(want.clone())] || !follow.buf.is_empty() {
            ctx.violation_with(
                "C01/library-roundtrip",
                format!(
                    "{ty}: library decode of the socket's wire bytes for {lens:?}: error={:?} items={:?}",
                    follow.failed,
                    items.iter().map(|i| i.summary()).collect::<Vec<_>>()
                ),
                witness,
            );
            return;
        }
        if ty == "REQ" {
            // answer so that the next request is allowed
            peer.send(&[vec![], b"rp".to_vec()]);
            let _ = sim::complete(sock.recv()).await;
        }
    }
}

/// Messages encoded while earlier ones are still waiting in the connection's write buffer
/// (a publisher whose subscriber does not read; a send abandoned under back-pressure
/// followed by another one): what finally goes on the wire is still exactly the frame
/// sequences of the messages, one after the other.
async fn buffered_encode_case(ctx: &mut Ctx, ty: &str, shapes: &[Vec<usize>], case: &Value) {
    let mut sock = Sock::new(ty, None);
    let peer = match Peer::attach(&sock, peer_type_for(ty), Some(b"peer-1")).await {
        Ok(p) => p,
        Err(e) => {
            ctx.violation_with("C01/handshake-failed", format!("{ty}: {e}"), case.clone());
            return;
        }
    };
    if ty == "PUB" || ty == "XPUB" {
        peer.send(&[vec![1u8]]);
        if ty == "XPUB" {
            let _ = sim::complete(sock.recv()).await;
        }
        sim::settle().await;
    }
    let start = peer.conn.tap_len();
    peer.conn.set_credit(Some(0));
    let mut expected: Vec<u8> = Vec::new();
    let mut first_may_be_lost = false;
    for (k, lens) in shapes.iter().enumerate() {
        let mut app: Frames = lens.iter().enumerate().map(|(i, l)| body(0xB0F ^ (k as u64) << 8, i, *l)).collect();
        if ty == "ROUTER" {
            app.insert(0, peer.id.clone());
        }
        let wire = expected_wire(ty, &app);
        if ty == "PUB" || ty == "XPUB" {
            // never waits; everything stays queued behind the stalled connection
            if !matches!(sim::complete(sock.send(&app)).await, Ok(Ok(()))) {
                ctx.violation_with("C01/publish-failed", format!("{ty}"), case.clone());
                return;
            }
            expected.extend(rc::message(&wire));
        } else {
            // the send waits for the connection and is abandoned; its bytes stay queued
            let mut f = crate::sim::Managed::new(sock.send(&app));
            let r = f.poll_once();
            drop(f);
            if r.is_pending() {
                ctx.count("sends_abandoned_with_bytes_queued");
            }
            expected.extend(rc::message(&wire));
            if k == 0 {
                first_may_be_lost = false;
            }
        }
        ctx.count("messages_encoded_behind_queued_bytes");
    }
    let _ = first_may_be_lost;
    peer.conn.set_credit(None);
    // one more message pushes everything out
    let mut last: Frames = vec![body(0xB0E, 0, 3)];
    if ty == "ROUTER" {
        last.insert(0, peer.id.clone());
    }
    let r = sim::complete(sock.send(&last)).await;
    sim::settle().await;
    expected.extend(rc::message(&expected_wire(ty, &last)));
    let got = peer.conn.tap_from(start);
    if !matches!(r, Ok(Ok(()))) || got != expected {
        let d = rc::decode_stream(&got, false);
        let first_diff = got.iter().zip(expected.iter()).position(|(a, b)| a != b).unwrap_or(got.len().min(expected.len()));
        ctx.violation_with(
            "C01/wire/messages-encoded-behind-queued-bytes",
            format!(
                "{ty}: {} messages were encoded while earlier bytes were still queued for the connection; the wire has {} bytes, expected {} (first difference at offset {first_diff}; decodes to {} messages, error {:?}); last send: {r:?}",
                shapes.len(),
                got.len(),
                expected.len(),
                d.messages().len(),
                d.error
            ),
            case.clone(),
        );
    }
}

/// The greeting and READY a socket emits on a REAL connection, as the bound end and as the
/// connecting end (the in-memory attach hook runs the same handshake function, but which
/// function the transports call, and with which role, is only visible here).
async fn rig_handshake(ctx: &mut Ctx, ty: &str, idlen: usize, transport: &str, role: &str, case: &Value) {
    use crate::rig::{self, Raw, RawListener, WAIT};
    let identity: Option<Vec<u8>> = if idlen == 0 { None } else { Some((0..idlen).map(|i| (i as u8).wrapping_mul(41).wrapping_add(3)).collect()) };
    let mut sock = Sock::new(ty, identity.as_deref());
    let peer_ty = peer_type_for(ty);
    let bytes: Result<Vec<u8>, String> = if role == "bound" {
        match sock.bind(&rig::bind_endpoint(transport)).await {
            Ok(ep) => match tokio::time::timeout(WAIT, Raw::connect(&ep)).await {
                Ok(Ok(mut raw)) => raw.handshake(peer_ty, Some(b"peer-1")).await,
                other => Err(format!("connect: {:?}", other.map(|r| r.map(|_| ()).map_err(|e| e.to_string())))),
            },
            Err(e) => Err(format!("bind: {e}")),
        }
    } else {
        match RawListener::bind(transport).await {
            Ok((l, ep)) => {
                let (c, hs) = tokio::join!(tokio::time::timeout(WAIT, sock.connect(&ep)), async {
                    match tokio::time::timeout(WAIT, l.accept()).await {
                        Ok(Ok(mut raw)) => {
                            let r = raw.handshake(peer_ty, Some(b"peer-1")).await;
                            // stay connected until the library's connect() has returned
                            tokio::time::sleep(std::time::Duration::from_millis(20)).await;
                            r
                        }
                        other => Err(format!("accept: {:?}", other.map(|r| r.map(|_| ())))),
                    }
                });
                let _ = c;
                hs
            }
            Err(e) => Err(format!("listen: {e}")),
        }
    };
    let _ = tokio::time::timeout(WAIT, sock.close()).await;
    let tap = match bytes {
        Ok(b) => b,
        Err(e) => {
            if rig::canary_ok().await {
                ctx.violation_with("C01/handshake-failed", format!("{ty} ({role}, {transport}): handshake with a valid {peer_ty} peer failed: {e}"), case.clone());
            } else {
                ctx.inconclusive(format!("C01 rig handshake failed while the canary was slow: {e}"));
            }
            return;
        }
    };
    ctx.count("rig_handshakes_judged");
    ctx.count(&format!("rig_handshakes/{role}/{transport}"));
    if !judge_greeting(ctx, ty, &tap, case) {
        return;
    }
    let _ = judge_ready(ctx, ty, identity.as_deref(), &tap, case);
}

impl Prop for C01 {
    fn id(&self) -> &'static str {
        "C01"
    }

    fn cases(&self, tier: Tier, seed: u64) -> Vec<Value> {
        let mut v = Vec::new();
        let maxn = 4;
        let _ = tier;
        for n in 1..=maxn {
            for first in 0..GRID.len() {
                v.push(json!({"kind": "grid", "n": n, "first": first}));
            }
        }
        // messages of very many tiny frames (whole message in one buffer / byte at a time)
        for n in [17usize, 129, 256, 257, 258, 300, 1025, 5000] {
            v.push(json!({"kind": "shape", "key": 0x3A7 + n as u64, "lens": (0..n).map(|i| i % 3).collect::<Vec<_>>()}));
        }
        let (batches, per) = tier.pick((40, 10), (250, 20));
        for b in 0..batches {
            v.push(json!({"kind": "rand", "seed": seed, "batch": b, "n": per}));
        }
        // socket level: small grid through every sending socket type
        let mut shapes: Vec<Vec<usize>> = GRID.iter().map(|l| vec![*l]).collect();
        for a in [0usize, 1, 255, 256, 65536] {
            for b in [0usize, 255, 256, 65537] {
                shapes.push(vec![a, b]);
            }
        }
        shapes.push(vec![0, 0, 0]);
        shapes.push(vec![256, 0, 255, 1]);
        if tier == Tier::Thorough {
            for a in GRID {
                for b in GRID {
                    shapes.push(vec![a, b]);
                }
            }
            shapes.push(vec![300_000, 2_000_000]);
        }
        for ty in ALL_TYPES {
            for idlen in [0usize, 1, 17, 255] {
                v.push(json!({"kind": "socket", "ty": ty, "idlen": idlen, "shapes": shapes}));
            }
        }
        // READY for every configured identity length: the short/long size form of the command
        // frame flips somewhere inside this range, at a point that depends on the type name
        for ty in ALL_TYPES {
            for lo in (1usize..=255).step_by(32) {
                v.push(json!({"kind": "ready_sweep", "ty": ty, "from": lo, "to": (lo + 31).min(255)}));
            }
        }
        for ty in ["PUB", "XPUB", "PUSH", "DEALER", "ROUTER"] {
            for shapes in [vec![vec![1usize], vec![0], vec![5, 0]], vec![vec![255], vec![256], vec![0, 0, 1]], vec![vec![70_000], vec![3]], vec![vec![2]; 12]] {
                v.push(json!({"kind": "buffered", "ty": ty, "shapes": shapes}));
            }
        }
        for ty in ALL_TYPES {
            for (k, transport) in ["tcp4", "ipc", "tcp6"].into_iter().enumerate() {
                for role in ["bound", "connecting"] {
                    let idlen = [0usize, 5, 255][k];
                    v.push(json!({"kind": "rig_handshake", "ty": ty, "idlen": idlen, "transport": transport, "role": role}));
                }
            }
        }
        v
    }

    fn run(&self, case: &Value, ctx: &mut Ctx) {
        match s(case, "kind") {
            "ready_sweep" => {
                let ty = s(case, "ty").to_string();
                ctx.sample("ready_sweep", || case.clone());
                for idlen in u(case, "from") as usize..=u(case, "to") as usize {
                    let one = json!({"kind": "socket", "ty": ty, "idlen": idlen, "shapes": []});
                    ctx.count("ready_identity_lengths_swept");
                    sim::run(socket_case(ctx, &ty, idlen, &[], &one));
                }
            }
            "buffered" => {
                ctx.eval(crate::prng::hash_str(&case.to_string()), true);
                ctx.sample("buffered", || case.clone());
                let shapes: Vec<Vec<usize>> = case["shapes"].as_array().map(|a| a.iter().map(|x| x.as_array().map(|y| y.iter().map(|z| z.as_u64().unwrap_or(0) as usize).collect()).unwrap_or_default()).collect()).unwrap_or_default();
                let ty = s(case, "ty").to_string();
                sim::run(buffered_encode_case(ctx, &ty, &shapes, case));
            }
            "rig_handshake" => {
                ctx.eval(crate::prng::hash_str(&case.to_string()), true);
                ctx.sample("rig_handshake", || case.clone());
                let ty = s(case, "ty").to_string();
                let (transport, role) = (s(case, "transport").to_string(), s(case, "role").to_string());
                let idlen = u(case, "idlen") as usize;
                crate::rig::run(2, rig_handshake(ctx, &ty, idlen, &transport, &role, case));
            }
            "grid" => {
                ctx.sample("grid", || case.clone());
                grid_batch(ctx, u(case, "n") as usize, u(case, "first") as usize)
            }
            "shape" => codec_roundtrip(ctx, u(case, "key"), &usizes(case, "lens")),
            "rand" => {
                let mut r = Rng::keyed(u(case, "seed"), &[1, u(case, "batch")]);
                for i in 0..u(case, "n") {
                    let n = r.range(1, 16);
                    let mut budget = 12usize << 20;
                    let mut lens = Vec::new();
                    for _ in 0..n {
                        let l = r.log_uniform((8 << 20).min(budget));
                        budget -= l;
                        lens.push(l);
                    }
                    let key = crate::prng::mix(u(case, "seed") ^ (u(case, "batch") << 20) ^ i);
                    ctx.sample("random_shape", || json!({"lens": lens}));
                    ctx.count("random_messages");
                    codec_roundtrip(ctx, key, &lens);
                }
            }
            "socket" => {
                let ty = s(case, "ty").to_string();
                let idlen = u(case, "idlen") as usize;
                let shapes: Vec<Vec<usize>> = case["shapes"]
                    .as_array()
                    .map(|a| {
                        a.iter()
                            .map(|x| {
                                x.as_array()
                                    .map(|y| y.iter().map(|z| z.as_u64().unwrap_or(0) as usize).collect())
                                    .unwrap_or_default()
                            })
                            .collect()
                    })
                    .unwrap_or_default();
                ctx.sample("socket", || json!({"ty": ty, "idlen": idlen, "messages": shapes.len()}));
                sim::run(socket_case(ctx, &ty, idlen, &shapes, case));
            }
            _ => ctx.inconclusive(format!("unknown case {case}")),
        }
    }

    fn sanitizer_cases(&self, _seed: u64) -> Vec<Value> {
        let mut v = Vec::new();
        for a in [0usize, 1, 255, 256, 300] {
            v.push(json!({"kind": "shape", "key": 1, "lens": [a]}));
            for b in [0usize, 255, 256] {
                v.push(json!({"kind": "shape", "key": 2, "lens": [a, b]}));
            }
        }
        v.push(json!({"kind": "shape", "key": 3, "lens": [65536, 0, 1]}));
        for ty in ALL_TYPES {
            v.push(json!({"kind": "socket", "ty": ty, "idlen": if ty == "ROUTER" { 255 } else { 3 }, "shapes": [[0], [255, 256], [1, 0, 300]]}));
        }
        v
    }

    fn floors(&self, _tier: Tier) -> Vec<(&'static str, u64)> {
        vec![
            ("codec_messages", 16_000),
            ("socket_messages", 200),
            ("handshakes_judged", 36),
            ("rig_handshakes_judged", 50),
            ("ready_identity_lengths_swept", 2295),
            ("messages_encoded_behind_queued_bytes", 60),
            ("frames_len_0", 10),
            ("frames_len_255", 10),
            ("frames_len_256", 10),
            ("frames_gt_64k", 10),
            ("frames_gt_1m", 1),
            ("multi_frame_messages", 100),
            ("ready_short_form", 1),
            ("ready_long_form", 1),
        ]
    }
}
