//! C18 — bind/unbind manage independent listeners with exact endpoint bookkeeping.

use super::common::*;
use crate::prng::{hash_str, mix, Rng};
use crate::refcodec::{self as rc};
use crate::report::{Ctx, Tier};
use crate::rig::{self, Raw, WAIT};
use crate::sock::{peer_type_for, Sock};
use crate::Prop;
use serde_json::{json, Value};
use std::collections::BTreeSet;
use std::time::Duration;

pub struct C18;

pub struct ConnRec {
    pub raw: Raw,
    pub id: Vec<u8>,
    pub ep: String,
}

/// One tagged exchange over an established connection, in the directions the type supports.
pub async fn exchange(sock: &mut Sock, c: &mut ConnRec, seq: u32) -> Result<(), String> {
    let ty = sock.ty();
    let origin = 77u16;
    match ty {
        "PULL" | "REP" | "ROUTER" => {
            let payload = rc::tagged(origin, seq, &[3]);
            let wire = if ty == "REP" {
                let mut w = vec![vec![]];
                w.extend(payload.clone());
                w
            } else {
                payload.clone()
            };
            c.raw.send_msg(&wire).await?;
            let got = tokio::time::timeout(WAIT, sock.recv()).await.map_err(|_| "recv timed out".to_string())??;
            let skip = if ty == "ROUTER" { 1 } else { 0 };
            let t = rc::parse_tag(&got, skip).map_err(|e| format!("received {}: {e}", rc::frames_summary(&got)))?;
            if t.seq != seq {
                return Err(format!("received message {} instead of {seq}", t.seq));
            }
            if ty == "ROUTER" && got[0] != c.id {
                return Err("ROUTER labelled the message with another identity".into());
            }
        }
        _ => {}
    }
    match ty {
        "REP" => {
            let reply = rc::tagged(origin + 1, seq, &[2]);
            tokio::time::timeout(WAIT, sock.send(&reply)).await.map_err(|_| "send timed out".to_string())?.map_err(|e| e.text)?;
            let m = c.raw.read_msg(WAIT).await.map_err(|e| format!("reply not received: {e:?}"))?;
            rc::parse_tag(&m, 1).map_err(|e| format!("reply corrupted: {e}"))?;
        }
        "ROUTER" => {
            let mut m = vec![c.id.clone()];
            m.extend(rc::tagged(origin + 1, seq, &[2]));
            tokio::time::timeout(WAIT, sock.send(&m)).await.map_err(|_| "send timed out".to_string())?.map_err(|e| e.text)?;
            let r = c.raw.read_msg(WAIT).await.map_err(|e| format!("routed message not received: {e:?}"))?;
            rc::parse_tag(&r, 0).map_err(|e| format!("routed message corrupted: {e}"))?;
        }
        "PUB" => {
            // the subscription is processed asynchronously: publish until it arrives (bounded)
            let deadline = std::time::Instant::now() + WAIT;
            loop {
                let m = rc::tagged(origin + 1, seq, &[2]);
                tokio::time::timeout(WAIT, sock.send(&m)).await.map_err(|_| "publish timed out".to_string())?.map_err(|e| e.text)?;
                match c.raw.read_msg(Duration::from_millis(40)).await {
                    Ok(r) => {
                        rc::parse_tag(&r, 0).map_err(|e| format!("published message corrupted: {e}"))?;
                        // drain the extra copies of this round
                        while c.raw.read_msg(Duration::from_millis(5)).await.is_ok() {}
                        break;
                    }
                    Err(rig::ReadEnd::Timeout) if std::time::Instant::now() < deadline => continue,
                    Err(e) => return Err(format!("subscriber received nothing: {e:?}")),
                }
            }
        }
        _ => {}
    }
    Ok(())
}

/// TCP port of an endpoint text (None for ipc).
fn port_of(ep: &str) -> Option<&str> {
    if ep.starts_with("tcp://") {
        ep.rsplit(':').next()
    } else {
        None
    }
}

/// The OS hands released ephemeral ports out again, and `localhost` resolves to both
/// address families: an OS-level probe of an unbound endpoint is only meaningful
/// while no currently bound endpoint uses the same port number.
fn port_in_use_by_model(ep: &str, model: &BTreeSet<String>) -> bool {
    match port_of(ep) {
        Some(p) => model.iter().any(|m| port_of(m) == Some(p)),
        None => model.contains(ep),
    }
}

/// Is `ep` refused *by the socket under test*? Ephemeral ports are recycled by the OS
/// and other cases/processes bind concurrently, so a successful OS-level connect proves
/// nothing by itself, and neither does "some accept event" on our monitor (a stalled
/// client of an earlier step that gives up produces one at an arbitrary later moment).
/// The probe therefore completes a handshake under an identity nobody else uses and
/// is attributed to our socket only by the `Accepted` event that carries that identity.
async fn refused_by_our_socket(ep: &str, ty: &str, mon: &mut futures::channel::mpsc::Receiver<zeromq::SocketEvent>) -> Result<(bool, bool), String> {
    use futures::StreamExt;
    static PROBE: std::sync::atomic::AtomicU64 = std::sync::atomic::AtomicU64::new(0);
    #[allow(deprecated)]
    while let Ok(Some(_)) = mon.try_next() {}
    let mut raw = match tokio::time::timeout(WAIT, Raw::connect(ep)).await {
        Err(_) => return Err("connect attempt timed out".into()),
        Ok(Ok(r)) => r,
        Ok(Err(e)) => {
            return match e.kind() {
                std::io::ErrorKind::ConnectionRefused | std::io::ErrorKind::NotFound => Ok((true, false)),
                // reset out of a backlog: nobody admitted it
                std::io::ErrorKind::ConnectionReset | std::io::ErrorKind::ConnectionAborted => Ok((true, true)),
                _ => Err(format!("unexpected connect error {e}")),
            }
        }
    };
    let nonce = mix(PROBE.fetch_add(1, std::sync::atomic::Ordering::SeqCst) ^ ((std::process::id() as u64) << 32) ^ hash_str(ep));
    let id = format!("probe-{nonce:016x}").into_bytes();
    match tokio::time::timeout(Duration::from_secs(2), raw.handshake(peer_type_for(ty), Some(&id))).await {
        Ok(Ok(_)) => {}
        _ => return Ok((true, true)), // whoever accepted it did not admit it
    }
    let deadline = std::time::Instant::now() + Duration::from_millis(1000);
    while std::time::Instant::now() < deadline {
        match tokio::time::timeout(Duration::from_millis(50), mon.next()).await {
            Ok(Some(zeromq::SocketEvent::Accepted(_, pid))) if pid.as_ref() == &id[..] => return Ok((false, false)),
            Ok(Some(_)) => continue,
            Ok(None) => break,
            Err(_) => continue,
        }
    }
    Ok((true, true)) // a foreign listener on a recycled port
}

async fn sequence(ty: &str, len: usize, seed: u64) -> (Vec<(String, String)>, Vec<String>, Vec<(String, u64)>, Vec<String>) {
    let mut viol: Vec<(String, String)> = Vec::new();
    let mut inconc: Vec<String> = Vec::new();
    let mut counts: std::collections::BTreeMap<String, u64> = Default::default();
    let mut log: Vec<String> = Vec::new();
    let mut r = Rng::keyed(seed, &[18, hash_str(ty)]);
    let mut sock = Sock::new(ty, None);
    let mut mon = sock.monitor();
    let mut model: BTreeSet<String> = BTreeSet::new();
    let mut removed: Vec<String> = Vec::new();
    let mut conns: Vec<ConnRec> = Vec::new();
    let mut stalled: Vec<Raw> = Vec::new();
    let mut seq = 0u32;
    macro_rules! count {
        ($k:expr) => {
            *counts.entry($k.to_string()).or_insert(0) += 1
        };
    }
    'ops: for step in 0..len {
        let op = r.below(11);
        if std::env::var("VERIF_VERBOSE").is_ok() {
            eprintln!("[c18] step {step} op {op} model {model:?} log {:?}", log.last());
        }
        match op {
            0..=3 => {
                let transport = ["tcp4", "tcp6", "localhost", "ipc"][op];
                let want = rig::bind_endpoint(transport);
                log.push(format!("bind({want})"));
                count!(format!("op/bind-{transport}"));
                match sock.bind(&want).await {
                    Ok(ep) => {
                        if ep.starts_with("tcp://") && ep.ends_with(":0") {
                            viol.push(("C18/bind-returned-port-0".into(), format!("bind({want}) returned {ep}")));
                            break 'ops;
                        }
                        if transport != "ipc" && !ep.starts_with(want.trim_end_matches('0')) {
                            viol.push(("C18/bind-returned-other-host".into(), format!("bind({want}) returned {ep}")));
                            break 'ops;
                        }
                        if !model.insert(ep.clone()) {
                            viol.push(("C18/bind-returned-endpoint-already-bound".into(), format!("bind({want}) returned {ep} twice")));
                            break 'ops;
                        }
                    }
                    Err(e) => {
                        // a fresh wildcard bind has no reason to fail
                        viol.push(("C18/fresh-bind-failed".into(), format!("bind({want}) failed: {e}")));
                        break 'ops;
                    }
                }
            }
            4 => {
                // duplicate of a bound concrete endpoint: must fail and change nothing
                if let Some(ep) = model.iter().nth(r.below(model.len().max(1))).cloned() {
                    log.push(format!("bind-duplicate({ep})"));
                    count!("op/bind-duplicate");
                    if let Ok(again) = sock.bind(&ep).await {
                        viol.push(("C18/duplicate-bind-succeeded".into(), format!("second bind of {ep} returned {again}")));
                        break 'ops;
                    }
                }
            }
            5 | 6 => {
                if let Some(ep) = model.iter().nth(r.below(model.len().max(1))).cloned() {
                    log.push(format!("unbind({ep})"));
                    count!("op/unbind-bound");
                    if model.len() > 1 {
                        count!("unbind_with_other_binds_alive");
                    }
                    // clients whose connect races the unbind: connected (silent) a moment before
                    let mut racing: Vec<Raw> = Vec::new();
                    if r.chance(1, 2) && !ep.contains("localhost") {
                        for _ in 0..r.range(1, 12) {
                            if let Ok(c) = Raw::connect_blocking(&ep) {
                                racing.push(c);
                            }
                        }
                        count!("unbinds_raced_by_connects");
                    }
                    match sock.unbind(&ep).await {
                        Ok(()) => {
                            if !racing.is_empty() {
                                // whatever was still being set up when unbind was called is long
                                // gone now; nobody becomes a peer through this endpoint any more
                                tokio::time::sleep(Duration::from_millis(50)).await;
                                let hs = rc::handshake(peer_type_for(ty), Some(b"racer"));
                                let mut admitted = 0;
                                let n = racing.len();
                                for mut c in racing.drain(..) {
                                    if c.write_all(&hs).await.is_err() {
                                        continue;
                                    }
                                    let mut acc = Vec::new();
                                    // greeting (64) + a READY frame = admitted
                                    if c.read_exact_or(&mut acc, 64 + 2, Duration::from_millis(300)).await.is_ok() {
                                        admitted += 1;
                                    }
                                }
                                if admitted > 0 {
                                    viol.push((
                                        "C18/peer-admitted-through-unbound-endpoint".into(),
                                        format!("{n} clients had connected to {ep} (silent) just before unbind; 50 ms after unbind returned they sent their handshake and {admitted} of them were answered with READY"),
                                    ));
                                    break 'ops;
                                }
                            }
                            model.remove(&ep);
                            removed.push(ep.clone());
                            // by the time it returns
                            if port_in_use_by_model(&ep, &model) {
                                count!("unbind_probe_skipped_port_reused");
                            } else {
                                match refused_by_our_socket(&ep, ty, &mut mon).await {
                                    Ok((true, foreign)) => {
                                        if foreign {
                                            count!("probes_answered_by_a_foreign_listener");
                                        }
                                    }
                                    Ok((false, _)) => {
                                        viol.push(("C18/unbind-still-accepting".into(), format!("a fresh connect to {ep} was accepted by the socket after unbind returned")));
                                        break 'ops;
                                    }
                                    Err(e) => inconc.push(e),
                                }
                            }
                        }
                        Err(e) => {
                            viol.push(("C18/unbind-of-bound-endpoint-failed".into(), format!("unbind({ep}): {e}")));
                            break 'ops;
                        }
                    }
                }
            }
            8 if r.chance(1, 2) && !model.is_empty() => {
                // a client that connects and then says nothing must not stop the listener
                // from accepting others (checked by the following connect-and-exchange ops)
                let ep = model.iter().nth(r.below(model.len())).cloned().unwrap();
                log.push(format!("stalled-client({ep})"));
                count!("op/stalled-client");
                if let Ok(Ok(mut raw)) = tokio::time::timeout(WAIT, Raw::connect(&ep)).await {
                    let _ = raw.write_all(&rc::greeting()[..r.below(40)]).await;
                    stalled.push(raw);
                }
            }
            10 => {
                // unbind and at once bind the very same concrete endpoint again (ipc path, or
                // a tcp port the harness owns): the endpoint was released by the time unbind
                // returned, and the new listener is as good as any
                let cands: Vec<String> = model.iter().filter(|e| e.starts_with("ipc://")).cloned().collect();
                if let Some(ep) = cands.get(r.below(cands.len().max(1))).cloned() {
                    log.push(format!("unbind-then-bind({ep})"));
                    count!("op/rebind-same-endpoint");
                    if let Err(e) = sock.unbind(&ep).await {
                        viol.push(("C18/unbind-of-bound-endpoint-failed".into(), format!("unbind({ep}): {e}")));
                        break 'ops;
                    }
                    match sock.bind(&ep).await {
                        Ok(again) if again == ep => {}
                        other => {
                            viol.push((
                                "C18/endpoint-not-released-by-unbind".into(),
                                format!("unbind({ep}) returned Ok, binding the same endpoint right afterwards gave {other:?}"),
                            ));
                            break 'ops;
                        }
                    }
                    // whatever the old listener still had to tidy up must not hit the new one
                    tokio::time::sleep(Duration::from_millis(r.below(30) as u64)).await;
                    let mut ok = false;
                    if let Ok(Ok(mut raw)) = tokio::time::timeout(WAIT, Raw::connect(&ep)).await {
                        let id = format!("r{}", conns.len()).into_bytes();
                        if raw.handshake(peer_type_for(ty), Some(&id)).await.is_ok() {
                            ok = true;
                            if ty == "PUB" {
                                let _ = raw.send_msg(&[vec![1u8]]).await;
                            }
                            conns.push(ConnRec { raw, id, ep: ep.clone() });
                        }
                    }
                    if !ok {
                        viol.push((
                            "C18/bound-endpoint-not-connectable".into(),
                            format!("{ep} was unbound and bound again (bind returned Ok); a connect to it does not get through"),
                        ));
                        break 'ops;
                    }
                }
            }
            7 => {
                // never bound / bound earlier and unbound / another host spelling carrying the
                // port of a live listener (a port number alone identifies no bind)
                let live_tcp: Vec<String> = model.iter().filter(|e| e.starts_with("tcp://")).cloned().collect();
                let unknown = match r.below(3) {
                    0 if !live_tcp.is_empty() => {
                        let ep = &live_tcp[r.below(live_tcp.len())];
                        let port = port_of(ep).unwrap_or("1").to_string();
                        let mut cands: Vec<String> = ["127.0.0.1", "127.0.0.2", "localhost", "[::1]", "0.0.0.0", "[::]"]
                            .iter()
                            .map(|h| format!("tcp://{h}:{port}"))
                            .filter(|c| !model.contains(c))
                            .collect();
                        cands.retain(|c| c != ep);
                        count!("op/unbind-other-host-same-port");
                        cands[r.below(cands.len())].clone()
                    }
                    1 if !removed.is_empty() => removed[r.below(removed.len())].clone(),
                    _ => "tcp://127.0.0.1:1".to_string(),
                };
                if model.contains(&unknown) {
                    continue;
                }
                log.push(format!("unbind-unknown({unknown})"));
                count!("op/unbind-unknown");
                match sock.unbind(&unknown).await {
                    Err(e) if e.starts_with("NoSuchBind") => {}
                    other => {
                        viol.push(("C18/unbind-unknown-not-NoSuchBind".into(), format!("unbind({unknown}) returned {other:?}")));
                        break 'ops;
                    }
                }
            }
            _ => {
                // connect in to every endpoint of the model, and exchange on every connection
                log.push("connect-and-exchange".into());
                count!("op/connect-and-exchange");
                for ep in model.clone() {
                    let mut raw = match tokio::time::timeout(WAIT, Raw::connect(&ep)).await {
                        Ok(Ok(r)) => r,
                        other => {
                            viol.push((
                                "C18/bound-endpoint-not-connectable".into(),
                                format!("{ep} is in the bind set but connect gave {:?}", other.map(|r| r.map(|_| ()).map_err(|e| e.to_string()))),
                            ));
                            break 'ops;
                        }
                    };
                    let id = format!("c{}", conns.len()).into_bytes();
                    if let Err(e) = raw.handshake(peer_type_for(ty), Some(&id)).await {
                        viol.push(("C18/bound-endpoint-does-not-handshake".into(), format!("{ep}: {e}")));
                        break 'ops;
                    }
                    if ty == "PUB" {
                        let _ = raw.send_msg(&[vec![1u8]]).await;
                    }
                    count!("endpoints_probed");
                    conns.push(ConnRec { raw, id, ep });
                }
                // registration of the newest peers is asynchronous to our handshake read
                tokio::time::sleep(Duration::from_millis(15)).await;
                for c in conns.iter_mut() {
                    seq += 1;
                    if let Err(e) = exchange(&mut sock, c, seq).await {
                        let kind = if model.contains(&c.ep) { "connection-of-bound-endpoint-broken" } else { "established-connection-broken-by-unbind" };
                        viol.push((format!("C18/{kind}"), format!("connection made through {} (step {step}): {e}", c.ep)));
                        break 'ops;
                    }
                    count!("exchanges");
                    if !model.contains(&c.ep) {
                        count!("exchanges_on_connections_of_unbound_endpoints");
                    }
                }
            }
        }
        // model equality after every operation
        let have: BTreeSet<String> = sock.binds().into_iter().collect();
        if have != model {
            viol.push(("C18/bind-set-differs-from-model".into(), format!("after {:?}: binds() = {have:?}, model = {model:?}", log.last())));
            break 'ops;
        }
        // removed endpoints stay closed, model endpoints stay open (cheap OS-level probe)
        if step % 4 == 3 {
            for ep in &removed {
                if !port_in_use_by_model(ep, &model) {
                    match refused_by_our_socket(ep, ty, &mut mon).await {
                        Ok((false, _)) => {
                            viol.push(("C18/unbound-endpoint-accepts-again".into(), format!("{ep} is accepted by the socket although it was unbound")));
                            break 'ops;
                        }
                        Ok((true, true)) => count!("probes_answered_by_a_foreign_listener"),
                        _ => {}
                    }
                }
            }
        }
    }
    let errs = tokio::time::timeout(WAIT, sock.close()).await.unwrap_or_default();
    let _ = errs;
    (viol, inconc, counts.into_iter().collect(), log)
}

/// Child process: `accept()` on a bound endpoint fails for a while (descriptor table
/// full), then the condition goes away. A bind accepts any number of connections until
/// it is unbound: the connection that was waiting and new ones are served, established
/// traffic continues, the endpoint is still in the bind set.
pub fn child_accept_fail(args: &[String]) -> i32 {
    let ty = args.first().cloned().unwrap_or_else(|| "PULL".into());
    let transport = args.get(1).cloned().unwrap_or_else(|| "tcp4".into());
    let stallers: usize = args.get(2).and_then(|x| x.parse().ok()).unwrap_or(0);
    let (res, _) = rig::run(2, async move {
        let mut sock = Sock::new(&ty, None);
        let mut mon = sock.monitor();
        let ep = sock.bind(&rig::bind_endpoint(&transport)).await?;
        let peer_ty = peer_type_for(&ty);
        let mut est = ConnRec { raw: Raw::connect(&ep).await.map_err(|e| e.to_string())?, id: b"established".to_vec(), ep: ep.clone() };
        est.raw.handshake(peer_ty, Some(b"established")).await?;
        if ty == "PUB" {
            let _ = est.raw.send_msg(&[vec![1u8]]).await;
        }
        tokio::time::sleep(Duration::from_millis(30)).await;
        exchange(&mut sock, &mut est, 1).await.map_err(|e| format!("setup exchange: {e}"))?;
        // clients that connect and say nothing (they hold descriptors on both sides)
        let mut silent = Vec::new();
        for _ in 0..stallers {
            silent.push(Raw::connect(&ep).await.map_err(|e| e.to_string())?);
        }
        tokio::time::sleep(Duration::from_millis(30)).await;
        // ---- fill the descriptor table, leaving exactly one slot
        let mut old = libc::rlimit { rlim_cur: 0, rlim_max: 0 };
        if unsafe { libc::getrlimit(libc::RLIMIT_NOFILE, &mut old) } != 0 {
            return Err("getrlimit failed".into());
        }
        let used = rig::open_fds() as u64;
        let low = libc::rlimit { rlim_cur: (used + 24).min(old.rlim_max), rlim_max: old.rlim_max };
        if unsafe { libc::setrlimit(libc::RLIMIT_NOFILE, &low) } != 0 {
            return Err("setrlimit failed".into());
        }
        let mut filler = Vec::new();
        while let Ok(f) = std::fs::File::open("/dev/null") {
            filler.push(f);
            if filler.len() > 4096 {
                break;
            }
        }
        filler.pop(); // one free slot: the client's own socket
        #[allow(deprecated)]
        while let Ok(Some(_)) = mon.try_next() {}
        let waiting = Raw::connect(&ep).await;
        // the listener now has a connection to accept and no descriptor to accept it with
        tokio::time::sleep(Duration::from_millis(120)).await;
        drop(filler);
        unsafe { libc::setrlimit(libc::RLIMIT_NOFILE, &old) };
        // what the listener went through, as its monitor tells it
        let mut accept_errors = 0u64;
        #[allow(deprecated)]
        while let Ok(Some(ev)) = mon.try_next() {
            if let zeromq::SocketEvent::AcceptFailed(_) = ev {
                accept_errors += 1;
            }
        }
        // ---- the condition is gone
        let mut problems: Vec<String> = Vec::new();
        // the waiting connection itself may have been refused/reset while the table was
        // full; only a listener that never comes back is judged, through the next client
        let waiting_ok = match waiting {
            Ok(mut w) => match tokio::time::timeout(WAIT, w.handshake(peer_ty, Some(b"waiting"))).await {
                Ok(Ok(_)) => true,
                Ok(Err(e)) => {
                    problems.push(format!("waiting client: {e}"));
                    false
                }
                Err(_) => false,
            },
            Err(e) => {
                problems.push(format!("waiting client: connect: {e}"));
                false
            }
        };
        let mut fresh_err = String::new();
        let mut fresh_ok = false;
        let deadline = std::time::Instant::now() + WAIT;
        while std::time::Instant::now() < deadline {
            match tokio::time::timeout(WAIT, Raw::connect(&ep)).await {
                Ok(Ok(mut raw)) => match raw.handshake(peer_ty, Some(b"fresh")).await {
                    Ok(_) => {
                        fresh_ok = true;
                        break;
                    }
                    Err(e) => fresh_err = format!("handshake: {e}"),
                },
                Ok(Err(e)) => fresh_err = format!("connect: {e}"),
                Err(_) => fresh_err = "connect timed out".into(),
            }
            tokio::time::sleep(Duration::from_millis(50)).await;
        }
        let est_res = exchange(&mut sock, &mut est, 2).await;
        let in_set = sock.binds().contains(&ep);
        let canary = rig::canary_ok().await;
        // C17: a socket that went through this is closed like any other
        let close_mode = std::env::var("ACCEPTFAIL_THEN").unwrap_or_default();
        let mut after_close = json!(null);
        if close_mode == "close" || close_mode == "drop" {
            drop(silent.drain(..).collect::<Vec<_>>());
            let mut close_errors = Vec::new();
            if close_mode == "close" {
                match tokio::time::timeout(WAIT, sock.close()).await {
                    Ok(e) => close_errors = e.iter().map(|x| format!("{x:?}")).collect(),
                    Err(_) => close_errors.push("close() timed out".into()),
                }
            } else {
                drop(sock);
                let _ = rig::eventually(WAIT, || !rig::ipc_file_exists(&ep)).await;
            }
            // (after a drop "shortly afterwards": bounded wait)
            let mut refused = false;
            let deadline = std::time::Instant::now() + WAIT;
            while std::time::Instant::now() < deadline {
                if rig::connect_refused(&ep).await.unwrap_or(false) {
                    refused = true;
                    break;
                }
                tokio::time::sleep(Duration::from_millis(20)).await;
            }
            after_close = json!({"mode": close_mode, "ipc_file_left": rig::ipc_file_exists(&ep), "refused": refused, "close_errors": close_errors});
            println!(
                "ACCEPTFAIL {}",
                json!({"ty": ty, "transport": transport, "stallers": stallers, "waiting_ok": waiting_ok, "fresh_ok": fresh_ok, "fresh_err": fresh_err,
                       "established_ok": est_res.is_ok(), "established_err": est_res.err().unwrap_or_default(),
                       "in_bind_set": in_set, "canary_ok": canary, "notes": problems, "accept_errors_reported": accept_errors, "after_close": after_close})
            );
            return Ok::<(), String>(());
        }
        let _ = &after_close;
        println!(
            "ACCEPTFAIL {}",
            json!({"ty": ty, "transport": transport, "stallers": stallers, "waiting_ok": waiting_ok, "fresh_ok": fresh_ok, "fresh_err": fresh_err,
                   "established_ok": est_res.is_ok(), "established_err": est_res.err().unwrap_or_default(),
                   "in_bind_set": in_set, "canary_ok": canary, "notes": problems, "accept_errors_reported": accept_errors})
        );
        drop(silent);
        let _ = tokio::time::timeout(WAIT, sock.close()).await;
        Ok::<(), String>(())
    });
    match res {
        Ok(()) => 0,
        Err(e) => {
            println!("ACCEPTFAIL-ERROR {e}");
            1
        }
    }
}

/// Parent side of the child above; `me` is C18 or C20.
pub fn accept_fail_case(me: &str, ctx: &mut Ctx, case: &Value) {
    use std::process::{Command, Stdio};
    let ty = s(case, "ty").to_string();
    let transport = s(case, "transport").to_string();
    let stallers = u(case, "stallers");
    ctx.eval(hash_str(&case.to_string()), true);
    ctx.sample("accept_errors", || case.clone());
    let exe = std::env::current_exe().expect("current_exe");
    let out = Command::new(exe)
        .args(["child", "acceptfail", &ty, &transport, &stallers.to_string()])
        .stdout(Stdio::piped())
        .stderr(Stdio::null())
        .output();
    let text = match out {
        Ok(o) => String::from_utf8_lossy(&o.stdout).into_owned(),
        Err(e) => {
            ctx.inconclusive(format!("{me} accept errors: cannot run child: {e}"));
            return;
        }
    };
    let Some(line) = text.lines().find(|l| l.starts_with("ACCEPTFAIL ")) else {
        ctx.inconclusive(format!("{me} accept errors {ty}/{transport}: {}", text.lines().last().unwrap_or("no output")));
        return;
    };
    let v: Value = serde_json::from_str(&line["ACCEPTFAIL ".len()..]).unwrap_or(Value::Null);
    let b = |k: &str| v[k].as_bool().unwrap_or(false);
    if u(&v, "accept_errors_reported") == 0 && b("fresh_ok") {
        // the listener never saw accept() fail: nothing was exercised
        ctx.count("episodes_in_which_accept_did_not_fail");
        return;
    }
    ctx.count("accept_error_episodes");
    ctx.count(&format!("accept_error_episodes/{transport}"));
    ctx.add("accept_errors_reported_by_the_monitor", u(&v, "accept_errors_reported"));
    if b("waiting_ok") {
        ctx.count("connections_served_after_waiting_through_accept_errors");
    }
    let mut bad: Vec<(String, String)> = Vec::new();
    if !b("fresh_ok") {
        bad.push((
            format!("{me}/listener-dead-after-transient-accept-error/{transport}"),
            format!("{ty} bound on {transport}: accept() failed for a while (descriptor table full, {stallers} silent clients connected); afterwards, with the endpoint still bound (in bind set: {}), no new client gets through: {}", b("in_bind_set"), s(&v, "fresh_err")),
        ));
    }
    if !b("established_ok") {
        bad.push((format!("{me}/established-traffic-interrupted-by-accept-error/{transport}"), s(&v, "established_err").to_string()));
    }
    if me == "C18" && !b("in_bind_set") {
        bad.push(("C18/bind-set-differs-from-model".into(), "the endpoint left the bind set without unbind".into()));
    }
    for (sig, msg) in bad {
        if b("canary_ok") {
            ctx.violation_with(&sig, msg, case.clone());
        } else {
            ctx.inconclusive(format!("{me} accept errors: {msg} (canary slow)"));
        }
    }
}

impl Prop for C18 {
    fn id(&self) -> &'static str {
        "C18"
    }

    fn cases(&self, tier: Tier, seed: u64) -> Vec<Value> {
        let mut v = Vec::new();
        for ty in ["REP", "PULL", "PUB", "ROUTER"] {
            for transport in ["tcp4", "tcp6", "ipc"] {
                v.push(json!({"kind": "accept_errors", "ty": ty, "transport": transport, "stallers": 0}));
            }
        }
        for ty in ["REP", "PULL", "PUB", "ROUTER"] {
            for k in 0..tier.pick(30, 1200) {
                let len = 10 + (k % 4) * 10;
                v.push(json!({"kind": "seq", "ty": ty, "len": len, "seed": mix(seed ^ 0xC18 ^ (k as u64) << 4)}));
            }
        }
        v
    }

    fn run(&self, case: &Value, ctx: &mut Ctx) {
        let ty = s(case, "ty").to_string();
        if s(case, "kind") == "accept_errors" {
            accept_fail_case("C18", ctx, case);
            return;
        }
        ctx.eval(hash_str(&case.to_string()), true);
        let ((viol, inconc, counts, log), _alive) = rig::run(2, sequence(&ty, u(case, "len") as usize, u(case, "seed")));
        ctx.count("sequences");
        ctx.sample(&format!("sequence_{ty}"), || json!({"ty": ty, "ops": log}));
        for (k, n) in counts {
            ctx.add(&k, n);
        }
        for i in inconc {
            ctx.inconclusive(format!("C18: {i}"));
        }
        for (sig, msg) in viol {
            ctx.violation_with(&sig, msg, case.clone());
        }
    }

    fn floors(&self, _tier: Tier) -> Vec<(&'static str, u64)> {
        vec![
            ("sequences", 40),
            ("op/bind-tcp4", 20),
            ("op/bind-tcp6", 20),
            ("op/bind-localhost", 20),
            ("op/bind-ipc", 20),
            ("op/bind-duplicate", 20),
            ("op/unbind-bound", 20),
            ("op/unbind-unknown", 20),
            ("op/connect-and-exchange", 20),
            ("op/stalled-client", 10),
            ("op/rebind-same-endpoint", 10),
            ("op/unbind-other-host-same-port", 10),
            ("unbinds_raced_by_connects", 10),
            ("accept_error_episodes", 12),
            ("unbind_with_other_binds_alive", 10),
            ("endpoints_probed", 100),
            ("exchanges", 200),
            ("exchanges_on_connections_of_unbound_endpoints", 10),
        ]
    }

    fn max_threads(&self) -> usize {
        8
    }

    fn case_timeout(&self) -> Duration {
        Duration::from_secs(300)
    }
}
