//! C18 — bind/unbind manage independent listeners with exact endpoint bookkeeping.

use super::common::*;
use crate::prng::{hash_str, mix, Rng};
use crate::refcodec::{self as rc};
use crate::report::{Ctx, Tier};
use crate::rig::{self, Raw, WAIT};
use crate::sock::{peer_type_for, Sock};
use crate::Prop;
use serde_json::{json, Value};
use std::collections::BTreeSet;
use std::time::Duration;

pub struct C18;

pub struct ConnRec {
    pub raw: Raw,
    pub id: Vec<u8>,
    pub ep: String,
}

/// One tagged exchange over an established connection, in the directions the type supports.
pub async fn exchange(sock: &mut Sock, c: &mut ConnRec, seq: u32) -> Result<(), String> {
    let ty = sock.ty();
    let origin = 77u16;
    match ty {
        "PULL" | "REP" | "ROUTER" => {
            let payload = rc::tagged(origin, seq, &[3]);
            let wire = if ty == "REP" {
                let mut w = vec![vec![]];
                w.extend(payload.clone());
                w
            } else {
                payload.clone()
            };
            c.raw.send_msg(&wire).await?;
            let got = tokio::time::timeout(WAIT, sock.recv()).await.map_err(|_| "recv timed out".to_string())??;
            let skip = if ty == "ROUTER" { 1 } else { 0 };
            let t = rc::parse_tag(&got, skip).map_err(|e| format!("received {}: {e}", rc::frames_summary(&got)))?;
            if t.seq != seq {
                return Err(format!("received message {} instead of {seq}", t.seq));
            }
            if ty == "ROUTER" && got[0] != c.id {
                return Err("ROUTER labelled the message with another identity".into());
            }
        }
        _ => {}
    }
    match ty {
        "REP" => {
            let reply = rc::tagged(origin + 1, seq, &[2]);
            tokio::time::timeout(WAIT, sock.send(&reply)).await.map_err(|_| "send timed out".to_string())?.map_err(|e| e.text)?;
            let m = c.raw.read_msg(WAIT).await.map_err(|e| format!("reply not received: {e:?}"))?;
            rc::parse_tag(&m, 1).map_err(|e| format!("reply corrupted: {e}"))?;
        }
        "ROUTER" => {
            let mut m = vec![c.id.clone()];
            m.extend(rc::tagged(origin + 1, seq, &[2]));
            tokio::time::timeout(WAIT, sock.send(&m)).await.map_err(|_| "send timed out".to_string())?.map_err(|e| e.text)?;
            let r = c.raw.read_msg(WAIT).await.map_err(|e| format!("routed message not received: {e:?}"))?;
            rc::parse_tag(&r, 0).map_err(|e| format!("routed message corrupted: {e}"))?;
        }
        "PUB" => {
            // the subscription is processed asynchronously: publish until it arrives (bounded)
            let deadline = std::time::Instant::now() + WAIT;
            loop {
                let m = rc::tagged(origin + 1, seq, &[2]);
                tokio::time::timeout(WAIT, sock.send(&m)).await.map_err(|_| "publish timed out".to_string())?.map_err(|e| e.text)?;
                match c.raw.read_msg(Duration::from_millis(40)).await {
                    Ok(r) => {
                        rc::parse_tag(&r, 0).map_err(|e| format!("published message corrupted: {e}"))?;
                        // drain the extra copies of this round
                        while c.raw.read_msg(Duration::from_millis(5)).await.is_ok() {}
                        break;
                    }
                    Err(rig::ReadEnd::Timeout) if std::time::Instant::now() < deadline => continue,
                    Err(e) => return Err(format!("subscriber received nothing: {e:?}")),
                }
            }
        }
        _ => {}
    }
    Ok(())
}

/// TCP port of an endpoint text (None for ipc).
fn port_of(ep: &str) -> Option<&str> {
    if ep.starts_with("tcp://") {
        ep.rsplit(':').next()
    } else {
        None
    }
}

/// The OS hands released ephemeral ports out again, and `localhost` resolves to both
/// address families: an OS-level probe of an unbound endpoint is only meaningful
/// while no currently bound endpoint uses the same port number.
fn port_in_use_by_model(ep: &str, model: &BTreeSet<String>) -> bool {
    match port_of(ep) {
        Some(p) => model.iter().any(|m| port_of(m) == Some(p)),
        None => model.contains(ep),
    }
}

/// Is `ep` refused *by the socket under test*? Ephemeral ports are recycled by the OS
/// and other cases/processes bind concurrently, so a successful OS-level connect proves
/// nothing by itself: our socket's monitor tells whether it was our listener that
/// accepted (a connection closed at once yields an accept failure event).
async fn refused_by_our_socket(ep: &str, mon: &mut futures::channel::mpsc::Receiver<zeromq::SocketEvent>) -> Result<(bool, bool), String> {
    use futures::StreamExt;
    #[allow(deprecated)]
    while let Ok(Some(_)) = mon.try_next() {}
    match rig::connect_refused(ep).await? {
        true => Ok((true, false)),
        false => {
            // somebody accepted; was it us?
            let deadline = std::time::Instant::now() + Duration::from_millis(500);
            while std::time::Instant::now() < deadline {
                match tokio::time::timeout(Duration::from_millis(50), mon.next()).await {
                    Ok(Some(zeromq::SocketEvent::Accepted(..))) | Ok(Some(zeromq::SocketEvent::AcceptFailed(_))) => return Ok((false, false)),
                    Ok(Some(_)) => continue,
                    Ok(None) => break,
                    Err(_) => continue,
                }
            }
            Ok((true, true)) // a foreign listener on a recycled port
        }
    }
}

async fn sequence(ty: &str, len: usize, seed: u64) -> (Vec<(String, String)>, Vec<String>, Vec<(String, u64)>, Vec<String>) {
    let mut viol: Vec<(String, String)> = Vec::new();
    let mut inconc: Vec<String> = Vec::new();
    let mut counts: std::collections::BTreeMap<String, u64> = Default::default();
    let mut log: Vec<String> = Vec::new();
    let mut r = Rng::keyed(seed, &[18, hash_str(ty)]);
    let mut sock = Sock::new(ty, None);
    let mut mon = sock.monitor();
    let mut model: BTreeSet<String> = BTreeSet::new();
    let mut removed: Vec<String> = Vec::new();
    let mut conns: Vec<ConnRec> = Vec::new();
    let mut stalled: Vec<Raw> = Vec::new();
    let mut seq = 0u32;
    macro_rules! count {
        ($k:expr) => {
            *counts.entry($k.to_string()).or_insert(0) += 1
        };
    }
    'ops: for step in 0..len {
        let op = r.below(10);
        if std::env::var("VERIF_VERBOSE").is_ok() {
            eprintln!("[c18] step {step} op {op} model {model:?} log {:?}", log.last());
        }
        match op {
            0..=3 => {
                let transport = ["tcp4", "tcp6", "localhost", "ipc"][op];
                let want = rig::bind_endpoint(transport);
                log.push(format!("bind({want})"));
                count!(format!("op/bind-{transport}"));
                match sock.bind(&want).await {
                    Ok(ep) => {
                        if ep.starts_with("tcp://") && ep.ends_with(":0") {
                            viol.push(("C18/bind-returned-port-0".into(), format!("bind({want}) returned {ep}")));
                            break 'ops;
                        }
                        if transport != "ipc" && !ep.starts_with(want.trim_end_matches('0')) {
                            viol.push(("C18/bind-returned-other-host".into(), format!("bind({want}) returned {ep}")));
                            break 'ops;
                        }
                        if !model.insert(ep.clone()) {
                            viol.push(("C18/bind-returned-endpoint-already-bound".into(), format!("bind({want}) returned {ep} twice")));
                            break 'ops;
                        }
                    }
                    Err(e) => {
                        // a fresh wildcard bind has no reason to fail
                        viol.push(("C18/fresh-bind-failed".into(), format!("bind({want}) failed: {e}")));
                        break 'ops;
                    }
                }
            }
            4 => {
                // duplicate of a bound concrete endpoint: must fail and change nothing
                if let Some(ep) = model.iter().nth(r.below(model.len().max(1))).cloned() {
                    log.push(format!("bind-duplicate({ep})"));
                    count!("op/bind-duplicate");
                    if let Ok(again) = sock.bind(&ep).await {
                        viol.push(("C18/duplicate-bind-succeeded".into(), format!("second bind of {ep} returned {again}")));
                        break 'ops;
                    }
                }
            }
            5 | 6 => {
                if let Some(ep) = model.iter().nth(r.below(model.len().max(1))).cloned() {
                    log.push(format!("unbind({ep})"));
                    count!("op/unbind-bound");
                    if model.len() > 1 {
                        count!("unbind_with_other_binds_alive");
                    }
                    match sock.unbind(&ep).await {
                        Ok(()) => {
                            model.remove(&ep);
                            removed.push(ep.clone());
                            // by the time it returns
                            if port_in_use_by_model(&ep, &model) {
                                count!("unbind_probe_skipped_port_reused");
                            } else {
                                match refused_by_our_socket(&ep, &mut mon).await {
                                    Ok((true, foreign)) => {
                                        if foreign {
                                            count!("probes_answered_by_a_foreign_listener");
                                        }
                                    }
                                    Ok((false, _)) => {
                                        viol.push(("C18/unbind-still-accepting".into(), format!("a fresh connect to {ep} was accepted by the socket after unbind returned")));
                                        break 'ops;
                                    }
                                    Err(e) => inconc.push(e),
                                }
                            }
                        }
                        Err(e) => {
                            viol.push(("C18/unbind-of-bound-endpoint-failed".into(), format!("unbind({ep}): {e}")));
                            break 'ops;
                        }
                    }
                }
            }
            8 if r.chance(1, 2) && !model.is_empty() => {
                // a client that connects and then says nothing must not stop the listener
                // from accepting others (checked by the following connect-and-exchange ops)
                let ep = model.iter().nth(r.below(model.len())).cloned().unwrap();
                log.push(format!("stalled-client({ep})"));
                count!("op/stalled-client");
                if let Ok(Ok(mut raw)) = tokio::time::timeout(WAIT, Raw::connect(&ep)).await {
                    let _ = raw.write_all(&rc::greeting()[..r.below(40)]).await;
                    stalled.push(raw);
                }
            }
            7 => {
                let unknown = if r.chance(1, 2) || removed.is_empty() { "tcp://127.0.0.1:1".to_string() } else { removed[r.below(removed.len())].clone() };
                log.push(format!("unbind-unknown({unknown})"));
                count!("op/unbind-unknown");
                match sock.unbind(&unknown).await {
                    Err(e) if e.starts_with("NoSuchBind") => {}
                    other => {
                        viol.push(("C18/unbind-unknown-not-NoSuchBind".into(), format!("unbind({unknown}) returned {other:?}")));
                        break 'ops;
                    }
                }
            }
            _ => {
                // connect in to every endpoint of the model, and exchange on every connection
                log.push("connect-and-exchange".into());
                count!("op/connect-and-exchange");
                for ep in model.clone() {
                    let mut raw = match tokio::time::timeout(WAIT, Raw::connect(&ep)).await {
                        Ok(Ok(r)) => r,
                        other => {
                            viol.push((
                                "C18/bound-endpoint-not-connectable".into(),
                                format!("{ep} is in the bind set but connect gave {:?}", other.map(|r| r.map(|_| ()).map_err(|e| e.to_string()))),
                            ));
                            break 'ops;
                        }
                    };
                    let id = format!("c{}", conns.len()).into_bytes();
                    if let Err(e) = raw.handshake(peer_type_for(ty), Some(&id)).await {
                        viol.push(("C18/bound-endpoint-does-not-handshake".into(), format!("{ep}: {e}")));
                        break 'ops;
                    }
                    if ty == "PUB" {
                        let _ = raw.send_msg(&[vec![1u8]]).await;
                    }
                    count!("endpoints_probed");
                    conns.push(ConnRec { raw, id, ep });
                }
                // registration of the newest peers is asynchronous to our handshake read
                tokio::time::sleep(Duration::from_millis(15)).await;
                for c in conns.iter_mut() {
                    seq += 1;
                    if let Err(e) = exchange(&mut sock, c, seq).await {
                        let kind = if model.contains(&c.ep) { "connection-of-bound-endpoint-broken" } else { "established-connection-broken-by-unbind" };
                        viol.push((format!("C18/{kind}"), format!("connection made through {} (step {step}): {e}", c.ep)));
                        break 'ops;
                    }
                    count!("exchanges");
                    if !model.contains(&c.ep) {
                        count!("exchanges_on_connections_of_unbound_endpoints");
                    }
                }
            }
        }
        // model equality after every operation
        let have: BTreeSet<String> = sock.binds().into_iter().collect();
        if have != model {
            viol.push(("C18/bind-set-differs-from-model".into(), format!("after {:?}: binds() = {have:?}, model = {model:?}", log.last())));
            break 'ops;
        }
        // removed endpoints stay closed, model endpoints stay open (cheap OS-level probe)
        if step % 4 == 3 {
            for ep in &removed {
                if !port_in_use_by_model(ep, &model) {
                    match refused_by_our_socket(ep, &mut mon).await {
                        Ok((false, _)) => {
                            viol.push(("C18/unbound-endpoint-accepts-again".into(), format!("{ep} is accepted by the socket although it was unbound")));
                            break 'ops;
                        }
                        Ok((true, true)) => count!("probes_answered_by_a_foreign_listener"),
                        _ => {}
                    }
                }
            }
        }
    }
    let errs = tokio::time::timeout(WAIT, sock.close()).await.unwrap_or_default();
    let _ = errs;
    (viol, inconc, counts.into_iter().collect(), log)
}

impl Prop for C18 {
    fn id(&self) -> &'static str {
        "C18"
    }

    fn cases(&self, tier: Tier, seed: u64) -> Vec<Value> {
        let mut v = Vec::new();
        for ty in ["REP", "PULL", "PUB", "ROUTER"] {
            for k in 0..tier.pick(30, 300) {
                let len = 10 + (k % 4) * 10;
                v.push(json!({"kind": "seq", "ty": ty, "len": len, "seed": mix(seed ^ 0xC18 ^ (k as u64) << 4)}));
            }
        }
        v
    }

    fn run(&self, case: &Value, ctx: &mut Ctx) {
        let ty = s(case, "ty").to_string();
        ctx.eval(hash_str(&case.to_string()), true);
        let ((viol, inconc, counts, log), _alive) = rig::run(2, sequence(&ty, u(case, "len") as usize, u(case, "seed")));
        ctx.count("sequences");
        ctx.sample(&format!("sequence_{ty}"), || json!({"ty": ty, "ops": log}));
        for (k, n) in counts {
            ctx.add(&k, n);
        }
        for i in inconc {
            ctx.inconclusive(format!("C18: {i}"));
        }
        for (sig, msg) in viol {
            ctx.violation_with(&sig, msg, case.clone());
        }
    }

    fn floors(&self, _tier: Tier) -> Vec<(&'static str, u64)> {
        vec![
            ("sequences", 40),
            ("op/bind-tcp4", 20),
            ("op/bind-tcp6", 20),
            ("op/bind-localhost", 20),
            ("op/bind-ipc", 20),
            ("op/bind-duplicate", 20),
            ("op/unbind-bound", 20),
            ("op/unbind-unknown", 20),
            ("op/connect-and-exchange", 20),
            ("op/stalled-client", 10),
            ("unbind_with_other_binds_alive", 10),
            ("endpoints_probed", 100),
            ("exchanges", 200),
            ("exchanges_on_connections_of_unbound_endpoints", 10),
        ]
    }

    fn max_threads(&self) -> usize {
        8
    }

    fn case_timeout(&self) -> Duration {
        Duration::from_secs(300)
    }
}
