//! C10 — round-robin senders deliver each message to exactly one peer, in rotation.

use super::common::*;
use crate::prng::{hash_str, mix, Rng};
use crate::refcodec::{self as rc, Frames};
use crate::report::{Ctx, Tier};
use crate::sim::{self, Managed};
use crate::sock::{peer_type_for, Peer, Sock};
use crate::Prop;
use serde_json::{json, Value};

pub struct C10;

fn wire_for(ty: &str, msg: &Frames) -> Vec<u8> {
    if ty == "REQ" {
        let mut w = vec![vec![]];
        w.extend(msg.clone());
        rc::message(&w)
    } else {
        rc::message(msg)
    }
}

/// One successful/failed send, judged at the instant it returns.
/// Returns the index of the peer that got the message.
async fn judged_send(
    ctx: &mut Ctx,
    sock: &mut Sock,
    peers: &[Peer],
    msg: &Frames,
    backpressure: Option<(usize, usize)>, // (peer whose credit is limited, credit)
    dead: &[bool],
    case: &Value,
) -> Result<Option<usize>, ()> {
    let ty = sock.ty();
    let before: Vec<usize> = peers.iter().map(|p| p.conn.tap_len()).collect();
    let want = wire_for(ty, msg);
    let mut fut = Managed::new(sock.send(msg));
    let mut res = match fut.drive().await {
        Ok(x) => x,
        Err(_) => {
            ctx.violation_with(&format!("C10/send-spins/{ty}"), "send future spins".into(), case.clone());
            return Err(());
        }
    };
    if res.is_none() {
        // pending: only legitimate under back-pressure
        ctx.count("sends_pending_under_backpressure");
        let grown: usize = peers.iter().enumerate().map(|(i, p)| p.conn.tap_len() - before[i]).sum();
        if grown >= want.len() {
            ctx.violation_with(
                &format!("C10/pending-although-written/{ty}"),
                "send still pending although the whole message is on the wire".into(),
                case.clone(),
            );
            return Err(());
        }
        if backpressure.is_none() {
            ctx.violation_with(
                &format!("C10/send-pending-without-backpressure/{ty}"),
                "send is pending at quiescence although every connection accepts writes".into(),
                case.clone(),
            );
            return Err(());
        }
        if grown > 0 {
            ctx.count("sends_pending_with_partial_write");
        }
        // credit arrives in two steps
        for p in peers {
            p.conn.add_credit(want.len() / 2 + 1);
        }
        res = fut.drive().await.unwrap_or(None);
        if res.is_none() {
            for p in peers {
                p.conn.set_credit(None);
            }
            res = fut.drive().await.unwrap_or(None);
        }
        if res.is_none() {
            ctx.violation_with(
                &format!("C10/send-stuck-after-credit/{ty}"),
                "send did not complete after the connection accepted writes again (lost wake-up)".into(),
                case.clone(),
            );
            return Err(());
        }
    }
    drop(fut);
    let grown: Vec<Vec<u8>> = peers.iter().enumerate().map(|(i, p)| p.conn.tap_from(before[i])).collect();
    match res.unwrap() {
        Ok(()) => {
            let who: Vec<usize> = grown.iter().enumerate().filter(|(_, g)| !g.is_empty()).map(|(i, _)| i).collect();
            if who.len() != 1 {
                ctx.violation_with(
                    &format!("C10/not-exactly-one-peer/{ty}"),
                    format!("send returned Ok; {} connections received bytes ({who:?})", who.len()),
                    case.clone(),
                );
                return Err(());
            }
            if grown[who[0]] != want {
                ctx.violation_with(
                    &format!("C10/incomplete-or-altered-at-return/{ty}"),
                    format!(
                        "send returned Ok; peer {} has {} bytes of the {}-byte encoding at that instant (equal={})",
                        who[0],
                        grown[who[0]].len(),
                        want.len(),
                        grown[who[0]] == want
                    ),
                    case.clone(),
                );
                return Err(());
            }
            ctx.count("successful_sends");
            Ok(Some(who[0]))
        }
        Err(e) => {
            if dead.iter().any(|d| *d) {
                // a connection ended: how often a send may fail because of it is C16's
                // business; the message handed back must still be the message
                ctx.count("send_errors_after_a_peer_died");
                if let Some(back) = &e.returned {
                    if back != msg {
                        ctx.violation_with(
                            &format!("C10/returned-message-altered/{ty}"),
                            format!("send failed ({}); handed back {} instead of {}", e.text, rc::frames_summary(back), rc::frames_summary(msg)),
                            case.clone(),
                        );
                        return Err(());
                    }
                }
                return Ok(None);
            }
            if peers.is_empty() {
                ctx.count("zero_peer_sends");
                if e.returned.as_ref() != Some(msg) {
                    ctx.violation_with(
                        &format!("C10/no-peer-message-not-returned-intact/{ty}"),
                        format!("send with no peer failed with {:?}; returned {:?}", e.text, e.returned.map(|m| rc::frames_summary(&m))),
                        case.clone(),
                    );
                    return Err(());
                }
                Ok(None)
            } else {
                ctx.violation_with(
                    &format!("C10/send-failed-with-live-peers/{ty}"),
                    format!("send failed although {} healthy peers are connected: {}", peers.len(), e.text),
                    case.clone(),
                );
                Err(())
            }
        }
    }
}

async fn answer_if_req(sock: &mut Sock, peers: &[Peer], who: Option<usize>) {
    answer_if_req_with(sock, peers, who, false).await
}

/// `malformed`: the server's reply lacks the empty delimiter; recv reports an error, the
/// server stays connected and stays in the rotation.
async fn answer_if_req_with(sock: &mut Sock, peers: &[Peer], who: Option<usize>, malformed: bool) {
    if sock.ty() == "REQ" {
        if let Some(i) = who {
            if malformed {
                peers[i].send(&[b"no-delimiter".to_vec(), b"ok".to_vec()]);
            } else {
                peers[i].send(&[vec![], b"ok".to_vec()]);
            }
            let _ = recv_now(sock).await;
        }
    }
}

async fn run(ctx: &mut Ctx, ty: &str, npeers: usize, seed: u64, case: &Value) {
    let mut r = Rng::keyed(seed, &[10, hash_str(ty), npeers as u64]);
    let mut sock = Sock::new(ty, None);
    let mut peers: Vec<Peer> = Vec::new();
    let shapes: [&[usize]; 6] = [&[1], &[0], &[255, 256], &[0, 0, 5], &[70_000], &[3, 0, 300, 1]];
    let mut seq = 0u32;
    let mut trace = 10u64;
    // no peers at all
    if npeers == 0 {
        for sh in shapes {
            let msg = rc::tagged(1, seq, sh);
            seq += 1;
            if judged_send(ctx, &mut sock, &peers, &msg, None, &[], case).await.is_err() {
                return;
            }
        }
        return;
    }
    // peers join at seeded moments between sends
    let mut history: Vec<usize> = Vec::new(); // receiver of each successful send
    let mut set_changed_at = 0usize; // index in history where the current peer set became stable
    let mut joined_at: Vec<usize> = Vec::new();
    let total_sends = 6 * npeers + 6;
    let mut join_times: Vec<usize> = (0..npeers).map(|k| if k == 0 { 0 } else { r.below(total_sends / 2) }).collect();
    join_times.sort();
    let mut next_join = 0;
    // one peer's connection ends at a seeded moment (REQ: while it owes a reply, so its
    // id is still queued in the rotation)
    let mut dead: Vec<bool> = Vec::new();
    let die_at = if npeers >= 2 && r.chance(1, 2) { Some(total_sends / 2 + r.below(total_sends / 3)) } else { None };
    for k in 0..total_sends {
        while next_join < npeers && join_times[next_join] <= k {
            match Peer::attach(&sock, peer_type_for(ty), Some(format!("p{next_join}").as_bytes())).await {
                Ok(p) => {
                    // write policy: partial writes for some
                    if r.chance(1, 2) {
                        p.conn.set_max_write(r.range(1, 700));
                    }
                    peers.push(p);
                    dead.push(false);
                    joined_at.push(history.len());
                    set_changed_at = history.len();
                    if !history.is_empty() {
                        ctx.count("late_joiners");
                    }
                }
                Err(e) => {
                    ctx.inconclusive(format!("C10 attach: {e}"));
                    return;
                }
            }
            next_join += 1;
        }
        let sh = shapes[r.below(shapes.len())];
        let msg = rc::tagged(1, seq, sh);
        seq += 1;
        // occasionally withhold write credit from everybody so the send must wait
        let bp = if r.chance(1, 5) {
            let c = r.below(40);
            for p in &peers {
                p.conn.set_credit(Some(c));
            }
            Some((0, c))
        } else {
            None
        };
        if die_at == Some(k) && ty != "REQ" && peers.len() >= 2 && !dead.iter().any(|d| *d) {
            let v = r.below(peers.len());
            peers[v].conn.close_full(crate::pipe::EndKind::Eof);
            dead[v] = true;
            ctx.count("peers_died_mid_run");
            set_changed_at = usize::MAX; // rotation is judged again once the survivors are known
        }
        let who = match judged_send(ctx, &mut sock, &peers, &msg, bp, &dead, case).await {
            Ok(w) => w,
            Err(()) => return,
        };
        for p in &peers {
            p.conn.set_credit(None);
        }
        if ty == "REQ" && die_at.map(|d| k >= d).unwrap_or(false) && !dead.iter().any(|d| *d) && peers.len() >= 2 {
            if let Some(w) = who {
                // the server that just got the request dies before answering
                peers[w].conn.close_full(crate::pipe::EndKind::Eof);
                dead[w] = true;
                ctx.count("peers_died_mid_run");
                let _ = recv_now(&mut sock).await;
                set_changed_at = usize::MAX;
                continue;
            }
        }
        let malformed = ty == "REQ" && r.chance(1, 7);
        if malformed {
            ctx.count("req_malformed_replies");
        }
        answer_if_req_with(&mut sock, &peers, who, malformed).await;
        if dead.iter().any(|d| *d) {
            // after a death only "exactly one live peer, exact bytes" is judged here
            // (done inside judged_send); rotation over the survivors:
            if let Some(w) = who {
                if dead[w] {
                    ctx.violation_with(&format!("C10/sent-to-dead-peer/{ty}"), format!("send returned Ok and wrote to the closed connection {w}"), case.clone());
                    return;
                }
            }
            continue;
        }
        if let Some(w) = who {
            history.push(w);
            trace = mix(trace ^ w as u64);
            // strict rotation over a stable set
            let n = peers.len();
            if history.len() - set_changed_at >= n {
                let window = &history[history.len() - n..];
                let mut distinct = window.to_vec();
                distinct.sort();
                distinct.dedup();
                ctx.count(&format!("rotation_windows_checked/n{n}"));
                if n >= 3 {
                    ctx.count("rotation_windows_n_ge_3");
                }
                if distinct.len() != n {
                    ctx.violation_with(
                        &format!("C10/rotation-broken/{ty}"),
                        format!("{n} stable peers; last {n} successful sends went to {window:?}"),
                        case.clone(),
                    );
                    return;
                }
            }
            // late joiners enter the rotation within n+1 sends
            for (j, at) in joined_at.iter().enumerate() {
                let since = history.len() - at;
                if since == peers.len() + 1 && !history[*at..].contains(&j) {
                    ctx.violation_with(
                        &format!("C10/late-joiner-not-served/{ty}"),
                        format!("peer {j} joined after {at} sends and was not served by the next {since}: {:?}", &history[*at..]),
                        case.clone(),
                    );
                    return;
                }
            }
        }
    }
    ctx.interleaving(trace);
    // every tap is a clean sequence of whole messages, each tagged message exactly once overall
    let mut seen = std::collections::BTreeSet::new();
    for (i, p) in peers.iter().enumerate() {
        match p.out_msgs() {
            Ok(msgs) => {
                for m in msgs {
                    let skip = if ty == "REQ" { 1 } else { 0 };
                    match rc::parse_tag(&m, skip) {
                        Ok(t) => {
                            if !seen.insert(t.seq) {
                                ctx.violation_with(
                                    &format!("C10/message-delivered-twice/{ty}"),
                                    format!("message {} reached more than one peer / more than once", t.seq),
                                    case.clone(),
                                );
                                return;
                            }
                        }
                        Err(e) => {
                            ctx.violation_with(&format!("C10/tap-corrupted/{ty}"), format!("peer {i}: {e}"), case.clone());
                            return;
                        }
                    }
                }
            }
            Err(e) => {
                ctx.violation_with(&format!("C10/tap-corrupted/{ty}"), format!("peer {i}: {e}"), case.clone());
                return;
            }
        }
    }
}

/// The application gives up on a send that waits for a peer that is not reading (a timeout
/// around `send`, a `select!`): the peer is still connected, so it is still one of the n
/// peers — the next successful sends keep rotating over all of them, and a send never
/// fails for lack of peers while one is connected.
async fn abandoned_send(ctx: &mut Ctx, ty: &str, n: usize, seed: u64, case: &Value) {
    let mut r = Rng::keyed(seed, &[10, 0xABA]);
    let mut sock = Sock::new(ty, None);
    let mut peers: Vec<Peer> = Vec::new();
    for k in 0..n {
        match Peer::attach(&sock, peer_type_for(ty), Some(format!("p{k}").as_bytes())).await {
            Ok(p) => peers.push(p),
            Err(e) => {
                ctx.inconclusive(format!("C10 attach: {e}"));
                return;
            }
        }
    }
    // whoever is next in the rotation does not read
    for p in &peers {
        p.conn.set_credit(Some(0));
    }
    let size = *r.pick(&[10usize, 5_000, 200_000]);
    let polls = r.range(1, 3);
    let abandoned_msg = rc::tagged(70, 0, &[size]);
    {
        let mut f = Managed::new(sock.send(&abandoned_msg));
        let mut pending = false;
        for _ in 0..polls {
            if f.poll_once().is_ready() {
                break;
            }
            pending = true;
            sim::settle().await;
        }
        if !pending {
            ctx.count("abandoned_send_not_reached");
            return;
        }
    } // dropped while waiting
    ctx.count("sends_abandoned_while_waiting_for_a_peer");
    for p in &peers {
        p.conn.set_credit(None);
    }
    sim::settle().await;
    let base: Vec<usize> = peers.iter().map(|p| p.out_msgs().map(|m| m.len()).unwrap_or(0)).collect();
    let mut served = vec![0usize; n];
    let rounds = 2 * n;
    for k in 0..rounds as u32 {
        let msg = rc::tagged(71, k, &[r.below(30)]);
        match sim::complete(sock.send(&msg)).await {
            Ok(Ok(())) => {}
            other => {
                ctx.violation_with(
                    &format!("C10/send-fails-although-a-peer-is-connected/{ty}"),
                    format!("{n} connected peers; a send that was waiting for one of them was abandoned (after {polls} polls, {size}-byte body), the peer then read again; send #{k} afterwards: {other:?}"),
                    case.clone(),
                );
                return;
            }
        }
        if ty == "REQ" {
            // answer wherever the request went, so that the next one may be sent
            for p in &peers {
                let have = p.out_msgs().map(|m| m.len()).unwrap_or(0);
                let _ = have;
            }
            for (i, p) in peers.iter().enumerate() {
                let cnt = p.out_msgs().map(|m| m.len()).unwrap_or(0);
                if cnt > base[i] + served[i] + (cnt - base[i] - served[i]).saturating_sub(1) && cnt > base[i] + served[i] {
                    // (any number of earlier abandoned bytes may have surfaced as extra requests)
                }
            }
        }
        for (i, p) in peers.iter().enumerate() {
            let cnt = p.out_msgs().map(|m| m.iter().filter(|x| rc::parse_tag(x, if ty == "REQ" { 1 } else { 0 }).map(|t| t.origin == 71).unwrap_or(false)).count()).unwrap_or(0);
            if cnt > served[i] {
                served[i] = cnt;
                if ty == "REQ" {
                    p.send(&[vec![], b"ok".to_vec()]);
                    let _ = recv_now(&mut sock).await;
                }
            }
        }
    }
    let unserved: Vec<usize> = served.iter().enumerate().filter(|(_, c)| **c == 0).map(|(i, _)| i).collect();
    if !unserved.is_empty() {
        ctx.violation_with(
            &format!("C10/connected-peer-left-the-rotation-after-abandoned-send/{ty}"),
            format!("{n} connected peers; after a send waiting for one of them was abandoned and the peer read again, {rounds} successful sends reached {served:?}: peers {unserved:?} are never served again"),
            case.clone(),
        );
        return;
    }
    ctx.count("rotations_intact_after_an_abandoned_send");
}

/// A peer with an announced identity goes away and comes back under the same identity
/// (old connection ended; seen by the socket or not yet): it is ONE peer of the rotation.
async fn reconnect(ctx: &mut Ctx, ty: &str, others: usize, observed: bool, case: &Value) {
    let by_recv = case["by_recv"].as_bool().unwrap_or(false);
    let mut sock = Sock::new(ty, None);
    let mut peers: Vec<Peer> = Vec::new();
    let old = match Peer::attach(&sock, peer_type_for(ty), Some(b"comes-back")).await {
        Ok(p) => p,
        Err(e) => {
            ctx.inconclusive(format!("C10 attach: {e}"));
            return;
        }
    };
    for k in 0..others {
        match Peer::attach(&sock, peer_type_for(ty), Some(format!("o{k}").as_bytes())).await {
            Ok(p) => peers.push(p),
            Err(e) => {
                ctx.inconclusive(format!("C10 attach: {e}"));
                return;
            }
        }
    }
    if by_recv && ty == "REQ" {
        // the request is outstanding at the peer that goes away; recv observes the end
        if matches!(sim::complete(sock.send(&rc::tagged(5, 9, &[1]))).await, Ok(Ok(()))) {
            old.conn.close_full(crate::pipe::EndKind::Eof);
            let _ = recv_now(&mut sock).await;
        }
    }
    old.conn.close_full(crate::pipe::EndKind::Eof);
    if by_recv && ty == "DEALER" {
        let _ = recv_now(&mut sock).await; // parks after having seen the end of the old connection
    }
    if observed && !by_recv {
        // the socket notices the end: a send is routed at the dead connection and fails
        for _ in 0..(others + 1) {
            let r = sim::complete(sock.send(&rc::tagged(5, 0, &[1]))).await;
            if matches!(r, Ok(Err(_))) {
                break;
            }
            if ty == "REQ" {
                for p in &peers {
                    if p.out_msgs().map(|m| !m.is_empty()).unwrap_or(false) {
                        p.send(&[vec![], b"ok".to_vec()]);
                    }
                }
                let _ = recv_now(&mut sock).await;
            }
        }
    }
    let newp = match Peer::attach(&sock, peer_type_for(ty), Some(b"comes-back")).await {
        Ok(p) => p,
        Err(e) => {
            ctx.violation_with(&format!("C10/reconnect-rejected/{ty}"), e, case.clone());
            return;
        }
    };
    peers.push(newp);
    ctx.count("reconnects_under_the_same_identity");
    let dead = vec![false; peers.len()];
    let n = peers.len();
    let mut history = Vec::new();
    for k in 0..(3 * n) as u32 {
        let msg = rc::tagged(6, k, &[2]);
        match judged_send(ctx, &mut sock, &peers, &msg, None, &dead, case).await {
            Ok(Some(w)) => {
                history.push(w);
                answer_if_req(&mut sock, &peers, Some(w)).await;
            }
            Ok(None) => {}
            Err(()) => return,
        }
    }
    // strict rotation over the n peers that are connected now
    for w in history.windows(n) {
        let mut d = w.to_vec();
        d.sort();
        d.dedup();
        if d.len() != n {
            ctx.violation_with(
                &format!("C10/rotation-broken-after-reconnect/{ty}"),
                format!("{n} connected peers (one of them reconnected under its identity, end observed first: {observed}); successful sends went to {history:?}"),
                case.clone(),
            );
            return;
        }
    }
    if history.len() < 2 * n {
        ctx.violation_with(&format!("C10/sends-failing-after-reconnect/{ty}"), format!("only {} of {} sends succeeded: {history:?}", history.len(), 3 * n), case.clone());
    }
}

/// Real transport, multi-thread runtime: peers join a bound PUSH/DEALER socket while the
/// application keeps sending (registration runs on the accept task, in parallel with the
/// sender). Once things are quiet every connected peer has its turn in the rotation.
async fn rig_join_while_sending(ty: &str, trials: usize, seed: u64) -> Result<(u64, u64), (String, String)> {
    use crate::rig::{self, Raw, ReadEnd, WAIT};
    use std::sync::atomic::{AtomicBool, AtomicU64, Ordering};
    use std::sync::{Arc, Mutex};
    use std::time::Duration;
    let inc = |e: String| ("inconclusive".to_string(), e);
    let mut r = Rng::keyed(seed, &[10, 0x416]);
    let mut sock = Sock::new(ty, None);
    let ep = sock.bind(&rig::bind_endpoint("tcp4")).await.map_err(inc)?;
    let peer_ty = peer_type_for(ty).to_string();
    // what each peer received: sequence numbers
    let got: Arc<Mutex<Vec<Vec<u32>>>> = Arc::new(Mutex::new(Vec::new()));
    let stop = Arc::new(AtomicBool::new(false));
    let handshakes = Arc::new(AtomicU64::new(0));
    let spawn_peer = |k: usize| {
        let (ep, peer_ty, got, stop, handshakes) = (ep.clone(), peer_ty.clone(), got.clone(), stop.clone(), handshakes.clone());
        got.lock().unwrap().push(Vec::new());
        tokio::spawn(async move {
            let mut raw = match Raw::connect(&ep).await {
                Ok(r) => r,
                Err(_) => return,
            };
            if raw.handshake(&peer_ty, None).await.is_err() {
                return;
            }
            handshakes.fetch_add(1, Ordering::SeqCst);
            while !stop.load(Ordering::SeqCst) {
                match raw.read_msg(Duration::from_millis(100)).await {
                    Ok(m) => {
                        if let Ok(t) = rc::parse_tag(&m, 0) {
                            got.lock().unwrap()[k].push(t.seq);
                        }
                    }
                    Err(ReadEnd::Timeout) => {}
                    Err(_) => return,
                }
            }
        })
    };
    let mut tasks = Vec::new();
    let mut seq = 0u32;
    let mut npeers = 0usize;
    for _ in 0..2 {
        tasks.push(spawn_peer(npeers));
        npeers += 1;
    }
    tokio::time::sleep(Duration::from_millis(60)).await;
    let mut joined_while_sending = 0u64;
    for _ in 0..trials {
        let before = handshakes.load(Ordering::SeqCst);
        tasks.push(spawn_peer(npeers));
        npeers += 1;
        // keep sending while the new peer connects and is registered
        let mut extra = r.range(3, 30);
        let t0 = std::time::Instant::now();
        loop {
            match tokio::time::timeout(WAIT, sock.send(&rc::tagged(0, seq, &[r.below(64)]))).await {
                Ok(Ok(())) => seq += 1,
                Ok(Err(e)) => return Err((format!("C10/rig/send-failed/{ty}"), format!("send with {npeers} connected peers failed: {}", e.text))),
                Err(_) => return Err(inc("send timed out".into())),
            }
            if handshakes.load(Ordering::SeqCst) > before {
                if extra == 0 {
                    break;
                }
                extra -= 1;
            }
            if t0.elapsed() > WAIT {
                return Err(inc("joining peer never completed its handshake".into()));
            }
            if seq % 16 == 0 {
                tokio::task::yield_now().await;
            }
        }
        joined_while_sending += 1;
        if npeers >= 14 {
            break;
        }
    }
    // quiet: registrations done; then one window in which everybody must get a turn
    tokio::time::sleep(Duration::from_millis(80)).await;
    let w0 = seq;
    let window = 3 * npeers as u32;
    for _ in 0..window {
        match tokio::time::timeout(WAIT, sock.send(&rc::tagged(0, seq, &[8]))).await {
            Ok(Ok(())) => seq += 1,
            Ok(Err(e)) => return Err((format!("C10/rig/send-failed/{ty}"), e.text)),
            Err(_) => return Err(inc("send timed out".into())),
        }
    }
    // wait until everything sent has been read by somebody
    let deadline = std::time::Instant::now() + WAIT;
    loop {
        let total: usize = got.lock().unwrap().iter().map(|v| v.len()).sum();
        if total as u32 >= seq || std::time::Instant::now() > deadline {
            break;
        }
        tokio::time::sleep(Duration::from_millis(10)).await;
    }
    stop.store(true, Ordering::SeqCst);
    let g = got.lock().unwrap().clone();
    let total: usize = g.iter().map(|v| v.len()).sum();
    let connected = handshakes.load(Ordering::SeqCst) as usize;
    let unserved: Vec<usize> = g.iter().enumerate().filter(|(_, v)| !v.iter().any(|s| *s >= w0)).map(|(k, _)| k).collect();
    for t in tasks {
        let _ = tokio::time::timeout(Duration::from_millis(500), t).await;
    }
    let _ = tokio::time::timeout(WAIT, sock.close()).await;
    if connected != npeers {
        return Err(inc(format!("{connected} of {npeers} peers completed their handshake")));
    }
    if (total as u32) < seq {
        if !rig::canary_ok().await {
            return Err(inc("not everything was read and the canary was slow".into()));
        }
        return Err((format!("C10/rig/message-lost/{ty}"), format!("{seq} sends returned Ok, the {npeers} peers read {total} messages")));
    }
    if !unserved.is_empty() {
        return Err((
            format!("C10/rig/connected-peer-never-in-rotation/{ty}"),
            format!(
                "{npeers} peers connected (most of them while the application was sending); in a final window of {window} sends on the stable set, peers {unserved:?} received nothing (per-peer totals: {:?})",
                g.iter().map(|v| v.len()).collect::<Vec<_>>()
            ),
        ));
    }
    Ok((joined_while_sending, window as u64))
}

impl Prop for C10 {
    fn id(&self) -> &'static str {
        "C10"
    }

    fn cases(&self, tier: Tier, seed: u64) -> Vec<Value> {
        let mut v = Vec::new();
        for ty in ["PUSH", "DEALER"] {
            for k in 0..tier.pick(10u64, 100) {
                v.push(json!({"kind": "rig_join", "ty": ty, "trials": 12, "seed": mix(seed ^ 0x416 ^ k)}));
            }
        }
        for ty in ["PUSH", "DEALER", "REQ"] {
            for n in 1..=4usize {
                for k in 0..tier.pick(6u64, 60) {
                    v.push(json!({"kind": "abandoned_send", "ty": ty, "peers": n, "seed": mix(seed ^ 0xABA ^ k << 8 ^ n as u64)}));
                }
            }
        }
        for ty in ["PUSH", "DEALER", "REQ"] {
            for others in 0..=3usize {
                for observed in [false, true] {
                    v.push(json!({"kind": "reconnect", "ty": ty, "others": others, "observed": observed}));
                }
                if ty != "PUSH" {
                    v.push(json!({"kind": "reconnect", "ty": ty, "others": others, "observed": true, "by_recv": true}));
                }
            }
            for n in 0..=6usize {
                for k in 0..tier.pick(150, 10_000) {
                    v.push(json!({"kind": "run", "ty": ty, "peers": n, "seed": mix(seed ^ (k as u64) << 4 ^ n as u64)}));
                    if n == 0 {
                        break;
                    }
                }
            }
        }
        v
    }

    fn run(&self, case: &Value, ctx: &mut Ctx) {
        if s(case, "kind") == "rig_join" {
            ctx.eval(hash_str(&case.to_string()), true);
            ctx.sample("rig_join", || case.clone());
            let ty = s(case, "ty").to_string();
            let (res, _) = crate::rig::run(4, rig_join_while_sending(&ty, u(case, "trials") as usize, u(case, "seed")));
            match res {
                Ok((joined, window)) => {
                    ctx.add("rig_peers_joined_while_the_application_was_sending", joined);
                    ctx.add("rig_rotation_window_sends", window);
                }
                Err((sig, msg)) if sig == "inconclusive" => ctx.inconclusive(format!("C10 rig: {msg}")),
                Err((sig, msg)) => ctx.violation_with(&sig, msg, case.clone()),
            }
            return;
        }
        if s(case, "kind") == "abandoned_send" {
            ctx.eval(hash_str(&case.to_string()), true);
            ctx.sample("abandoned_send", || case.clone());
            let ty = s(case, "ty").to_string();
            sim::run(abandoned_send(ctx, &ty, u(case, "peers") as usize, u(case, "seed"), case));
            return;
        }
        if s(case, "kind") == "reconnect" {
            ctx.eval(hash_str(&case.to_string()), true);
            ctx.sample("reconnect", || case.clone());
            let ty = s(case, "ty").to_string();
            sim::run(reconnect(ctx, &ty, u(case, "others") as usize, case["observed"].as_bool().unwrap_or(false), case));
            return;
        }
        ctx.eval(hash_str(&case.to_string()), u(case, "peers") != 1);
        ctx.sample("run", || case.clone());
        ctx.count(&format!("runs/{}", s(case, "ty")));
        let ty = s(case, "ty").to_string();
        sim::run(run(ctx, &ty, u(case, "peers") as usize, u(case, "seed"), case));
    }

    fn floors(&self, _tier: Tier) -> Vec<(&'static str, u64)> {
        vec![
            ("successful_sends", 5000),
            ("rotations_intact_after_an_abandoned_send", 30),
            ("rig_peers_joined_while_the_application_was_sending", 100),
            ("rotation_windows_n_ge_3", 1000),
            ("sends_pending_under_backpressure", 200),
            ("sends_pending_with_partial_write", 50),
            ("zero_peer_sends", 18),
            ("late_joiners", 100),
            ("reconnects_under_the_same_identity", 24),
            ("req_malformed_replies", 50),
        ]
    }
}
