//! C16 — a failed or closed peer is isolated, forgotten, and its connection released.

use super::common::*;
use crate::pipe::{Conn, EndKind, WriteFail};
use crate::prng::hash_str;
use crate::refcodec::{self as rc, Frames};
use crate::report::{Ctx, Tier};
use crate::sim::{self, Managed};
use crate::sock::{attach_future, peer_type_for, Peer, Sock, ALL_TYPES};
use crate::Prop;
use serde_json::{json, Value};

pub struct C16;

const FAULTS: [&str; 4] = ["close", "fin", "reset", "protocol-error"];
/// cut positions inside the second message of the dying peer
const CUTS: [&str; 7] = [
    "between-messages",
    "after-flags",
    "inside-8byte-size",
    "inside-body",
    "between-frames",
    "inside-last-frame",
    "after-complete-message",
];
const HS_CUTS: [usize; 7] = [0, 1, 10, 63, 64, 66, 80];

fn is_io_error_text(t: &str) -> bool {
    t.contains("(injected)") || t.contains("End of file") || t.contains("Broken pipe") || t.contains("broken pipe")
}

fn wire_payload(ty: &str, origin: u16, seq: u32) -> Frames {
    // a message the dying peer may legitimately send to `ty`
    let p = rc::tagged(origin, seq, &[5, 300]);
    match ty {
        "REP" | "REQ" => {
            let mut w = vec![vec![]];
            w.extend(p);
            w
        }
        // first message to a publisher: subscribe to "z"; later ones: an ordinary
        // multi-frame message (ignored by PUB, handed over verbatim by XPUB)
        "PUB" | "XPUB" if seq == 0 => vec![vec![1u8, b'z']],
        _ => p,
    }
}

fn cut_offset(bytes: &[u8], cut: &str) -> usize {
    // bytes = encoding of [5 B][300 B long][tag] (possibly after an empty delimiter)
    let d = rc::decode_stream(bytes, false);
    let metas = match d.items.first() {
        Some(rc::RItem::Message { metas, .. }) => metas.clone(),
        _ => return 0,
    };
    let long = metas.iter().find(|m| m.long);
    match cut {
        "between-messages" => 0,
        "after-flags" => 1,
        "inside-8byte-size" => long.map(|m| m.start + 4).unwrap_or(1),
        "inside-body" => long.map(|m| m.start + 9 + 100).unwrap_or(bytes.len() / 2),
        "between-frames" => long.map(|m| m.start).unwrap_or(2),
        "inside-last-frame" => bytes.len() - 3,
        _ => bytes.len(),
    }
}

struct Env {
    sock: Sock,
    live: Vec<Peer>,
    dead: Peer,
}

/// Drive up to `n` fresh recv calls to quiescence; returns (oks, errs, spin).
async fn recv_calls(sock: &mut Sock, n: usize) -> (Vec<Frames>, Vec<String>, bool) {
    let mut oks = Vec::new();
    let mut errs = Vec::new();
    for _ in 0..n {
        let mut m = Managed::new(sock.recv());
        match m.drive().await {
            Ok(Some(Ok(x))) => oks.push(x),
            Ok(Some(Err(e))) => errs.push(e),
            Ok(None) => break,
            Err(_) => return (oks, errs, true),
        }
    }
    (oks, errs, false)
}

async fn post_handshake(ctx: &mut Ctx, ty: &str, cut: &str, fault: &str, order: &str, nlive: usize, case: &Value) {
    let sig = |k: &str| format!("C16/{k}/{ty}");
    // "talk": a live peer has a message waiting when the socket comes to look at the dying
    // connection (both are served by the same receive call)
    let talk = case["talk"].as_bool().unwrap_or(false);
    let sock = Sock::new(ty, None);
    // the dying peer is attached first so that rotation reaches it first
    let dead = match Peer::attach(&sock, peer_type_for(ty), Some(b"dead-peer")).await {
        Ok(p) => p,
        Err(e) => {
            ctx.inconclusive(format!("C16 attach: {e}"));
            return;
        }
    };
    let mut live = Vec::new();
    for k in 0..nlive {
        match Peer::attach(&sock, peer_type_for(ty), Some(format!("live{k}").as_bytes())).await {
            Ok(p) => live.push(p),
            Err(e) => {
                ctx.inconclusive(format!("C16 attach: {e}"));
                return;
            }
        }
    }
    let mut e = Env { sock, live, dead };
    // ---- first message of the dying peer is consumed normally
    if ty == "REQ" {
        // REQ reads from the peer it sent to: first round trip with the dying peer
        if !matches!(sim::complete(e.sock.send(&rc::tagged(30, 0, &[1]))).await, Ok(Ok(()))) {
            ctx.inconclusive("C16 REQ first send failed".into());
            return;
        }
        e.dead.send(&wire_payload(ty, 31, 0));
        let _ = recv_now(&mut e.sock).await;
        // rotate past the live peers so that the dying peer is next again
        for l in &e.live {
            if matches!(sim::complete(e.sock.send(&rc::tagged(30, 1, &[1]))).await, Ok(Ok(()))) {
                l.send(&wire_payload(ty, 31, 1));
                let _ = recv_now(&mut e.sock).await;
            }
        }
    } else if e.sock.can_recv() || ty == "PUB" {
        e.dead.send(&wire_payload(ty, 31, 0));
        if e.sock.can_recv() {
            match recv_now(&mut e.sock).await {
                Some(Ok(_)) => {}
                other => {
                    ctx.inconclusive(format!("C16 first message not received: {other:?}"));
                    return;
                }
            }
        }
        sim::settle().await;
    }
    if talk && nlive >= 1 && e.sock.can_recv() && ty != "REQ" {
        // the live peer was served more recently than the dying one: when both are ready
        // again, the queue looks at the dying connection first
        e.live[0].send(&wire_payload(ty, 41, if matches!(ty, "PUB" | "XPUB") { 1 } else { 0 }));
        let _ = recv_now(&mut e.sock).await;
        sim::settle().await;
    }
    let mut req_outstanding = false;
    if ty == "REQ" && order == "read-first" {
        // the request whose reply will be cut
        if !matches!(sim::complete(e.sock.send(&rc::tagged(30, 2, &[1]))).await, Ok(Ok(()))) {
            ctx.inconclusive("C16 REQ second send failed".into());
            return;
        }
        req_outstanding = true;
    }
    if ty == "REP" && order == "write-first" {
        // a request from the dying peer is pending a reply when it dies
        e.dead.send(&wire_payload(ty, 31, 5));
        let _ = recv_now(&mut e.sock).await;
    }
    // ---- second message, cut, then the fault
    let second = rc::message(&wire_payload(ty, 31, 1));
    let off = cut_offset(&second, cut);
    let complete_second = off == second.len();
    if ty == "PUSH" {
        // PUSH never reads; whatever the peer sends is irrelevant
    }
    e.dead.conn.feed(&second[..off]);
    match fault {
        "close" => e.dead.conn.close_full(EndKind::Eof),
        // orderly close as a TCP socket shows it at first: reads see EOF, a write is still
        // taken by the kernel (only a later one would fail)
        "fin" => e.dead.conn.end_inbound(EndKind::Eof),
        "reset" => e.dead.conn.close_full(EndKind::Reset),
        _ => {
            // the peer's next bytes do not decode (unknown command), then garbage keeps coming
            e.dead.conn.feed(&rc::command(b"BOGUS", b"\x00\x01\x02"));
            e.dead.conn.feed(&[0x04, 0x00, 0xFF, 0xFF]);
        }
    }
    let talking = talk && nlive >= 1 && e.sock.can_recv() && ty != "REQ";
    if talking {
        e.live[0].send(&wire_payload(ty, 41, 2));
        ctx.count("live_peer_talking_when_the_end_is_noticed");
    }
    ctx.count(&format!("fault/{fault}"));
    ctx.count(&format!("cut/{cut}"));
    ctx.count(&format!("order/{order}"));
    let mut observed_by_write = false;
    let mut recv_errs: Vec<String> = Vec::new();
    let mut recv_oks: Vec<Frames> = Vec::new();
    // ---- discovery
    if order == "write-first" && e.sock.can_send() || ty == "SUB" && order == "write-first" {
        if ty == "PUB" {
            sim::close_gate();
        }
        let r = match ty {
            "SUB" => sim::complete(e.sock.subscribe("w")).await.map(|r| r.map_err(|t| crate::sock::SendErr { text: t, returned: None })),
            "ROUTER" => {
                let mut m = vec![e.dead.id.clone()];
                m.extend(rc::tagged(32, 0, &[3]));
                sim::complete(e.sock.send(&m)).await
            }
            "XPUB" | "PUB" => sim::complete(e.sock.send(&[b"z-topic".to_vec(), b"x".to_vec()])).await,
            _ => sim::complete(e.sock.send(&rc::tagged(32, 0, &[3]))).await,
        };
        if ty == "SUB" {
            // whatever the call returned, the change reached every live publisher
            let mut want = vec![1u8];
            want.push(b'w');
            for (k, l) in e.live.iter().enumerate() {
                let told = l.out_msgs().map(|m| m.iter().any(|f| f.len() == 1 && f[0] == want)).unwrap_or(false);
                if !told {
                    ctx.violation_with(
                        &sig("live-peer-disturbed"),
                        format!("subscribe() met a dead publisher ({fault}, {cut}); live publisher {k} was not told about the subscription"),
                        case.clone(),
                    );
                    return;
                }
            }
        }
        match r {
            Ok(Err(err)) if is_io_error_text(&err.text) => {
                observed_by_write = true;
                ctx.count("observed_by_write_error");
            }
            Ok(_) => {}
            Err(why) => {
                ctx.violation_with(&sig("send-hangs-on-dead-peer"), format!("send after the peer's end: {why}"), case.clone());
                sim::open_gate();
                return;
            }
        }
        if ty == "PUB" {
            sim::open_gate();
        }
    }
    // read side
    if ty == "REQ" {
        if req_outstanding {
            let (oks, errs, spin) = recv_calls(&mut e.sock, 1).await;
            if spin {
                ctx.violation_with(&sig("recv-spins"), "recv spins on the dead connection".into(), case.clone());
                return;
            }
            recv_oks = oks;
            recv_errs = errs;
            if recv_oks.is_empty() && recv_errs.is_empty() {
                if fault == "protocol-error" || e.dead.conn.end_observed() {
                    ctx.violation_with(&sig("recv-hangs-on-dead-peer"), "recv is still pending after the connection ended".into(), case.clone());
                }
                return;
            }
        }
    } else if e.sock.can_recv() {
        let (oks, errs, spin) = recv_calls(&mut e.sock, 6).await;
        if spin {
            ctx.violation_with(&sig("recv-spins"), "recv spins on the dead connection".into(), case.clone());
            return;
        }
        recv_oks = oks;
        recv_errs = errs;
    } else {
        sim::settle().await;
    }
    let expected_oks = (if complete_second && e.sock.can_recv() && ty != "REQ" { 1 } else if complete_second && req_outstanding { 1 } else { 0 }) + talking as usize;
    if recv_oks.len() > expected_oks {
        ctx.violation_with(
            &sig("message-from-a-dead-or-cut-stream"),
            format!("{} messages surfaced after the cut ({cut}), {expected_oks} complete ones were sent: {:?}", recv_oks.len(), recv_oks.iter().map(|m| rc::frames_summary(m)).collect::<Vec<_>>()),
            case.clone(),
        );
        return;
    }
    ctx.max("errors_for_one_event", recv_errs.len() as u64);
    ctx.count(&format!("errors_per_event/{}", recv_errs.len().min(3)));
    if recv_errs.len() > 1 {
        ctx.violation_with(
            &sig("more-than-one-error-for-one-event"),
            format!("one connection ended ({fault} at {cut}); {} recv calls failed: {:?}", recv_errs.len(), &recv_errs[..2]),
            case.clone(),
        );
        return;
    }
    // "observed": the library consumed the end on the read side (the pipe handed out
    // EOF/reset, or the undecodable bytes were reached: REQ reads one reply per recv, the
    // others were drained until pending), or an awaited send returned the write error
    let decoded_garbage = fault == "protocol-error"
        && e.dead.conn.unread() == 0
        && if ty == "REQ" { !recv_errs.is_empty() } else { e.sock.can_recv() || ty == "PUB" };
    let observed = observed_by_write || e.dead.conn.end_observed() || decoded_garbage;
    if !observed {
        ctx.count("end_not_observed_by_this_history");
        return;
    }
    ctx.count("end_observed");
    sim::settle().await;
    // what was written to the dying connection before the socket knew does not count
    let dead_tap_at_fault = e.dead.conn.tap_len();
    // ---- released
    if !e.dead.conn.released_both() {
        let which = match (e.dead.conn.reader_dropped(), e.dead.conn.writer_dropped()) {
            (false, false) => "both-halves-kept",
            (true, false) => "write-half-kept",
            (false, true) => "read-half-kept",
            _ => "",
        };
        ctx.violation_with(
            &sig(&format!("not-released/{which}")),
            format!(
                "the socket observed the end ({fault}, {cut}, {order}; by write error: {observed_by_write}) but still holds the connection: reader dropped={}, writer dropped={}",
                e.dead.conn.reader_dropped(),
                e.dead.conn.writer_dropped()
            ),
            case.clone(),
        );
        return;
    }
    ctx.count("released_after_observation");
    // ---- no later send is routed to the dead peer; live peers unaffected
    if e.sock.can_send() {
        let n = e.live.len();
        match ty {
            "ROUTER" => {
                let mut m = vec![e.dead.id.clone()];
                m.extend(rc::tagged(33, 0, &[3]));
                let r = sim::complete(e.sock.send(&m)).await;
                if matches!(r, Ok(Ok(()))) || e.dead.conn.tap_len() != dead_tap_at_fault {
                    ctx.violation_with(&sig("send-routed-to-dead-peer"), format!("ROUTER send to the dead identity: {r:?}"), case.clone());
                    return;
                }
            }
            "PUSH" | "DEALER" | "REQ" => {
                for k in 0..(n + 2) as u32 {
                    if ty == "REQ" && k > 0 && n == 0 {
                        break;
                    }
                    let r = sim::complete(e.sock.send(&rc::tagged(33, k, &[3]))).await;
                    let routed_dead = e.dead.conn.tap_len() != dead_tap_at_fault
                        || matches!(&r, Ok(Err(err)) if is_io_error_text(&err.text));
                    if routed_dead {
                        ctx.violation_with(
                            &sig("send-routed-to-dead-peer"),
                            format!("send #{k} after the socket observed the end was routed at the dead connection: {r:?}"),
                            case.clone(),
                        );
                        return;
                    }
                    match (&r, n) {
                        (Ok(Ok(())), 1..) => {
                            if ty == "REQ" {
                                for l in &e.live {
                                    if tap_has_tag(&l.out_msgs().unwrap_or_default(), 33, k, 1) {
                                        l.send(&wire_payload(ty, 34, k));
                                    }
                                }
                                let _ = recv_now(&mut e.sock).await;
                            }
                        }
                        (Ok(Err(err)), 0) if err.returned.is_some() => {}
                        (other, _) => {
                            ctx.violation_with(
                                &sig("sends-disturbed-after-peer-end"),
                                format!("send #{k} with {n} live peers returned {other:?}"),
                                case.clone(),
                            );
                            return;
                        }
                    }
                }
            }
            _ => {}
        }
    }
    {
        let refs: Vec<&Peer> = e.live.iter().collect();
        if let Err(why) = exchange_all(&mut e.sock, &refs, 40).await {
            ctx.violation_with(&sig("live-peer-disturbed"), format!("after one peer ended ({fault}, {cut}): {why}"), case.clone());
            return;
        }
    }
    if ty == "SUB" {
        // the socket's own writes to its other peers: a subscription change reaches every
        // live publisher whatever happened to the dead one
        let _ = sim::complete(e.sock.subscribe("after-the-fault")).await;
        let mut want = vec![1u8];
        want.extend_from_slice(b"after-the-fault");
        for (k, l) in e.live.iter().enumerate() {
            let told = l.out_msgs().map(|m| m.iter().any(|f| f.len() == 1 && f[0] == want)).unwrap_or(false);
            if !told {
                ctx.violation_with(
                    &sig("live-peer-disturbed"),
                    format!("after one publisher's connection ended ({fault}, {cut}, {order}) subscribe() did not reach live publisher {k}"),
                    case.clone(),
                );
                return;
            }
        }
        ctx.count("sub_updates_checked_after_a_fault");
    }
    if e.dead.conn.tap_len() != dead_tap_at_fault && fault == "protocol-error" {
        ctx.violation_with(&sig("send-routed-to-dead-peer"), "bytes were written to the connection after its protocol error".into(), case.clone());
    }
}

/// A peer comes back under the identity it announced while the socket still holds its old
/// connection (ended but not yet noticed, or even still open - a half-open leftover): the
/// old connection must be released, the new one must work, nobody else is disturbed.
/// REQ with several servers; the one whose turn it is has a connection that fails writes.
/// Whatever the send reports, a request that reaches a live server is exactly
/// [delimiter, payload] and every live server keeps being served in rotation.
async fn req_dead_peer_at_the_head(ctx: &mut Ctx, kind: WriteFail, nlive: usize, case: &Value) {
    let mut sock = Sock::new("REQ", None);
    let Ok(dead) = Peer::attach(&sock, "REP", Some(b"dead-head")).await else {
        ctx.inconclusive("C16 attach".into());
        return;
    };
    let mut live = Vec::new();
    for k in 0..nlive {
        match Peer::attach(&sock, "REP", Some(format!("live{k}").as_bytes())).await {
            Ok(p) => live.push(p),
            Err(_) => {
                ctx.inconclusive("C16 attach".into());
                return;
            }
        }
    }
    dead.conn.fail_writes(kind);
    let mut served = vec![0usize; nlive];
    for k in 0..(2 * nlive + 2) as u32 {
        let q = rc::tagged(60, k, &[4]);
        let r = sim::complete(sock.send(&q)).await;
        let mut want: Frames = vec![vec![]];
        want.extend(q.clone());
        for (i, p) in live.iter().enumerate() {
            let msgs = p.out_msgs().unwrap_or_default();
            if msgs.len() > served[i] {
                if msgs.len() != served[i] + 1 || msgs[served[i]] != want {
                    ctx.violation_with(
                        "C16/live-peer-disturbed/REQ",
                        format!(
                            "REQ with {nlive} live servers and one whose connection fails writes ({kind:?}) at the head of the rotation; request #{k}: live server {i} received {:?}, expected exactly {}",
                            msgs[served[i]..].iter().map(|m| rc::frames_summary(m)).collect::<Vec<_>>(),
                            rc::frames_summary(&want)
                        ),
                        case.clone(),
                    );
                    return;
                }
                served[i] += 1;
                let mut w = vec![vec![]];
                w.extend(rc::tagged(61, k, &[1]));
                p.send(&w);
                let _ = recv_now(&mut sock).await;
            }
        }
        let _ = r;
    }
    if nlive > 0 && served.iter().any(|c| *c == 0) {
        ctx.violation_with("C16/live-peer-disturbed/REQ", format!("live servers served {served:?} in {} requests after a server's connection failed", 2 * nlive + 2), case.clone());
        return;
    }
    if dead.conn.write_err_observed() {
        ctx.count("req_write_failures_at_the_head_of_the_rotation");
    }
}

/// PUB/XPUB: a subscriber's connection fails writes at the moment its buffer is at the
/// high-water mark (the only moment a publisher looks at a write result). That failure is
/// the subscriber's alone: publishing goes on returning Ok and the other subscribers get
/// every message.
async fn pub_subscriber_fails_at_hwm(ctx: &mut Ctx, ty: &str, kind: WriteFail, nlive: usize, case: &Value) {
    let sig = |k: &str| format!("C16/{k}/{ty}");
    let mut sock = Sock::new(ty, None);
    let mut subs = Vec::new();
    for k in 0..nlive + 1 {
        // several identities: the publisher walks its subscribers in hash order
        match Peer::attach(&sock, "SUB", Some(format!("s{k}-{nlive}").as_bytes())).await {
            Ok(p) => {
                p.send(&[vec![1u8]]);
                subs.push(p);
            }
            Err(e) => {
                ctx.inconclusive(format!("C16 attach: {e}"));
                return;
            }
        }
    }
    if ty == "XPUB" {
        for _ in 0..subs.len() {
            let _ = recv_now(&mut sock).await;
        }
    }
    sim::settle().await;
    let bad = nlive / 2;
    subs[bad].conn.set_credit(Some(0));
    let mut seen: Vec<usize> = subs.iter().map(|p| p.out_msgs().map(|m| m.len()).unwrap_or(0)).collect();
    for round in 0..8u32 {
        if round == 3 {
            // by now more than the high-water mark is queued for the stalled subscriber
            subs[bad].conn.fail_writes(kind);
            subs[bad].conn.set_credit(None);
        }
        let mut msg: Frames = vec![b"t".to_vec()];
        msg.extend(rc::tagged(90, round, &[70_000]));
        let r = sim::complete(sock.send(&msg)).await;
        if !matches!(r, Ok(Ok(()))) {
            ctx.violation_with(
                &sig("publish-fails-because-of-one-subscriber"),
                format!("publish #{round} with {nlive} healthy subscribers and one whose connection fails writes ({kind:?}) at the high-water mark: {r:?}"),
                case.clone(),
            );
            return;
        }
        for (i, p) in subs.iter().enumerate() {
            if i == bad {
                continue;
            }
            let n = p.out_msgs().map(|m| m.len()).unwrap_or(0);
            if n != seen[i] + 1 {
                ctx.violation_with(
                    &sig("live-peer-disturbed"),
                    format!("publish #{round}: healthy subscriber {i} received {} new messages (expected 1) while subscriber {bad}'s connection fails writes ({kind:?}) at the high-water mark", n - seen[i].min(n)),
                    case.clone(),
                );
                return;
            }
            seen[i] = n;
        }
    }
    ctx.count("pub_subscriber_write_failures_at_the_high_water_mark");
}

/// A send is waiting for a peer that does not read; another peer is in the middle of
/// joining; then the first peer's connection fails. The failure is the first peer's alone:
/// the send returns, the joiner becomes a peer, everybody else keeps working.
async fn fail_while_joining(ctx: &mut Ctx, ty: &str, how: &str, nlive: usize, case: &Value) {
    let sig = |k: &str| format!("C16/{k}/{ty}");
    let mut sock = Sock::new(ty, None);
    let mut live = Vec::new();
    for k in 0..nlive {
        match Peer::attach(&sock, peer_type_for(ty), Some(format!("live{k}").as_bytes())).await {
            Ok(p) => live.push(p),
            Err(e) => {
                ctx.inconclusive(format!("C16 attach: {e}"));
                return;
            }
        }
    }
    // for round-robin types the stalled peer has to be the next in the rotation: it joins
    // last, and the earlier ones are served once first
    let victim = match Peer::attach(&sock, peer_type_for(ty), Some(b"victim")).await {
        Ok(p) => p,
        Err(e) => {
            ctx.inconclusive(format!("C16 attach: {e}"));
            return;
        }
    };
    if ty == "PUSH" || ty == "DEALER" {
        for _ in 0..nlive {
            let _ = sim::complete(sock.send(&rc::tagged(50, 0, &[4]))).await;
        }
    }
    victim.conn.set_credit(Some(0));
    let mut msg: Frames = Vec::new();
    if ty == "ROUTER" {
        msg.push(b"victim".to_vec());
    }
    msg.extend(rc::tagged(51, 0, &[200_000]));
    let backend = sock.backend();
    let (jconn, jr, jw) = Conn::new();
    jconn.feed(&rc::handshake(peer_type_for(ty), Some(if how == "same-identity" { b"victim" } else { b"joiner" })));
    let joined;
    {
        let mut send = Managed::new(sock.send(&msg));
        if send.poll_once().is_ready() {
            // the send did not have to wait (another peer was chosen): nothing to see here
            ctx.count("fail_while_joining_not_reached");
            return;
        }
        sim::settle().await;
        let mut join = Managed::new(attach_future(backend, jr, jw));
        let j1 = join.drive().await;
        if matches!(j1, Ok(None)) {
            ctx.count("joins_waiting_behind_a_blocked_send");
        }
        // the stalled peer's connection breaks
        victim.conn.fail_writes(if how == "broken-pipe" { WriteFail::BrokenPipe } else { WriteFail::ConnectionReset });
        victim.conn.set_credit(None);
        // (a deadlock of the thread in here is caught by the case watchdog)
        match send.drive().await {
            Ok(Some(_)) => {}
            other => {
                ctx.violation_with(&sig("send-never-returns-after-peer-failure"), format!("send waiting for a peer whose connection then failed: {other:?}"), case.clone());
                return;
            }
        }
        joined = match j1 {
            Ok(Some(r)) => Some(r),
            _ => join.drive().await.ok().flatten(),
        };
    }
    ctx.count("peer_failures_while_another_peer_joins");
    match joined {
        Some(Ok(id)) => {
            let hs_len = crate::sock::library_handshake_len(&jconn.tap()).unwrap_or(0);
            let joiner = Peer { conn: jconn, id, ty: peer_type_for(ty).to_string(), hs_len };
            sim::settle().await;
            if how == "same-identity" {
                // which of the two connections owns the identity now is not ours to say; the
                // others must be fine
                let refs: Vec<&Peer> = live.iter().collect();
                if let Err(e) = exchange_all(&mut sock, &refs, 300).await {
                    ctx.violation_with(&sig("live-peer-disturbed"), format!("after a peer failed while another joined under its identity: {e}"), case.clone());
                }
                return;
            }
            let mut refs: Vec<&Peer> = live.iter().collect();
            refs.push(&joiner);
            if let Err(e) = exchange_all(&mut sock, &refs, 300).await {
                ctx.violation_with(&sig("live-peer-disturbed"), format!("after a peer failed while another joined: {e}"), case.clone());
            }
        }
        other => {
            ctx.violation_with(&sig("join-failed-because-another-peer-failed"), format!("a healthy peer joining while another peer's connection failed: {other:?}"), case.clone());
        }
    }
}

async fn replaced(ctx: &mut Ctx, ty: &str, old_state: &str, nlive: usize, case: &Value) {
    let sig = |k: &str| format!("C16/{k}/{ty}");
    let mut sock = Sock::new(ty, None);
    let old = match Peer::attach(&sock, peer_type_for(ty), Some(b"same-identity")).await {
        Ok(p) => p,
        Err(e) => {
            ctx.inconclusive(format!("C16 attach: {e}"));
            return;
        }
    };
    let mut live = Vec::new();
    for k in 0..nlive {
        match Peer::attach(&sock, peer_type_for(ty), Some(format!("live{k}").as_bytes())).await {
            Ok(p) => live.push(p),
            Err(e) => {
                ctx.inconclusive(format!("C16 attach: {e}"));
                return;
            }
        }
    }
    if old_state == "parked" && sock.can_recv() && ty != "REQ" {
        let _ = recv_now(&mut sock).await; // the old connection's waker is registered
    }
    match old_state {
        "ended-unnoticed" | "parked" => old.conn.close_full(EndKind::Eof),
        // the old connection ended (inside a frame: an error; or cleanly) and the socket has
        // dealt with it before the peer comes back
        "error-noticed" | "eof-noticed" | "reset-noticed" => {
            if old_state == "error-noticed" {
                old.conn.feed(&[0x01, 0x09, 0xAA, 0xBB]);
            }
            old.conn.close_full(if old_state == "reset-noticed" { EndKind::Reset } else { EndKind::Eof });
            if sock.can_recv() && ty != "REQ" {
                for _ in 0..3 {
                    if recv_now(&mut sock).await.is_none() {
                        break;
                    }
                }
            } else {
                sim::settle().await;
            }
            ctx.count("reconnects_after_the_old_end_was_dealt_with");
        }
        _ => {} // "half-open": the peer is gone but nothing tells the socket
    }
    let newp = match Peer::attach(&sock, peer_type_for(ty), Some(b"same-identity")).await {
        Ok(p) => p,
        Err(e) => {
            ctx.violation_with(&sig("reconnect-rejected"), e, case.clone());
            return;
        }
    };
    ctx.count("connections_replaced_by_a_reconnect");
    sim::settle().await;
    if !old.conn.released_both() {
        ctx.violation_with(
            &sig("not-released/replaced-connection"),
            format!(
                "a peer reconnected under its identity ({old_state}); the old connection is still held: reader dropped={}, writer dropped={}",
                old.conn.reader_dropped(),
                old.conn.writer_dropped()
            ),
            case.clone(),
        );
        return;
    }
    if sim::live_tasks() > if ty == "PUB" { 1 + nlive } else { 0 } {
        ctx.violation_with(&sig("task-left-for-replaced-connection"), format!("{} library tasks alive for {} connections", sim::live_tasks(), 1 + nlive), case.clone());
        return;
    }
    let mut all: Vec<&Peer> = vec![&newp];
    all.extend(live.iter());
    if let Err(why) = exchange_all(&mut sock, &all, 60).await {
        ctx.violation_with(&sig("live-peer-disturbed"), format!("after a reconnect under the same identity ({old_state}): {why}"), case.clone());
    }
}

/// The connection ends during the handshake.
async fn mid_handshake(ctx: &mut Ctx, ty: &str, off: usize, fault: &str, nlive: usize, case: &Value) {
    let sig = |k: &str| format!("C16/{k}/{ty}");
    let mut sock = Sock::new(ty, None);
    let mut live = Vec::new();
    for k in 0..nlive {
        match Peer::attach(&sock, peer_type_for(ty), Some(format!("live{k}").as_bytes())).await {
            Ok(p) => live.push(p),
            Err(e) => {
                ctx.inconclusive(format!("C16 attach: {e}"));
                return;
            }
        }
    }
    let hs = rc::handshake(peer_type_for(ty), Some(b"dead-peer"));
    let (conn, r, w) = Conn::new();
    conn.feed(&hs[..off.min(hs.len() - 1)]);
    match fault {
        "close" => conn.close_full(EndKind::Eof),
        "reset" => conn.close_full(EndKind::Reset),
        "write-error" => {
            conn.fail_writes(WriteFail::BrokenPipe);
            conn.feed(&hs[off.min(hs.len() - 1)..]);
        }
        _ => conn.feed(&[0x04, 0x05, 0x04, b'N', b'O', b'P', b'E', 0xFF]),
    }
    ctx.count(&format!("handshake_cut/{off}"));
    ctx.count(&format!("fault/{fault}"));
    let mut att = Managed::new(attach_future(sock.backend(), r, w));
    let res = att.drive().await;
    drop(att);
    sim::settle().await;
    match res {
        Ok(Some(Err(_))) => ctx.count("handshake_failed_cleanly"),
        Ok(Some(Ok(_))) => {
            ctx.violation_with(&sig("dead-handshake-admitted"), format!("peer that ended at handshake offset {off} ({fault}) was admitted"), case.clone());
            return;
        }
        Ok(None) => {
            if fault == "protocol-error" && off < 64 {
                // garbage inside the greeting just is not a complete greeting yet
                ctx.count("handshake_still_waiting");
                return;
            }
            ctx.violation_with(&sig("handshake-hangs-after-end"), format!("connection ended at handshake offset {off} ({fault}); the handshake never returns"), case.clone());
            return;
        }
        Err(_) => {
            ctx.violation_with(&sig("handshake-spins"), "handshake spins".into(), case.clone());
            return;
        }
    }
    if !conn.released_both() {
        ctx.violation_with(&sig("not-released/failed-handshake"), format!("failed handshake (offset {off}, {fault}) left the connection held"), case.clone());
        return;
    }
    ctx.count("released_after_observation");
    {
        let refs: Vec<&Peer> = live.iter().collect();
        if let Err(why) = exchange_all(&mut sock, &refs, 40).await {
            ctx.violation_with(&sig("live-peer-disturbed"), format!("after a failed handshake: {why}"), case.clone());
            return;
        }
    }
    if nlive == 0 && matches!(ty, "PUSH" | "DEALER" | "REQ") {
        let r = sim::complete(sock.send(&rc::tagged(35, 0, &[1]))).await;
        if !matches!(&r, Ok(Err(e)) if e.returned.is_some()) {
            ctx.violation_with(&sig("failed-handshake-left-a-peer"), format!("send with no admitted peer returned {r:?}"), case.clone());
        }
    }
}

/// `zmqmon child fdcycles <TYPE> <transport> <N>`: a long-lived bound socket serves N
/// connect / exchange / disconnect cycles of raw peers (orderly close and abort
/// alternate); open descriptors and alive tasks are counted before and after.
pub fn child_fd_cycles(args: &[String]) -> i32 {
    use crate::rig::{self, Raw, WAIT};
    use std::time::Duration;
    let ty = args.first().cloned().unwrap_or_else(|| "PULL".into());
    let transport = args.get(1).cloned().unwrap_or_else(|| "tcp4".into());
    let n: usize = args.get(2).and_then(|x| x.parse().ok()).unwrap_or(200);
    let (res, _) = rig::run(2, async move {
        let mut sock = Sock::new(&ty, None);
        let ep = sock.bind(&rig::bind_endpoint(&transport)).await?;
        let peer_ty = peer_type_for(&ty);
        // warm-up cycles so lazily created descriptors (epoll, eventfd, ...) are in the baseline
        let mut fd_before = 0usize;
        let mut tasks_before = 0usize;
        for cycle in 0..n + 5 {
            if cycle == 5 {
                tokio::time::sleep(Duration::from_millis(100)).await;
                fd_before = rig::open_fds();
                tasks_before = rig::alive_tasks();
            }
            let mut raw = tokio::time::timeout(WAIT, Raw::connect(&ep)).await.map_err(|_| "connect timed out".to_string())?.map_err(|e| e.to_string())?;
            raw.handshake(peer_ty, Some(format!("cyc{cycle}").as_bytes())).await?;
            // a little traffic in the direction the type supports
            match ty.as_str() {
                "PULL" | "SUB" | "DEALER" | "ROUTER" | "XPUB" => {
                    let m = if ty == "XPUB" { vec![vec![1u8, b'c']] } else { vec![b"cycle".to_vec()] };
                    let _ = raw.send_msg(&m).await;
                    let _ = tokio::time::timeout(WAIT, sock.recv()).await;
                }
                "REP" => {
                    let _ = raw.send_msg(&[vec![], b"cycle".to_vec()]).await;
                    if let Ok(Ok(_)) = tokio::time::timeout(WAIT, sock.recv()).await {
                        let _ = tokio::time::timeout(WAIT, sock.send(&[b"r".to_vec()])).await;
                        let _ = raw.read_msg(WAIT).await;
                    }
                }
                "PUB" => {
                    let _ = raw.send_msg(&[vec![1u8]]).await;
                    tokio::time::sleep(Duration::from_millis(2)).await;
                    let _ = tokio::time::timeout(WAIT, sock.send(&[b"p".to_vec()])).await;
                }
                "PUSH" => {
                    tokio::time::sleep(Duration::from_millis(2)).await;
                    let _ = tokio::time::timeout(WAIT, sock.send(&[b"p".to_vec()])).await;
                }
                "REQ" => {
                    tokio::time::sleep(Duration::from_millis(2)).await;
                    if let Ok(Ok(())) = tokio::time::timeout(WAIT, sock.send(&[b"q".to_vec()])).await {
                        let _ = raw.read_msg(WAIT).await;
                        let _ = raw.send_msg(&[vec![], b"a".to_vec()]).await;
                        let _ = tokio::time::timeout(WAIT, sock.recv()).await;
                    }
                }
                _ => {}
            }
            // the peer leaves: orderly close or abort (RST)
            if cycle % 2 == 1 {
                if let Raw::Tcp(s) = &raw {
                    #[allow(deprecated)]
                    let _ = s.set_linger(Some(Duration::from_secs(0)));
                }
            }
            drop(raw);
            // the socket gets a chance to notice, the way its type does
            match ty.as_str() {
                "PULL" | "SUB" | "DEALER" | "ROUTER" | "XPUB" | "REP" => {
                    let _ = tokio::time::timeout(Duration::from_millis(15), sock.recv()).await;
                }
                "PUSH" | "REQ" => {
                    for _ in 0..2 {
                        let _ = tokio::time::timeout(Duration::from_millis(15), sock.send(&[b"x".to_vec()])).await;
                    }
                    if ty == "REQ" {
                        let _ = tokio::time::timeout(Duration::from_millis(15), sock.recv()).await;
                    }
                }
                _ => tokio::time::sleep(Duration::from_millis(3)).await,
            }
        }
        // bounded wait for stragglers
        let mut fd_after = rig::open_fds();
        let mut tasks_after = rig::alive_tasks();
        let deadline = std::time::Instant::now() + WAIT;
        while (fd_after > fd_before + 6 || tasks_after > tasks_before + 2) && std::time::Instant::now() < deadline {
            if sock.can_recv() && ty != "REQ" {
                let _ = tokio::time::timeout(Duration::from_millis(20), sock.recv()).await;
            } else {
                tokio::time::sleep(Duration::from_millis(20)).await;
            }
            fd_after = rig::open_fds();
            tasks_after = rig::alive_tasks();
        }
        let canary = rig::canary_ok().await;
        println!(
            "FDCYCLES {}",
            json!({"ty": ty, "transport": transport, "cycles": n, "fd_before": fd_before, "fd_after": fd_after,
                   "tasks_before": tasks_before, "tasks_after": tasks_after, "canary_ok": canary})
        );
        let _ = tokio::time::timeout(WAIT, sock.close()).await;
        Ok::<(), String>(())
    });
    match res {
        Ok(()) => 0,
        Err(e) => {
            println!("FDCYCLES-ERROR {e}");
            1
        }
    }
}

fn rig_cycles_case(ctx: &mut Ctx, case: &Value) {
    use std::process::{Command, Stdio};
    let ty = s(case, "ty").to_string();
    let transport = s(case, "transport").to_string();
    let n = u(case, "cycles");
    ctx.eval(hash_str(&case.to_string()), true);
    ctx.sample("rig_cycles", || case.clone());
    let exe = std::env::current_exe().expect("current_exe");
    let out = Command::new(exe)
        .args(["child", "fdcycles", &ty, &transport, &n.to_string()])
        .stdout(Stdio::piped())
        .stderr(Stdio::null())
        .output();
    let text = match out {
        Ok(o) => String::from_utf8_lossy(&o.stdout).into_owned(),
        Err(e) => {
            ctx.inconclusive(format!("C16 fd cycles: cannot run child: {e}"));
            return;
        }
    };
    let Some(line) = text.lines().find(|l| l.starts_with("FDCYCLES ")) else {
        ctx.inconclusive(format!("C16 fd cycles {ty}/{transport}: {}", text.lines().last().unwrap_or("no output")));
        return;
    };
    let v: Value = serde_json::from_str(&line["FDCYCLES ".len()..]).unwrap_or(Value::Null);
    let (fb, fa, tb, ta) = (u(&v, "fd_before"), u(&v, "fd_after"), u(&v, "tasks_before"), u(&v, "tasks_after"));
    ctx.add("rig_connect_disconnect_cycles", n);
    ctx.count(&format!("rig_cycles/{transport}"));
    ctx.max("rig_fd_growth_after_cycles", fa.saturating_sub(fb));
    if fa > fb + 6 || ta > tb + 2 {
        if v["canary_ok"].as_bool().unwrap_or(false) {
            ctx.violation_with(
                &format!("C16/rig/descriptors-or-tasks-accumulate/{ty}"),
                format!("{n} connect/exchange/disconnect cycles over {transport}: open descriptors {fb} -> {fa}, alive tasks {tb} -> {ta} (dead connections accumulate)"),
                case.clone(),
            );
        } else {
            ctx.inconclusive(format!("C16 fd cycles {ty}/{transport}: counts high but the canary was slow"));
        }
    }
}

impl Prop for C16 {
    fn id(&self) -> &'static str {
        "C16"
    }

    fn cases(&self, tier: Tier, _seed: u64) -> Vec<Value> {
        let mut v = Vec::new();
        for ty in ALL_TYPES {
            for transport in ["tcp4", "ipc"] {
                v.push(json!({"kind": "rig_cycles", "ty": ty, "transport": transport, "cycles": tier.pick(60, 600)}));
            }
        }
        for ty in ALL_TYPES {
            for fault in FAULTS {
                for order in ["read-first", "write-first"] {
                    for nlive in 0..=3usize {
                        let _ = tier;
                        v.push(json!({"kind": "post_batch", "ty": ty, "fault": fault, "order": order, "live": nlive}));
                    }
                }
            }
            if ty == "REQ" {
                for kind in ["BrokenPipe", "ConnectionReset"] {
                    for nlive in [1usize, 2, 4] {
                        v.push(json!({"kind": "req_dead_head", "ty": ty, "fail": kind, "live": nlive}));
                    }
                }
            }
            if matches!(ty, "PUB" | "XPUB") {
                for kind in ["BrokenPipe", "ConnectionReset", "WriteZero"] {
                    for nlive in [1usize, 3, 6] {
                        v.push(json!({"kind": "pub_hwm_fail", "ty": ty, "fail": kind, "live": nlive}));
                    }
                }
            }
            if matches!(ty, "PUSH" | "DEALER" | "ROUTER" | "REQ") {
                for how in ["broken-pipe", "reset", "same-identity"] {
                    for nlive in [0usize, 1, 3] {
                        v.push(json!({"kind": "fail_join", "ty": ty, "how": how, "live": nlive}));
                    }
                }
            }
            for old_state in ["ended-unnoticed", "parked", "half-open", "error-noticed", "eof-noticed", "reset-noticed"] {
                for nlive in [0usize, 2] {
                    v.push(json!({"kind": "replaced", "ty": ty, "old": old_state, "live": nlive}));
                }
            }
            for fault in ["close", "reset", "protocol-error", "write-error"] {
                for nlive in [0usize, 2] {
                    v.push(json!({"kind": "hs_batch", "ty": ty, "fault": fault, "live": nlive}));
                }
            }
        }
        v
    }

    fn run(&self, case: &Value, ctx: &mut Ctx) {
        let ty = s(case, "ty").to_string();
        match s(case, "kind") {
            "rig_cycles" => rig_cycles_case(ctx, case),
            "post_batch" => {
                for cut in CUTS {
                    // a protocol error needs an item boundary: inside a frame the
                    // "garbage" is just that frame's size/body bytes
                    if s(case, "fault") == "protocol-error"
                        && !matches!(cut, "between-messages" | "between-frames" | "after-complete-message")
                    {
                        continue;
                    }
                    for talk in [false, true] {
                        if talk && (u(case, "live") == 0 || s(case, "order") != "read-first") {
                            continue;
                        }
                        let one = json!({"kind": "post", "ty": ty, "cut": cut, "fault": s(case, "fault"), "order": s(case, "order"), "live": u(case, "live"), "talk": talk});
                        ctx.eval(hash_str(&one.to_string()), true);
                        ctx.count(&format!("cases/{ty}"));
                        ctx.sample(&format!("post_{ty}"), || one.clone());
                        sim::run(post_handshake(ctx, &ty, cut, s(case, "fault"), s(case, "order"), u(case, "live") as usize, &one));
                    }
                }
            }
            "post" => {
                ctx.eval(1, true);
                sim::run(post_handshake(ctx, &ty, s(case, "cut"), s(case, "fault"), s(case, "order"), u(case, "live") as usize, case));
            }
            "req_dead_head" => {
                ctx.eval(hash_str(&case.to_string()), true);
                let kind = if s(case, "fail") == "BrokenPipe" { WriteFail::BrokenPipe } else { WriteFail::ConnectionReset };
                sim::run(req_dead_peer_at_the_head(ctx, kind, u(case, "live") as usize, case));
            }
            "pub_hwm_fail" => {
                ctx.eval(hash_str(&case.to_string()), true);
                ctx.sample("pub_hwm_fail", || case.clone());
                let kind = match s(case, "fail") {
                    "BrokenPipe" => WriteFail::BrokenPipe,
                    "ConnectionReset" => WriteFail::ConnectionReset,
                    _ => WriteFail::WriteZero,
                };
                sim::run(pub_subscriber_fails_at_hwm(ctx, &ty, kind, u(case, "live") as usize, case));
            }
            "fail_join" => {
                ctx.eval(hash_str(&case.to_string()), true);
                ctx.sample("fail_join", || case.clone());
                sim::run(fail_while_joining(ctx, &ty, s(case, "how"), u(case, "live") as usize, case));
            }
            "replaced" => {
                ctx.eval(hash_str(&case.to_string()), true);
                ctx.sample("replaced", || case.clone());
                sim::run(replaced(ctx, &ty, s(case, "old"), u(case, "live") as usize, case));
            }
            "hs_batch" => {
                for off in HS_CUTS {
                    if s(case, "fault") == "protocol-error" && off > 64 {
                        continue; // garbage inside READY is READY's body, not an error
                    }
                    let one = json!({"kind": "hs", "ty": ty, "off": off, "fault": s(case, "fault"), "live": u(case, "live")});
                    ctx.eval(hash_str(&one.to_string()), true);
                    ctx.count(&format!("cases/{ty}"));
                    ctx.sample("handshake_cut", || one.clone());
                    sim::run(mid_handshake(ctx, &ty, off, s(case, "fault"), u(case, "live") as usize, &one));
                }
            }
            "hs" => {
                ctx.eval(1, true);
                sim::run(mid_handshake(ctx, &ty, u(case, "off") as usize, s(case, "fault"), u(case, "live") as usize, case));
            }
            _ => ctx.inconclusive(format!("unknown case {case}")),
        }
    }

    fn sanitizer_cases(&self, _seed: u64) -> Vec<Value> {
        let mut v = Vec::new();
        for ty in ALL_TYPES {
            for (cut, fault, order) in [
                ("between-messages", "close", "read-first"),
                ("inside-body", "reset", "read-first"),
                ("between-frames", "protocol-error", "read-first"),
                ("after-flags", "close", "write-first"),
            ] {
                v.push(json!({"kind": "post", "ty": ty, "cut": cut, "fault": fault, "order": order, "live": 1}));
            }
            v.push(json!({"kind": "hs", "ty": ty, "off": 10, "fault": "close", "live": 1}));
            v.push(json!({"kind": "hs", "ty": ty, "off": 66, "fault": "reset", "live": 0}));
        }
        v
    }

    fn floors(&self, _tier: Tier) -> Vec<(&'static str, u64)> {
        let mut f = vec![
            ("fault/close", 500),
            ("fault/fin", 300),
            ("fault/reset", 500),
            ("fault/protocol-error", 200),
            ("order/read-first", 400),
            ("order/write-first", 400),
            ("live_peer_talking_when_the_end_is_noticed", 200),
            ("pub_subscriber_write_failures_at_the_high_water_mark", 12),
            ("req_write_failures_at_the_head_of_the_rotation", 4),
            ("end_observed", 700),
            ("observed_by_write_error", 100),
            ("errors_per_event/1", 100),
            ("released_after_observation", 0),
            ("handshake_failed_cleanly", 300),
            ("connections_replaced_by_a_reconnect", 50),
            ("sub_updates_checked_after_a_fault", 50),
            ("rig_connect_disconnect_cycles", 1000),
            ("rig_cycles/tcp4", 9),
            ("rig_cycles/ipc", 9),
        ];
        for c in [
            "cut/between-messages",
            "cut/after-flags",
            "cut/inside-8byte-size",
            "cut/inside-body",
            "cut/between-frames",
            "cut/inside-last-frame",
            "cut/after-complete-message",
        ] {
            f.push((c, 100));
        }
        f
    }
}
