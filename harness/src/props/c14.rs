//! C14 — dropping a pending recv loses nothing and leaves the socket usable.

use super::common::*;
use crate::hist::{self, HistOpts};
use crate::prng::{hash_str, mix};
use crate::refcodec::{self as rc, Frames};
use crate::report::{Ctx, Tier};
use crate::sim::{self, Managed};
use crate::sock::{peer_type_for, Peer, Sock, RECV_TYPES};
use crate::Prop;
use serde_json::{json, Value};
use std::task::Poll;

pub struct C14;

fn wire_of(ty: &str, payload: &Frames) -> Frames {
    match ty {
        "REP" | "REQ" => {
            let mut w = vec![vec![]];
            w.extend(payload.clone());
            w
        }
        _ => payload.clone(),
    }
}

fn expect_of(ty: &str, payload: &Frames, peer: &Peer) -> Frames {
    match ty {
        "ROUTER" => {
            let mut w = vec![peer.id.clone()];
            w.extend(payload.clone());
            w
        }
        _ => payload.clone(),
    }
}

/// Targeted sweep: byte-arrival position p, j polls before the drop, repeated.
async fn targeted(ctx: &mut Ctx, ty: &str, p: usize, j: u32, repeats: u32, case: &Value) {
    let mut sock = Sock::new(ty, None);
    let peer = match Peer::attach(&sock, peer_type_for(ty), Some(b"pp")).await {
        Ok(x) => x,
        Err(e) => {
            ctx.inconclusive(format!("C14 attach: {e}"));
            return;
        }
    };
    let m1 = rc::tagged(1, 1, &[5, 0]);
    let m2 = rc::tagged(1, 2, &[1]);
    let b1 = rc::message(&wire_of(ty, &m1));
    let b2 = rc::message(&wire_of(ty, &m2));
    let sig = |k: &str| format!("C14/{k}/{ty}");
    if ty == "REQ" {
        match sim::complete(sock.send(&rc::tagged(9, 1, &[2]))).await {
            Ok(Ok(())) => {}
            other => {
                ctx.inconclusive(format!("C14 REQ first send: {other:?}"));
                return;
            }
        }
    }
    peer.conn.feed_held(&b1);
    if ty != "REQ" {
        peer.conn.feed_held(&b2);
    }
    let mut results: Vec<Result<Frames, String>> = Vec::new();
    let mut released = 0usize;
    for rep in 0..repeats {
        let mut rv = Managed::new(sock.recv());
        let want = if rep == 0 { p } else { (p + 3 * rep as usize).min(b1.len() + 2) };
        if want > released {
            peer.conn.release(want - released);
            released = want;
        }
        let mut polled = 0u32;
        let mut done = false;
        while polled < j {
            if polled == 0 || rv.woken() {
                polled += 1;
                if let Poll::Ready(x) = rv.poll_once() {
                    results.push(x);
                    done = true;
                    break;
                }
            } else {
                // a faithful executor would not poll; let a few more bytes arrive
                if peer.conn.held() > 0 {
                    peer.conn.release(1);
                    released += 1;
                } else {
                    break;
                }
            }
        }
        if !done {
            ctx.count("drops");
            if polled == 0 {
                ctx.count("drops_never_polled");
            } else {
                ctx.count("drops_after_waker_registered");
            }
            if released > 0 && released < b1.len() {
                ctx.count("drops_with_partial_frame");
            }
            if released >= b1.len() {
                ctx.count("drops_with_full_message_buffered");
            }
        }
        drop(rv); // <- the cancellation point
        if done && ty == "REQ" {
            // the reply has been received: another recv would be out of turn
            break;
        }
    }
    // protocol state as if the abandoned calls had not been made
    if ty == "REQ" && results.is_empty() {
        let before = peer.conn.tap_len();
        let msg = rc::tagged(9, 2, &[2]);
        match sim::complete(sock.send(&msg)).await {
            Ok(Err(e)) if e.returned.as_ref() == Some(&msg) && peer.conn.tap_len() == before => {
                ctx.count("req_send_refused_after_abandon");
            }
            other => {
                ctx.violation_with(
                    &sig("req-accepts-send-while-reply-outstanding"),
                    format!(
                        "recv abandoned after {j} polls with {released} reply bytes arrived; the next send returned {other:?} and wrote {} bytes (the socket still owes a recv)",
                        peer.conn.tap_len() - before
                    ),
                    case.clone(),
                );
                return;
            }
        }
    }
    if ty == "REP" && results.is_empty() {
        let before = peer.conn.tap_len();
        let msg = rc::tagged(9, 3, &[2]);
        match sim::complete(sock.send(&msg)).await {
            Ok(Err(_)) if peer.conn.tap_len() == before => ctx.count("rep_send_refused_after_abandon"),
            other => {
                ctx.violation_with(
                    &sig("rep-accepts-reply-without-request"),
                    format!("recv abandoned before any request was returned; send returned {other:?}"),
                    case.clone(),
                );
                return;
            }
        }
    }
    // everything still arrives through later recv calls
    peer.conn.release_all();
    for _ in 0..4 {
        if results.len() >= 2 || (ty == "REQ" && !results.is_empty()) {
            break;
        }
        match recv_now(&mut sock).await {
            Some(x) => results.push(x),
            None => break,
        }
    }
    if ty == "REQ" {
        // second round trip
        match sim::complete(sock.send(&rc::tagged(9, 4, &[2]))).await {
            Ok(Ok(())) => {
                peer.conn.feed(&b2);
                if let Some(x) = recv_now(&mut sock).await {
                    results.push(x);
                }
            }
            other => {
                ctx.violation_with(
                    &sig("socket-unusable-after-abandon"),
                    format!("after the outstanding reply was received, send returned {other:?}; results so far {results:?}"),
                    case.clone(),
                );
                return;
            }
        }
    }
    let want = vec![Ok(expect_of(ty, &m1, &peer)), Ok(expect_of(ty, &m2, &peer))];
    if results != want {
        let kind = if results.len() < 2 {
            "message-lost"
        } else if results.len() > 2 || results[0] == results[1] {
            "message-duplicated"
        } else {
            "messages-differ"
        };
        ctx.violation_with(
            &sig(kind),
            format!(
                "arrival position {p}, {j} polls before drop, {repeats} abandoned calls: later recv calls returned {:?}",
                results
                    .iter()
                    .map(|r| match r {
                        Ok(m) => format!("Ok{}", rc::frames_summary(m)),
                        Err(e) => format!("Err({e})"),
                    })
                    .collect::<Vec<_>>()
            ),
            case.clone(),
        );
        return;
    }
    // nothing more
    if ty != "REQ" {
        if let Some(x) = recv_now(&mut sock).await {
            ctx.violation_with(&sig("message-duplicated"), format!("an extra result appeared: {x:?}"), case.clone());
        }
    }
}

/// REP received a request (owes a reply); further recv calls are polled and abandoned
/// with p bytes of the next request arrived; the owed reply must still be accepted and
/// must go to the requester with its envelope.
async fn rep_owes_reply(ctx: &mut Ctx, p: usize, j: u32, repeats: u32, case: &Value) {
    let mut sock = Sock::new("REP", None);
    let a = match Peer::attach(&sock, "DEALER", Some(b"A")).await {
        Ok(x) => x,
        Err(e) => {
            ctx.inconclusive(format!("C14 attach: {e}"));
            return;
        }
    };
    let b = match Peer::attach(&sock, "REQ", Some(b"B")).await {
        Ok(x) => x,
        Err(e) => {
            ctx.inconclusive(format!("C14 attach: {e}"));
            return;
        }
    };
    let req_a = rc::tagged(1, 1, &[4]);
    let mut wire_a = vec![b"route".to_vec(), vec![]];
    wire_a.extend(req_a.clone());
    a.send(&wire_a);
    match recv_now(&mut sock).await {
        Some(Ok(m)) if m == req_a => {}
        other => {
            ctx.inconclusive(format!("C14 rep_owes: first recv {other:?}"));
            return;
        }
    }
    // the next request (from B) arrives byte by byte while recv calls are abandoned
    let mut wire_b = vec![vec![]];
    wire_b.extend(rc::tagged(2, 1, &[3]));
    let bytes_b = rc::message(&wire_b);
    b.conn.feed_held(&bytes_b);
    let p = p.min(bytes_b.len() - 1);
    let mut released = 0usize;
    for rep in 0..repeats {
        let mut rv = Managed::new(sock.recv());
        let want = (p + rep as usize).min(bytes_b.len() - 1);
        if want > released {
            b.conn.release(want - released);
            released = want;
        }
        let mut polled = 0;
        while polled < j {
            if polled == 0 || rv.woken() {
                polled += 1;
                if let Poll::Ready(x) = rv.poll_once() {
                    ctx.violation_with("C14/partial-request-surfaced/REP", format!("recv returned {x:?} with {released} of {} bytes arrived", bytes_b.len()), case.clone());
                    return;
                }
            } else {
                break;
            }
        }
        drop(rv);
        ctx.count("drops");
        ctx.count("rep_drops_while_reply_owed");
    }
    let reply = rc::tagged(3, 1, &[2]);
    match sim::complete(sock.send(&reply)).await {
        Ok(Ok(())) => {}
        other => {
            ctx.violation_with(
                "C14/owed-reply-refused-after-abandoned-recv/REP",
                format!("a request was received and not yet answered; after {repeats} abandoned recv calls ({j} polls each) send returned {other:?}"),
                case.clone(),
            );
            return;
        }
    }
    let mut want = vec![b"route".to_vec(), vec![]];
    want.extend(reply.clone());
    if a.out_msgs().ok() != Some(vec![want]) || !b.out_msgs().map(|m| m.is_empty()).unwrap_or(false) {
        ctx.violation_with(
            "C14/owed-reply-misrouted-after-abandoned-recv/REP",
            format!("reply after abandoned recv calls: requester got {:?}, the other client got {:?}", a.out_msgs(), b.out_msgs()),
            case.clone(),
        );
        return;
    }
    // and the second request is still delivered whole afterwards
    b.conn.release_all();
    match recv_now(&mut sock).await {
        Some(Ok(m)) if rc::parse_tag(&m, 0).map(|t| t.origin == 2).unwrap_or(false) => {}
        other => ctx.violation_with("C14/message-lost/REP", format!("request that was arriving during the abandoned calls: {other:?}"), case.clone()),
    }
}

/// REP owes a reply to client A; client B's malformed request (one frame, no delimiter)
/// arrives during a recv call that the application then abandons. The protocol state is as
/// if that call had not been made: the reply still goes to A, with A's envelope.
async fn rep_owes_malformed(ctx: &mut Ctx, polls: u32, case: &Value) {
    let mut sock = Sock::new("REP", None);
    let (Ok(a), Ok(b)) = (Peer::attach(&sock, "DEALER", Some(b"A")).await, Peer::attach(&sock, "DEALER", Some(b"B")).await) else {
        ctx.inconclusive("C14 attach".into());
        return;
    };
    let req_a = rc::tagged(1, 1, &[4]);
    let mut wire_a = vec![b"route".to_vec(), vec![]];
    wire_a.extend(req_a.clone());
    a.send(&wire_a);
    if !matches!(recv_now(&mut sock).await, Some(Ok(_))) {
        ctx.inconclusive("C14 rep_owes_malformed: first recv".into());
        return;
    }
    b.send(&[b"no-delimiter-no-body".to_vec()]);
    {
        let mut rv = Managed::new(sock.recv());
        for _ in 0..polls {
            if rv.poll_once().is_ready() {
                break;
            }
            sim::settle().await;
        }
    } // abandoned (or it had returned an error: the malformed request is reported or dropped)
    ctx.count("rep_malformed_request_during_an_abandoned_recv");
    let reply = rc::tagged(3, 1, &[2]);
    let bb = b.conn.tap_len();
    let r = sim::complete(sock.send(&reply)).await;
    let mut want = vec![b"route".to_vec(), vec![]];
    want.extend(reply.clone());
    if !matches!(r, Ok(Ok(()))) || a.out_msgs().ok() != Some(vec![want.clone()]) || b.conn.tap_len() != bb {
        ctx.violation_with(
            "C14/rep-owed-reply-misrouted-after-drops",
            format!(
                "REP owed a reply to client A; client B's malformed request arrived during a recv that was abandoned after {polls} polls; the reply: send gave {r:?}, A received {:?} (expected {}), bytes written to B: {}",
                a.out_msgs().map(|v| v.iter().map(|m| rc::frames_summary(m)).collect::<Vec<_>>()),
                rc::frames_summary(&want),
                b.conn.tap_len() - bb
            ),
            case.clone(),
        );
    }
}

/// REQ: the server puts a command frame on the connection before its reply, and the recv that
/// meets it is abandoned. The socket's state is that of "request 1 outstanding" or of
/// "request 1 failed" — never one in which a later request gets request 1's reply.
async fn req_command_then_abandoned(ctx: &mut Ctx, polls: u32, case: &Value) {
    let mut sock = Sock::new("REQ", None);
    let Ok(p) = Peer::attach(&sock, "REP", Some(b"server")).await else {
        ctx.inconclusive("C14 attach".into());
        return;
    };
    if !matches!(sim::complete(sock.send(&rc::tagged(1, 1, &[2]))).await, Ok(Ok(()))) {
        ctx.inconclusive("C14 req_cmd: send".into());
        return;
    }
    p.conn.feed(&rc::ready(b"REP", None));
    {
        let mut rv = Managed::new(sock.recv());
        for _ in 0..polls {
            if rv.poll_once().is_ready() {
                break;
            }
            sim::settle().await;
        }
    }
    ctx.count("req_recv_abandoned_after_a_command_frame");
    // the reply to request 1 comes late
    let mut w = vec![vec![]];
    w.extend(rc::tagged(100, 1, &[1]));
    if !p.conn.reader_dropped() {
        p.conn.feed(&rc::message(&w));
    }
    let q2 = rc::tagged(1, 2, &[2]);
    let accepted = matches!(sim::complete(sock.send(&q2)).await, Ok(Ok(())));
    if accepted && !p.conn.reader_dropped() {
        let mut w2 = vec![vec![]];
        w2.extend(rc::tagged(100, 2, &[1]));
        p.conn.feed(&rc::message(&w2));
    }
    if let Some(Ok(m)) = recv_now(&mut sock).await {
        let t = rc::parse_tag(&m, 0);
        let want = if accepted { 2 } else { 1 };
        if t.as_ref().map(|t| t.seq != want).unwrap_or(true) {
            ctx.violation_with(
                "C14/req-reply-paired-with-the-wrong-request",
                format!("a command frame preceded reply 1, the recv meeting it was abandoned after {polls} polls; request 2 accepted: {accepted}; the next recv returned {t:?}"),
                case.clone(),
            );
        }
    }
}

/// A long run of messages already on the connection, drained the way `now_or_never()` or a
/// `select!` with an always-ready other branch does it: every recv future is polled once
/// and dropped if it did not finish — hundreds of times within one poll of the task, so
/// that whatever per-task budget the runtime keeps runs out along the way.
async fn burst_drain(ctx: &mut Ctx, ty: &str, n: u32, npeers: usize, case: &Value) {
    let mut sock = Sock::new(ty, None);
    let mut peers = Vec::new();
    for k in 0..npeers {
        match Peer::attach(&sock, peer_type_for(ty), Some(format!("b{k}").as_bytes())).await {
            Ok(p) => peers.push(p),
            Err(e) => {
                ctx.inconclusive(format!("C14 attach: {e}"));
                return;
            }
        }
    }
    if ty == "SUB" {
        let _ = sim::complete(sock.subscribe("")).await;
    }
    if ty == "REP" {
        // lock-step: one request at a time is what REP accepts; the burst is n round trips
    }
    let per = n / npeers as u32;
    for (k, p) in peers.iter().enumerate() {
        if ty == "REP" {
            continue;
        }
        for i in 0..per {
            let payload = rc::tagged(k as u16, i, &[(i % 7) as usize]);
            p.conn.feed(&rc::message(&wire_of(ty, &payload)));
        }
    }
    sim::settle().await;
    // from here on: no await until the burst is drained (one poll of this task)
    let mut next = vec![0u32; npeers];
    let mut got = 0u32;
    let mut abandoned = 0u64;
    let mut idle = 0;
    while got < per * npeers as u32 && idle < 50 {
        if ty == "REP" {
            let k = (got as usize) % npeers;
            let payload = rc::tagged(k as u16, next[k], &[2]);
            peers[k].conn.feed(&rc::message(&wire_of(ty, &payload)));
        }
        let res = {
            let mut rv = Managed::new(sock.recv());
            rv.poll_once()
        };
        match res {
            Poll::Ready(Ok(m)) => {
                idle = 0;
                let skip = if ty == "ROUTER" { 1 } else { 0 };
                match rc::parse_tag(&m, skip) {
                    Ok(t) if (t.origin as usize) < npeers && t.seq == next[t.origin as usize] => next[t.origin as usize] += 1,
                    other => {
                        ctx.violation_with(
                            &format!("C14/lost-or-reordered/{ty}"),
                            format!("draining a burst by polling each recv once: after {got} messages and {abandoned} abandoned calls got {other:?}, expected next per peer {next:?}"),
                            case.clone(),
                        );
                        return;
                    }
                }
                got += 1;
                if ty == "REP" {
                    let reply = rc::tagged(900, got, &[1]);
                    let mut f = Managed::new(sock.send(&reply));
                    let _ = f.poll_once();
                }
            }
            Poll::Ready(Err(e)) => {
                ctx.violation_with(&format!("C14/recv-error-after-drops/{ty}"), e, case.clone());
                return;
            }
            Poll::Pending => {
                abandoned += 1;
                idle += 1;
            }
        }
    }
    ctx.add("recv_calls_abandoned_while_draining_a_burst", abandoned);
    ctx.add("messages_drained_in_one_task_poll", got as u64);
    if got < per * npeers as u32 {
        // give everything a fair chance to surface before calling it lost
        sim::settle().await;
        let mut more = 0;
        while let Some(Ok(_)) = recv_now(&mut sock).await {
            more += 1;
        }
        ctx.violation_with(
            &format!("C14/message-lost/{ty}"),
            format!("{} messages were on the connections; polling each recv once returned {got} (then nothing for 50 polls, {abandoned} calls abandoned), {more} more after yielding: some are gone", per * npeers as u32),
            case.clone(),
        );
    }
}

impl Prop for C14 {
    fn id(&self) -> &'static str {
        "C14"
    }

    fn cases(&self, tier: Tier, seed: u64) -> Vec<Value> {
        let mut v = Vec::new();
        for ty in RECV_TYPES {
            for j in 0..=4u32 {
                for repeats in 1..=3u32 {
                    v.push(json!({"kind": "targeted_batch", "ty": ty, "j": j, "repeats": repeats}));
                }
            }
            if ty == "REP" {
                for polls in 1..=3u32 {
                    v.push(json!({"kind": "rep_owes_malformed", "polls": polls}));
                }
            }
            if ty == "REQ" {
                for polls in 1..=3u32 {
                    v.push(json!({"kind": "req_cmd_abandoned", "polls": polls}));
                }
            }
            if ty == "REP" {
                for j in 0..=3u32 {
                    for repeats in 1..=3u32 {
                        v.push(json!({"kind": "rep_owes_batch", "j": j, "repeats": repeats}));
                    }
                }
            }
            if ty == "REQ" {
                continue;
            }
            for npeers in [1usize, 3] {
                v.push(json!({"kind": "burst", "ty": ty, "n": 600, "peers": npeers}));
            }
            for n in 1..=5usize {
                for k in 0..tier.pick(100, 20_000) {
                    v.push(json!({"kind": "hist", "ty": ty, "peers": n, "per": 5, "late": k % 2, "leavers": false,
                                  "seed": mix(seed ^ 0xC14 ^ (k as u64) << 8 ^ n as u64)}));
                }
            }
        }
        v
    }

    fn run(&self, case: &Value, ctx: &mut Ctx) {
        match s(case, "kind") {
            "rep_owes_malformed" => {
                ctx.eval(hash_str(&case.to_string()), true);
                sim::run(rep_owes_malformed(ctx, u(case, "polls") as u32, case));
            }
            "req_cmd_abandoned" => {
                ctx.eval(hash_str(&case.to_string()), true);
                sim::run(req_command_then_abandoned(ctx, u(case, "polls") as u32, case));
            }
            "burst" => {
                ctx.eval(hash_str(&case.to_string()), true);
                ctx.sample("burst", || case.clone());
                let ty = s(case, "ty").to_string();
                sim::run(burst_drain(ctx, &ty, u(case, "n") as u32, u(case, "peers") as usize, case));
            }
            "targeted_batch" => {
                let ty = s(case, "ty").to_string();
                let len = rc::message(&wire_of(&ty, &rc::tagged(1, 1, &[5, 0]))).len();
                for p in 0..=len + 1 {
                    let one = json!({"kind": "targeted", "ty": ty, "p": p, "j": u(case, "j"), "repeats": u(case, "repeats")});
                    ctx.eval(hash_str(&one.to_string()), true);
                    ctx.count(&format!("targeted/{ty}"));
                    ctx.sample(&format!("targeted_{ty}"), || one.clone());
                    sim::run(targeted(ctx, &ty, p, u(case, "j") as u32, u(case, "repeats") as u32, &one));
                }
            }
            "rep_owes_batch" => {
                for p in 0..26usize {
                    let one = json!({"kind": "rep_owes", "p": p, "j": u(case, "j"), "repeats": u(case, "repeats")});
                    ctx.eval(hash_str(&one.to_string()), true);
                    ctx.sample("rep_owes_reply", || one.clone());
                    sim::run(rep_owes_reply(ctx, p, u(case, "j") as u32, u(case, "repeats") as u32, &one));
                }
            }
            "rep_owes" => {
                ctx.eval(1, true);
                sim::run(rep_owes_reply(ctx, u(case, "p") as usize, u(case, "j") as u32, u(case, "repeats") as u32, case));
            }
            "targeted" => {
                ctx.eval(1, true);
                let ty = s(case, "ty").to_string();
                sim::run(targeted(ctx, &ty, u(case, "p") as usize, u(case, "j") as u32, u(case, "repeats") as u32, case));
            }
            "hist" => {
                let o = HistOpts {
                    ty: s(case, "ty").to_string(),
                    peers: u(case, "peers") as usize,
                    per_peer: u(case, "per") as u32,
                    seed: u(case, "seed"),
                    late_joiners: u(case, "late") as usize,
                    leavers: false,
                    envelope_violations: false,
                    drops: true,
                    saturate: false,
                };
                let out = sim::run(hist::run(&o));
                ctx.eval(hash_str(&case.to_string()), true);
                ctx.interleaving(out.trace);
                ctx.add("drops", out.counters.drops_total);
                ctx.add("drops_never_polled", out.counters.drops_never_polled);
                ctx.add("drops_after_waker_registered", out.counters.drops_after_waker_registered);
                ctx.add("drops_with_partial_frame", out.counters.drops_with_partial_frame);
                ctx.add("drops_with_full_message_buffered", out.counters.drops_with_full_message_buffered);
                ctx.add("hist_deliveries", out.counters.deliveries);
                ctx.count(&format!("hist_runs/{}", o.ty));
                ctx.sample("hist", || case.clone());
                for f in &out.findings {
                    if f.signature == "harness" {
                        ctx.inconclusive(format!("C14: {}", f.message));
                    } else if f.signature.starts_with("C14") {
                        ctx.violation_with(&f.signature, f.message.clone(), case.clone());
                    } else if f.signature.contains("lost-wakeup") {
                        ctx.violation_with(
                            &format!("C14/message-not-delivered-after-drops/{}", o.ty),
                            f.message.clone(),
                            case.clone(),
                        );
                    }
                }
            }
            _ => ctx.inconclusive(format!("unknown case {case}")),
        }
    }

    fn floors(&self, _tier: Tier) -> Vec<(&'static str, u64)> {
        vec![
            ("drops", 5000),
            ("drops_never_polled", 500),
            ("drops_after_waker_registered", 1000),
            ("drops_with_partial_frame", 500),
            ("drops_with_full_message_buffered", 200),
            ("targeted/REQ", 400),
            ("rep_drops_while_reply_owed", 500),
            ("targeted/REP", 400),
            ("targeted/PULL", 400),
            ("req_send_refused_after_abandon", 0),
            ("hist_deliveries", 5000),
        ]
    }
}
