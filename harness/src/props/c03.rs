//! C03 — bytes from a peer can never crash the process or force allocation
//! out of proportion to the bytes received.
//!
//! Hostile byte streams run in isolated child processes (`zmqmon child c03`)
//! on a 2 MiB stack; the parent watches for abnormal exits (abort, stack
//! overflow, SIGSEGV), the child watches for panics and heap growth.

use super::common::*;
use crate::pipe::{Conn, EndKind, WriteFail};
use crate::prng::{hash_bytes, hash_str, Rng};
use crate::refcodec as rc;
use crate::report::{Ctx, Tier};
use crate::sim::{self, Managed};
use crate::sock::{attach_future, peer_type_for, Sock, ALL_TYPES};
use crate::Prop;
use serde_json::{json, Value};
use std::io::{BufRead, BufReader, Write};
use std::panic::{catch_unwind, AssertUnwindSafe};
use std::process::{Command, Stdio};
use std::time::{Duration, Instant};

pub struct C03;

const ALPHA: [u8; 10] = [0x00, 0x01, 0x02, 0x03, 0x04, 0x05, 0x06, 0x07, 0xFF, b'R'];
const FIXED: i64 = 256 * 1024;
const FACTOR: i64 = 128;

// ---------------------------------------------------------- hostile streams

pub const CLASSES: &[&str] = &[
    "cmd_size0",
    "cmd_size0_long",
    "cmd_name_len_gt_body",
    "cmd_name_len_gt_body2",
    "cmd_unknown_name",
    "cmd_empty_name",
    "ready_prop_name_gt_rest",
    "ready_prop_name_only",
    "ready_value_len_truncated",
    "ready_value_len_beyond",
    "ready_value_len_ffffffff",
    "ready_non_utf8_name",
    "ready_no_socket_type",
    "ready_unknown_socket_type",
    "ready_identity_300",
    "ready_prop_name_len0",
    "ready_then_ready",
    "ready_long_form_small",
    "size_2p20",
    "size_2p31",
    "size_2p36",
    "size_2p40",
    "size_2p62",
    "size_2p63",
    "size_max",
    "size_2p31_more",
    "size_2p40_cmd",
    "size_max_cmd_more",
    "more_empty_1e3",
    "more_empty_1e4",
    "more_empty_1e5",
    "more_empty_1e6",
    "more_1byte_1e5",
    "tiny_msgs_1e5",
    "ready_cmds_1e4",
    "more_empty_1e4_unterminated",
    "reserved_flags",
    "random_16",
    "random_256",
    "random_4096",
    "random_ff_start",
    "all_ff_1k",
    "all_00_1k",
    "all_04_1k",
    "truncated_valid",
    "honest_4mib",
    // READY announcing every socket-type name of the RFCs, and some that are none
    "ready_type_STREAM",
    "ready_type_PAIR",
    "ready_type_XSUB",
    "ready_type_stream_lower",
    "ready_type_empty",
    "ready_type_long",
    // complete multipart messages around "round" frame counts (a cap on parts, a counter width)
    "parts_1023",
    "parts_1024",
    "parts_1025",
    "parts_1026",
    "parts_2050",
    "parts_4096",
    "parts_4097",
    "parts_65536",
    "parts_65537",
    // well-formed greetings naming another mechanism / role / version, then a normal peer
    "greeting_plain",
    "greeting_curve",
    "greeting_gssapi",
    "greeting_mech_random",
    "greeting_curve_as_server",
    "greeting_version_3_9",
    "greeting_version_255",
];

fn ready_hdr(data: &[u8]) -> Vec<u8> {
    rc::command(b"READY", data)
}

fn long_frame_hdr(flags: u8, size: u64) -> Vec<u8> {
    let mut v = vec![flags | 0x02];
    v.extend_from_slice(&size.to_be_bytes());
    v.extend_from_slice(&[0xAB; 16]);
    v
}

/// Hostile bytes of a class (what follows the stage prefix).
pub fn hostile(class: &str, peer_ty: &str, seed: u64) -> Vec<u8> {
    let st = rc::props(&[(b"Socket-Type", peer_ty.as_bytes())]);
    let mut r = Rng::keyed(seed, &[3, hash_str(class)]);
    match class {
        "cmd_size0" => vec![0x04, 0x00],
        "cmd_size0_long" => vec![0x06, 0, 0, 0, 0, 0, 0, 0, 0],
        "cmd_name_len_gt_body" => vec![0x04, 0x01, 0x05],
        "cmd_name_len_gt_body2" => vec![0x04, 0x03, 0x09, b'R', b'E'],
        "cmd_unknown_name" => rc::command(b"PING", b"\x00\x00"),
        "cmd_empty_name" => vec![0x04, 0x01, 0x00],
        "ready_prop_name_gt_rest" => {
            let mut d = st.clone();
            d.extend_from_slice(&[0x20, b'a']);
            ready_hdr(&d)
        }
        "ready_prop_name_only" => {
            let mut d = st.clone();
            d.extend_from_slice(&[0x01, b'a']);
            ready_hdr(&d)
        }
        "ready_value_len_truncated" => {
            let mut d = st.clone();
            d.extend_from_slice(&[0x01, b'a', 0x00, 0x00]);
            ready_hdr(&d)
        }
        "ready_value_len_beyond" => {
            let mut d = st.clone();
            d.extend_from_slice(&[0x01, b'a', 0x00, 0x00, 0x00, 0x10, b'x']);
            ready_hdr(&d)
        }
        "ready_value_len_ffffffff" => {
            let mut d = st.clone();
            d.extend_from_slice(&[0x01, b'a', 0xFF, 0xFF, 0xFF, 0xFF]);
            ready_hdr(&d)
        }
        "ready_non_utf8_name" => {
            let mut d = st.clone();
            d.extend_from_slice(&[0x02, 0xFF, 0xFE, 0, 0, 0, 0]);
            ready_hdr(&d)
        }
        "ready_no_socket_type" => ready_hdr(&rc::props(&[(b"Identity", b"x")])),
        "ready_unknown_socket_type" => ready_hdr(&rc::props(&[(b"Socket-Type", b"BOGUS")])),
        "ready_identity_300" => {
            let id = vec![b'i'; 300];
            ready_hdr(&rc::props(&[(b"Socket-Type", peer_ty.as_bytes()), (b"Identity", &id)]))
        }
        "ready_prop_name_len0" => {
            let mut d = st.clone();
            d.extend_from_slice(&[0x00, 0x00, 0x00, 0x00, 0x00]);
            ready_hdr(&d)
        }
        "ready_then_ready" => {
            let mut v = ready_hdr(&st);
            v.extend(ready_hdr(&st));
            v
        }
        "ready_long_form_small" => {
            let body_len = 1 + 5 + st.len();
            let mut v = vec![0x06];
            v.extend_from_slice(&(body_len as u64).to_be_bytes());
            v.push(5);
            v.extend_from_slice(b"READY");
            v.extend_from_slice(&st);
            v
        }
        "size_2p20" => long_frame_hdr(0x00, 1 << 20),
        "size_2p31" => long_frame_hdr(0x00, 1 << 31),
        "size_2p36" => long_frame_hdr(0x00, 1 << 36),
        "size_2p40" => long_frame_hdr(0x00, 1 << 40),
        "size_2p62" => long_frame_hdr(0x00, 1 << 62),
        "size_2p63" => long_frame_hdr(0x00, 1 << 63),
        "size_max" => long_frame_hdr(0x00, u64::MAX),
        "size_2p31_more" => long_frame_hdr(0x01, 1 << 31),
        "size_2p40_cmd" => long_frame_hdr(0x04, 1 << 40),
        "size_max_cmd_more" => long_frame_hdr(0x05, u64::MAX),
        "more_empty_1e3" => [0x01u8, 0x00].repeat(1000),
        "more_empty_1e4" => {
            let mut v = [0x01u8, 0x00].repeat(10_000);
            v.extend_from_slice(&[0x00, 0x00]);
            v
        }
        "more_empty_1e5" => {
            let mut v = [0x01u8, 0x00].repeat(100_000);
            v.extend_from_slice(&[0x00, 0x00]);
            v
        }
        "more_empty_1e6" => {
            let mut v = [0x01u8, 0x00].repeat(1_000_000);
            v.extend_from_slice(&[0x00, 0x00]);
            v
        }
        "more_1byte_1e5" => {
            let mut v = [0x01u8, 0x01, 0x7A].repeat(100_000);
            v.extend_from_slice(&[0x00, 0x01, 0x7A]);
            v
        }
        "tiny_msgs_1e5" => [0x00u8, 0x00].repeat(100_000),
        "ready_cmds_1e4" => ready_hdr(&st).repeat(10_000),
        "more_empty_1e4_unterminated" => [0x01u8, 0x00].repeat(10_000),
        "reserved_flags" => vec![0xF8, 0x01, 0x41, 0x80, 0x00, 0x7F, 0x02, 0x41, 0x42],
        "random_16" => r.bytes(16),
        "random_256" => r.bytes(256),
        "random_4096" => r.bytes(4096),
        "random_ff_start" => {
            let mut v = r.bytes(200);
            v[0] = 0xFF;
            v[9] = 0x7F;
            v
        }
        "all_ff_1k" => vec![0xFF; 1024],
        "all_00_1k" => vec![0x00; 1024],
        "all_04_1k" => vec![0x04; 1024],
        "truncated_valid" => {
            let m = rc::message(&[vec![1; 300], vec![2; 10]]);
            m[..m.len() - 5].to_vec()
        }
        "honest_4mib" => rc::message(&[vec![7u8; 4 << 20]]),
        "one_frame_msgs" => rc::message(&[vec![b'x']]).repeat(3),
        "unknown_identity_msgs" => rc::message(&[b"nobody".to_vec(), vec![], b"x".to_vec()]).repeat(3),
        "delimiter_only_msgs" => rc::message(&[vec![]]).repeat(3),
        c if c.starts_with("ready_type_") => {
            let long = vec![b'S'; 300];
            let name: &[u8] = match &c[11..] {
                "stream_lower" => b"stream",
                "empty" => b"",
                "long" => &long,
                n => n.as_bytes(),
            };
            let mut v = rc::command(b"READY", &rc::props(&[(b"Socket-Type", name)]));
            v.extend(rc::message(&[vec![1, 2, 3]]));
            v
        }
        c if c.starts_with("parts_") => {
            let n: usize = c[6..].parse().unwrap_or(2);
            let mut v = [0x01u8, 0x00].repeat(n - 1);
            v.extend_from_slice(&[0x00, 0x01, 0x21]); // last frame, no MORE
            v.extend(rc::message(&[vec![9, 9]]));
            v
        }
        c if c.starts_with("greeting_") => {
            let rnd = r.bytes(20);
            let (ver, mech, as_server): ((u8, u8), &[u8], u8) = match c {
                "greeting_plain" => ((3, 0), b"PLAIN", 0),
                "greeting_curve" => ((3, 0), b"CURVE", 0),
                "greeting_gssapi" => ((3, 1), b"GSSAPI", 0),
                "greeting_mech_random" => ((3, 0), &rnd, 0),
                "greeting_curve_as_server" => ((3, 0), b"CURVE", 1),
                "greeting_version_3_9" => ((3, 9), b"NULL", 0),
                _ => ((255, 255), b"NULL", 1),
            };
            let mut v = rc::greeting_with(ver, mech, 0xFF, 0x7F, as_server);
            v.extend(rc::ready(peer_ty.as_bytes(), Some(b"m")));
            v.extend(rc::message(&[vec![1, 2, 3]]));
            v
        }
        _ => vec![],
    }
}

/// Bytes a peer sends before turning hostile.
/// 0: nothing; 1: part of a valid greeting; 2: greeting; 3: greeting + READY.
fn stage_prefix(stage: u64, sub: u64, peer_ty: &str) -> Vec<u8> {
    let g = rc::greeting();
    match stage {
        0 => vec![],
        1 => {
            let ks = [1usize, 9, 10, 11, 12, 32, 63];
            g[..ks[(sub as usize) % ks.len()]].to_vec()
        }
        2 => g,
        _ => rc::handshake(peer_ty, Some(b"hostile")),
    }
}

// ------------------------------------------------------------ child side

struct UnitOut {
    evals: u64,
    nontrivial: u64,
    counters: std::collections::BTreeMap<String, u64>,
    maxima: std::collections::BTreeMap<String, u64>,
    violations: Vec<Value>,
    inconclusive: Vec<String>,
}

impl UnitOut {
    fn new() -> Self {
        UnitOut {
            evals: 0,
            nontrivial: 0,
            counters: Default::default(),
            maxima: Default::default(),
            violations: vec![],
            inconclusive: vec![],
        }
    }
    fn count(&mut self, k: &str) {
        *self.counters.entry(k.into()).or_insert(0) += 1;
    }
    fn max(&mut self, k: &str, v: u64) {
        let e = self.maxima.entry(k.into()).or_insert(0);
        *e = (*e).max(v);
    }
    fn violation(&mut self, sig: String, msg: String, case: Value) {
        if self.violations.len() < 50 {
            self.violations.push(json!({"signature": sig, "message": msg, "case": case}));
        }
    }
    fn to_json(&self) -> Value {
        json!({"evals": self.evals, "nontrivial": self.nontrivial, "counters": self.counters,
               "maxima": self.maxima, "violations": self.violations, "inconclusive": self.inconclusive})
    }
}

#[cfg(feature = "heapmon")]
fn heap_start() {
    crate::heap::start();
}
#[cfg(feature = "heapmon")]
fn heap_stop() -> Option<(i64, usize)> {
    let s = crate::heap::stop();
    Some((s.peak, s.largest))
}
#[cfg(not(feature = "heapmon"))]
fn heap_start() {}
#[cfg(not(feature = "heapmon"))]
fn heap_stop() -> Option<(i64, usize)> {
    None
}

fn judge_heap(out: &mut UnitOut, site: &str, fed: usize, heap: Option<(i64, usize)>, case: &Value) {
    let Some((peak, largest)) = heap else { return };
    let bound = FIXED + FACTOR * fed as i64;
    out.max("peak_heap_bytes", peak.max(0) as u64);
    if fed > 0 {
        out.max("peak_minus_fixed_per_byte_x100", ((peak - FIXED).max(0) as u64) * 100 / fed as u64);
    }
    if peak > bound || largest as i64 > bound {
        out.violation(
            format!("C03/allocation/{site}"),
            format!(
                "{fed} bytes received, peak heap {peak} bytes, largest single request {largest} bytes (bound {bound})"
            ),
            case.clone(),
        );
    }
}

/// codec level: decoder driven like FramedRead drives it.
fn codec_stream(out: &mut UnitOut, prefix: &[u8], bytes: &[u8], chunk: usize, class: &str, case: &Value) {
    out.evals += 1;
    out.nontrivial += 1;
    let mut d = LibDecoder::new();
    let pre = d.feed(prefix);
    let _ = pre;
    heap_start();
    let res = catch_unwind(AssertUnwindSafe(|| {
        let mut n_items = 0usize;
        let mut biggest_msg = 0usize;
        for c in bytes.chunks(chunk.max(1)) {
            for it in d.feed(c) {
                n_items += 1;
                if let LItem::Message(f) = &it {
                    biggest_msg = biggest_msg.max(f.len());
                }
            }
            if d.failed.is_some() {
                break;
            }
        }
        (n_items, biggest_msg)
    }));
    let heap = heap_stop();
    match res {
        Err(_) => {
            let (loc, msg) = crate::take_last_panic().unwrap_or_default();
            out.violation(
                format!("C03/panic/codec/{}", crate::panic_site(&loc)),
                format!("decoder panicked at {loc}: {msg} (class {class})"),
                case.clone(),
            );
        }
        Ok((n_items, biggest)) => {
            if d.failed.is_some() {
                out.count("codec_errors_returned");
            } else if n_items > 0 {
                out.count("codec_items_delivered");
            } else {
                out.count("codec_waiting_for_more");
            }
            if biggest > 1000 {
                out.count("multipart_over_1000_frames");
            }
            judge_heap(out, &format!("codec/{}", class_family(class)), bytes.len(), heap, case);
        }
    }
}

fn class_family(class: &str) -> &str {
    if class.starts_with("size_") {
        "declared-size"
    } else if class.starts_with("more_") || class.starts_with("tiny_") || class.starts_with("ready_cmds") {
        "many-small-frames"
    } else if class.starts_with("cmd_") || class.starts_with("ready_") {
        "malformed-command"
    } else if class == "exh" {
        "exhaustive"
    } else {
        "other"
    }
}

fn exhaustive_unit(out: &mut UnitOut, p0: usize, p1: usize, maxlen: usize, single: Option<&[u8]>) {
    let g = rc::greeting();
    if let Some(sv) = single {
        codec_stream(out, &g, sv, usize::MAX, "exh", &json!({"kind": "stream", "level": "codec", "stage": 2, "hex": rc::hex(sv)}));
        return;
    }
    // all streams ALPHA[p0] ALPHA[p1] w, |w| <= maxlen-2 (plus the 1- and 2-byte prefixes once)
    let mut streams: Vec<Vec<u8>> = vec![vec![ALPHA[p0], ALPHA[p1]]];
    if p1 == 0 {
        streams.push(vec![ALPHA[p0]]);
    }
    let mut cur = vec![0usize; maxlen - 2];
    for len in 1..=maxlen - 2 {
        for c in cur.iter_mut() {
            *c = 0;
        }
        'o: loop {
            let mut sv = vec![ALPHA[p0], ALPHA[p1]];
            sv.extend(cur.iter().take(len).map(|i| ALPHA[*i]));
            streams.push(sv);
            let mut k = len;
            loop {
                if k == 0 {
                    break 'o;
                }
                k -= 1;
                cur[k] += 1;
                if cur[k] < ALPHA.len() {
                    break;
                }
                cur[k] = 0;
            }
        }
    }
    for sv in streams {
        let case = json!({"kind": "stream", "level": "codec", "stage": 2, "hex": rc::hex(&sv)});
        let before = out.violations.len();
        codec_stream(out, &g, &sv, usize::MAX, "exh", &case);
        if sv.first() == Some(&0x04) || sv.first() == Some(&0x05) {
            out.count("reached_command_parser");
        }
        out.count("exhaustive_streams");
        if out.violations.len() > before && out.violations.len() >= 40 {
            break;
        }
    }
}

async fn socket_stream(out: &mut UnitOut, ty: &str, stage: u64, sub: u64, class: &str, seed: u64, variant: &str, case: &Value) {
    out.evals += 1;
    if stage >= 2 {
        out.nontrivial += 1;
    }
    let peer_ty = peer_type_for(ty);
    let mut sock = Sock::new(ty, None);
    if ty == "SUB" {
        // non-empty subscription set: the socket writes after the handshake
        let _ = sim::complete(sock.subscribe("a")).await;
        let _ = sim::complete(sock.subscribe("bb")).await;
    }
    let prefix = stage_prefix(stage, sub, peer_ty);
    let bytes = hostile(class, peer_ty, seed);
    let (conn, r, w) = Conn::new();
    match variant {
        "fail_writes_after_ready" => {
            // learn the library's handshake length from a healthy attach
            let probe = crate::sock::Peer::attach(&Sock::new(ty, None), peer_ty, None).await;
            if let Ok(p) = probe {
                conn.fail_writes_after(p.hs_len, WriteFail::BrokenPipe);
            }
        }
        "fail_writes_at_once" => conn.fail_writes(WriteFail::ConnectionReset),
        _ => {}
    }
    conn.feed(&prefix);
    let mut att = Managed::new(attach_future(sock.backend(), r, w));
    let _ = att.drive().await;
    heap_start();
    let fed = bytes.len();
    // delivered in 8 KiB reads by FramedRead anyway; feed in one piece ("one write")
    conn.feed(&bytes);
    let mut attached = None;
    if !att.done() {
        if let Ok(Some(r)) = att.drive().await {
            attached = Some(r);
        }
    }
    if !att.done() {
        // hostile peer goes silent mid-handshake: leave it pending, later drop
        out.count("handshake_left_pending");
    }
    match &attached {
        Some(Ok(_)) => out.count("handshake_completed_on_hostile_bytes"),
        Some(Err(_)) => out.count("handshake_rejected"),
        None => {}
    }
    // stage 3: the peer is registered; exercise the read side
    if sock.can_recv() && ty != "REQ" {
        for _ in 0..6 {
            match recv_now(&mut sock).await {
                Some(Ok(_)) => out.count("recv_delivered"),
                Some(Err(_)) => out.count("recv_error"),
                None => break,
            }
        }
    } else if ty == "REQ" && stage == 3 {
        if let Ok(Ok(())) = sim::complete(sock.send(&[b"q".to_vec()])).await {
            match recv_now(&mut sock).await {
                Some(Ok(_)) => out.count("recv_delivered"),
                Some(Err(_)) => out.count("recv_error"),
                None => {}
            }
        }
    } else {
        sim::settle().await;
    }
    if ty == "PUB" || ty == "XPUB" || ty == "PUSH" || ty == "DEALER" {
        // a send while the hostile connection is (possibly) still registered
        let _ = sim::complete(sock.send(&[b"a-topic".to_vec()])).await;
    }
    let heap = heap_stop();
    judge_heap(out, &format!("socket/{ty}/{}", class_family(class)), fed, heap, case);
    drop(att);
    // the connection now ends (REQ would otherwise wait for it forever)
    conn.close_full(EndKind::Eof);
    sim::settle().await;
    if ty == "REQ" {
        // a request to the hostile peer may still be outstanding: REQ rightly
        // refuses to send until that recv has been made (it ends with an error)
        let _ = recv_now(&mut sock).await;
    }
    match healthy_exchange(&mut sock, 7).await {
        Ok(_) => out.count("healthy_exchange_ok"),
        Err(e) => out.violation(
            format!("C03/other-connections-broken/{ty}"),
            format!("after hostile stream {class} at stage {stage}: {e}"),
            case.clone(),
        ),
    }
}

fn run_unit(unit: &Value, out: &mut UnitOut) {
    let _ = crate::take_last_panic();
    run_unit_inner(unit, out);
    // a panic inside a task the library spawned is swallowed by the runtime:
    // the panic hook still saw it
    if let Some((loc, msg)) = crate::take_last_panic() {
        if !crate::is_harness_location(&loc) {
            out.violation(
                format!("C03/panic/task/{}", crate::panic_site(&loc)),
                format!("a library task panicked at {loc}: {msg}"),
                unit.clone(),
            );
        }
    }
}

fn run_unit_inner(unit: &Value, out: &mut UnitOut) {
    let level = s(unit, "level");
    let class = s(unit, "class").to_string();
    let seed = u(unit, "seed");
    match (s(unit, "kind"), level) {
        ("exh", _) => exhaustive_unit(out, u(unit, "p0") as usize, u(unit, "p1") as usize, u(unit, "maxlen") as usize, None),
        ("stream", "codec") if unit.get("hex").is_some() => {
            let b = rc::unhex(s(unit, "hex"));
            exhaustive_unit(out, 0, 0, 0, Some(&b));
        }
        ("stream", "codec") => {
            let stage = u(unit, "stage");
            let sub = u(unit, "sub");
            let prefix = stage_prefix(stage, sub, "DEALER");
            let bytes = hostile(&class, "DEALER", seed);
            let chunk = match u(unit, "chunk") {
                0 => usize::MAX,
                c => c as usize,
            };
            out.count(&format!("codec_stage{stage}"));
            out.count(&format!("class/{}", class_family(&class)));
            if class.starts_with("size_") {
                out.count("reached_long_size_path");
            }
            codec_stream(out, &prefix, &bytes, chunk, &class, unit);
        }
        ("stream", "socket") => {
            let ty = s(unit, "ty").to_string();
            let stage = u(unit, "stage");
            out.count(&format!("socket_stage{stage}"));
            out.count(&format!("socket_type/{ty}"));
            out.count(&format!("class/{}", class_family(&class)));
            let variant = s(unit, "variant").to_string();
            let r = catch_unwind(AssertUnwindSafe(|| {
                sim::run(socket_stream(out, &ty, stage, u(unit, "sub"), &class, seed, &variant, unit))
            }));
            if r.is_err() {
                let _ = heap_stop();
                let (loc, msg) = crate::take_last_panic().unwrap_or_default();
                if crate::is_harness_location(&loc) {
                    out.inconclusive.push(format!("harness panic at {loc}: {msg}"));
                } else {
                    out.violation(
                        format!("C03/panic/socket/{ty}/{}", crate::panic_site(&loc)),
                        format!("{ty} socket: panic at {loc}: {msg} (class {class}, stage {stage}, variant {variant:?})"),
                        unit.clone(),
                    );
                }
            }
        }
        ("stream", "proxy") => {
            // the built-in proxy forwards whatever a peer of either side sends: peer bytes must
            // not panic it (it may end with an error)
            let side = s(unit, "side").to_string();
            out.count(&format!("proxy_side/{side}"));
            out.count(&format!("class/{}", class_family(&class)));
            let r = catch_unwind(AssertUnwindSafe(|| sim::run(proxy_stream(out, &side, &class, seed))));
            if r.is_err() {
                let (loc, msg) = crate::take_last_panic().unwrap_or_default();
                if crate::is_harness_location(&loc) {
                    out.inconclusive.push(format!("harness panic at {loc}: {msg}"));
                } else {
                    out.violation(
                        format!("C03/panic/proxy/{side}/{}", crate::panic_site(&loc)),
                        format!("proxy(ROUTER, DEALER): bytes of a {side}-side peer (class {class}, after a valid handshake) panic the proxy at {loc}: {msg}"),
                        unit.clone(),
                    );
                }
            }
        }
        _ => out.inconclusive.push(format!("unknown unit {unit}")),
    }
}

async fn proxy_stream(out: &mut UnitOut, side: &str, class: &str, seed: u64) {
    use zeromq::{DealerSocket, RouterSocket, Socket};
    let router = RouterSocket::new();
    let dealer = DealerSocket::new();
    let (fb, bb) = (router.backend(), dealer.backend());
    // one well-behaved peer on each side, and the hostile one
    let front = crate::sock::Peer::attach_backend(fb.clone(), "DEALER", Some(b"front-good")).await;
    let back = crate::sock::Peer::attach_backend(bb.clone(), "DEALER", Some(b"back-good")).await;
    let (peer_ty, backend) = match side {
        "front" => ("DEALER", fb),
        _ => ("REP", bb),
    };
    let bad = match crate::sock::Peer::attach_backend(backend, peer_ty, Some(b"hostile")).await {
        Ok(p) => p,
        Err(e) => {
            out.inconclusive.push(format!("C03 proxy attach: {e}"));
            return;
        }
    };
    let mut px = Managed::new(zeromq::proxy(router, dealer, None));
    let bytes = hostile(class, peer_ty, seed);
    let bytes = if bytes.len() > 300_000 { &bytes[..300_000] } else { &bytes[..] };
    bad.conn.feed(bytes);
    for _ in 0..2000 {
        if let std::task::Poll::Ready(_) = px.poll_once() {
            out.count("proxy_ended_with_a_result");
            break;
        }
        sim::settle().await;
        if !px.woken() {
            break;
        }
    }
    out.evals += 1;
    out.nontrivial += 1;
    out.count("proxy_streams");
    let _ = (front, back);
}

/// `zmqmon child c03 <units.json>`: prints `START i` / `END i <json>` lines.
pub fn child(args: &[String]) -> i32 {
    let path = match args.first() {
        Some(p) => p,
        None => return 2,
    };
    let units: Vec<Value> = match std::fs::read(path).ok().and_then(|b| serde_json::from_slice(&b).ok()) {
        Some(v) => v,
        None => return 2,
    };
    let stack = std::env::var("C03_STACK")
        .ok()
        .and_then(|x| x.parse().ok())
        .unwrap_or(2usize << 20);
    let h = std::thread::Builder::new()
        .name("c03".into())
        .stack_size(stack)
        .spawn(move || {
            let stdout = std::io::stdout();
            for (i, unit) in units.iter().enumerate() {
                {
                    let mut o = stdout.lock();
                    let _ = writeln!(o, "START {i}");
                    let _ = o.flush();
                }
                let mut out = UnitOut::new();
                run_unit(unit, &mut out);
                let mut o = stdout.lock();
                let _ = writeln!(o, "END {i} {}", out.to_json());
                let _ = o.flush();
            }
        })
        .expect("spawn");
    match h.join() {
        Ok(()) => 0,
        Err(_) => 101,
    }
}

// ------------------------------------------------------------ parent side

fn merge_unit(ctx: &mut Ctx, v: &Value) {
    ctx.eval_bulk(u(v, "evals"), u(v, "nontrivial"));
    if let Some(c) = v["counters"].as_object() {
        for (k, n) in c {
            ctx.add(k, n.as_u64().unwrap_or(0));
        }
    }
    if let Some(c) = v["maxima"].as_object() {
        for (k, n) in c {
            ctx.max(k, n.as_u64().unwrap_or(0));
        }
    }
    for viol in v["violations"].as_array().cloned().unwrap_or_default() {
        ctx.violation_with(s(&viol, "signature"), s(&viol, "message").to_string(), viol["case"].clone());
    }
    for i in v["inconclusive"].as_array().cloned().unwrap_or_default() {
        ctx.inconclusive(i.as_str().unwrap_or("").to_string());
    }
}

fn unit_site(unit: &Value) -> String {
    match s(unit, "level") {
        "socket" => format!("socket/{}/{}", s(unit, "ty"), class_family(s(unit, "class"))),
        _ if s(unit, "kind") == "exh" => "codec/exhaustive".into(),
        _ => format!("codec/{}", class_family(s(unit, "class"))),
    }
}

/// Run units in a child; on a crash, name the unit, then continue after it.
fn run_units_in_child(ctx: &mut Ctx, units: &[Value], depth: u32) {
    if units.is_empty() {
        return;
    }
    let dir = std::path::Path::new("/verif/.work");
    let _ = std::fs::create_dir_all(dir);
    let path = dir.join(format!(
        "c03-units-{}-{:x}.json",
        std::process::id(),
        hash_bytes(serde_json::to_string(units).unwrap_or_default().as_bytes())
    ));
    if std::fs::write(&path, serde_json::to_vec(units).unwrap()).is_err() {
        ctx.inconclusive("cannot write C03 unit file".into());
        return;
    }
    let exe = std::env::current_exe().expect("current_exe");
    let mut child = match Command::new(exe)
        .args(["child", "c03", path.to_str().unwrap()])
        .env("RUST_BACKTRACE", "0")
        .stdout(Stdio::piped())
        .stderr(Stdio::piped())
        .spawn()
    {
        Ok(c) => c,
        Err(e) => {
            ctx.inconclusive(format!("cannot spawn child: {e}"));
            return;
        }
    };
    let stdout = child.stdout.take().unwrap();
    let mut stderr = child.stderr.take().unwrap();
    let errt = std::thread::spawn(move || {
        let mut sbuf = String::new();
        let _ = std::io::Read::read_to_string(&mut stderr, &mut sbuf);
        sbuf
    });
    // watchdog thread kills a child that stops making progress
    let pid = child.id();
    let progress = std::sync::Arc::new(std::sync::Mutex::new(Instant::now()));
    let done = std::sync::Arc::new(std::sync::atomic::AtomicBool::new(false));
    let (p2, d2) = (progress.clone(), done.clone());
    let killed = std::sync::Arc::new(std::sync::atomic::AtomicBool::new(false));
    let k2 = killed.clone();
    let wd = std::thread::spawn(move || {
        while !d2.load(std::sync::atomic::Ordering::SeqCst) {
            std::thread::sleep(Duration::from_millis(100));
            if p2.lock().unwrap().elapsed() > Duration::from_secs(120) {
                k2.store(true, std::sync::atomic::Ordering::SeqCst);
                // SAFETY-free: use the kill(1) command to avoid libc
                let _ = Command::new("kill").args(["-9", &pid.to_string()]).status();
                break;
            }
        }
    });
    let mut started: Option<usize> = None;
    let mut finished = 0usize;
    for line in BufReader::new(stdout).lines() {
        let Ok(line) = line else { break };
        *progress.lock().unwrap() = Instant::now();
        if let Some(rest) = line.strip_prefix("START ") {
            started = rest.trim().parse().ok();
        } else if let Some(rest) = line.strip_prefix("END ") {
            if let Some((i, js)) = rest.split_once(' ') {
                if let (Ok(i), Ok(v)) = (i.parse::<usize>(), serde_json::from_str::<Value>(js)) {
                    merge_unit(ctx, &v);
                    finished = i + 1;
                    started = None;
                }
            }
        }
    }
    let status = child.wait();
    done.store(true, std::sync::atomic::Ordering::SeqCst);
    let _ = wd.join();
    let errtext = errt.join().unwrap_or_default();
    let _ = std::fs::remove_file(&path);
    let ok = matches!(&status, Ok(st) if st.success());
    if ok && finished == units.len() {
        return;
    }
    // abnormal end: the unit that was started and never finished is the culprit
    let culprit = started.unwrap_or(finished).min(units.len() - 1);
    let unit = &units[culprit];
    if killed.load(std::sync::atomic::Ordering::SeqCst) {
        ctx.inconclusive(format!(
            "C03 child made no progress for 120 s in unit {unit} (non-termination is not judged by C03)"
        ));
    } else if s(unit, "kind") == "exh" && depth == 0 {
        // narrow an exhaustive unit down to the stream: rerun its streams one per unit
        let p0 = u(unit, "p0") as usize;
        let p1 = u(unit, "p1") as usize;
        let maxlen = u(unit, "maxlen") as usize;
        let mut singles = Vec::new();
        let mut cur = vec![0usize; maxlen - 2];
        for len in 0..=maxlen - 2 {
            for c in cur.iter_mut() {
                *c = 0;
            }
            'o: loop {
                let mut sv = vec![ALPHA[p0], ALPHA[p1]];
                sv.extend(cur.iter().take(len).map(|i| ALPHA[*i]));
                singles.push(json!({"kind": "stream", "level": "codec", "stage": 2, "hex": rc::hex(&sv)}));
                let mut k = len;
                loop {
                    if k == 0 {
                        break 'o;
                    }
                    k -= 1;
                    cur[k] += 1;
                    if cur[k] < ALPHA.len() {
                        break;
                    }
                    cur[k] = 0;
                }
            }
        }
        run_units_in_child(ctx, &singles, depth + 1);
    } else {
        let how = if errtext.contains("overflowed its stack") {
            "stack-overflow"
        } else if errtext.contains("memory allocation of") {
            "allocation-abort"
        } else {
            "abnormal-exit"
        };
        let tail: String = errtext.lines().rev().take(4).collect::<Vec<_>>().join(" | ");
        ctx.violation_with(
            &format!("C03/crash/{how}/{}", unit_site(unit)),
            format!("child process died ({status:?}) while running this stream: {tail}"),
            unit.clone(),
        );
        ctx.count(&format!("crash_{how}"));
    }
    // continue with the units after the culprit
    if depth < 64 {
        run_units_in_child(ctx, &units[culprit + 1..], depth + 1);
    }
}

/// "Other connections of the same socket keep working", over the real accept path: a peer
/// sends a hostile or merely incomplete prefix and keeps its connection open; a healthy
/// peer that connects afterwards is served.
async fn rig_hostile_stays_open(ty: &str, transport: &str, class: &str, stage: u64) -> Result<u64, (String, String)> {
    use super::c18::{exchange, ConnRec};
    use crate::rig::{self, Raw, WAIT};
    let inc = |e: String| ("inconclusive".to_string(), e);
    let mut sock = Sock::new(ty, None);
    // half of the cases: the application once asked for a monitor and dropped the receiver
    let monitor_dropped = (stage + class.len() as u64) % 2 == 0;
    if monitor_dropped {
        drop(sock.monitor());
    }
    let ep = sock.bind(&rig::bind_endpoint(transport)).await.map_err(inc)?;
    let peer_ty = peer_type_for(ty);
    let mut bytes = stage_prefix(stage, 2, peer_ty);
    bytes.extend(hostile(class, peer_ty, 7));
    bytes.truncate(70_000);
    let mut bad = Raw::connect(&ep).await.map_err(|e| inc(e.to_string()))?;
    let _ = bad.write_all(&bytes).await;
    tokio::time::sleep(std::time::Duration::from_millis(15)).await;
    let mut good = ConnRec { raw: Raw::connect(&ep).await.map_err(|e| inc(e.to_string()))?, id: b"good".to_vec(), ep: ep.clone() };
    let served = async {
        good.raw.handshake(peer_ty, Some(b"good")).await?;
        if ty == "PUB" {
            let _ = good.raw.send_msg(&[vec![1u8]]).await;
        }
        tokio::time::sleep(std::time::Duration::from_millis(15)).await;
        exchange(&mut sock, &mut good, 1).await
    }
    .await;
    drop(bad);
    let _ = tokio::time::timeout(WAIT, sock.close()).await;
    match served {
        Ok(()) => Ok(1),
        Err(e) => {
            if rig::canary_ok().await {
                Err((
                    format!("C03/rig/other-connection-not-served/{transport}"),
                    format!("{ty} bound on {transport} (monitor receiver dropped by the application: {monitor_dropped}): a peer sent {} bytes (stage {stage}, class {class}) and kept its connection open; a healthy {peer_ty} peer connecting afterwards: {e}", bytes.len()),
                ))
            } else {
                Err(inc(format!("healthy peer not served while the canary was slow: {e}")))
            }
        }
    }
}

/// Child process for one open-hostile-connection case: a deadlock inside the library (a
/// thread parked on a lock for good) cannot be timed out from inside the same runtime.
pub fn child_rig_open(args: &[String]) -> i32 {
    let g = |i: usize| args.get(i).cloned().unwrap_or_default();
    let stage: u64 = g(3).parse().unwrap_or(0);
    let (res, _) = crate::rig::run(2, rig_hostile_stays_open(&g(0), &g(1), &g(2), stage));
    match res {
        Ok(n) => println!("RIGOPEN {}", json!({"served": n})),
        Err((sig, msg)) => println!("RIGOPEN {}", json!({"sig": sig, "msg": msg})),
    }
    0
}

fn rig_open_case(ctx: &mut Ctx, case: &Value) {
    use std::io::Read;
    let exe = std::env::current_exe().expect("current_exe");
    let mut child = match Command::new(exe)
        .args(["child", "c03open", s(case, "ty"), s(case, "transport"), s(case, "class"), &u(case, "stage").to_string()])
        .stdout(Stdio::piped())
        .stderr(Stdio::null())
        .spawn()
    {
        Ok(c) => c,
        Err(e) => {
            ctx.inconclusive(format!("C03 rig: cannot run child: {e}"));
            return;
        }
    };
    let t0 = std::time::Instant::now();
    let finished = loop {
        match child.try_wait() {
            Ok(Some(_)) => break true,
            Ok(None) if t0.elapsed() > std::time::Duration::from_secs(40) => break false,
            Ok(None) => std::thread::sleep(std::time::Duration::from_millis(20)),
            Err(_) => break false,
        }
    };
    if !finished {
        let _ = child.kill();
        let _ = child.wait();
        ctx.violation_with(
            &format!("C03/rig/other-connection-not-served/{}", s(case, "transport")),
            format!(
                "{} bound on {}: a peer sent hostile/incomplete bytes (stage {}, class '{}') and kept its connection open; the process then stopped responding altogether (no result within 40 s: every runtime thread is stuck)",
                s(case, "ty"), s(case, "transport"), u(case, "stage"), s(case, "class")
            ),
            case.clone(),
        );
        return;
    }
    let mut text = String::new();
    if let Some(mut o) = child.stdout.take() {
        let _ = o.read_to_string(&mut text);
    }
    let Some(line) = text.lines().find(|l| l.starts_with("RIGOPEN ")) else {
        ctx.inconclusive(format!("C03 rig open: no result ({})", text.lines().last().unwrap_or("")));
        return;
    };
    let v: Value = serde_json::from_str(&line["RIGOPEN ".len()..]).unwrap_or(Value::Null);
    if let Some(n) = v["served"].as_u64() {
        ctx.add("rig_healthy_peers_served_beside_an_open_hostile_connection", n);
    } else if s(&v, "sig") == "inconclusive" {
        ctx.inconclusive(format!("C03 rig: {}", s(&v, "msg")));
    } else {
        ctx.violation_with(s(&v, "sig"), s(&v, "msg").to_string(), case.clone());
    }
}

impl Prop for C03 {
    fn id(&self) -> &'static str {
        "C03"
    }

    fn cases(&self, tier: Tier, seed: u64) -> Vec<Value> {
        let mut groups: Vec<Value> = Vec::new();
        // exhaustive alphabet after a valid greeting (codec level)
        let maxlen = tier.pick(6, 7);
        for p0 in 0..ALPHA.len() {
            let units: Vec<Value> = (0..ALPHA.len())
                .map(|p1| json!({"kind": "exh", "level": "codec", "p0": p0, "p1": p1, "maxlen": maxlen}))
                .collect();
            groups.push(json!({"kind": "group", "units": units}));
        }
        // structured classes, codec level, every stage, one write and 1-byte / 7-byte reads
        let seeds: Vec<u64> = (0..tier.pick(2, 8)).map(|i| seed.wrapping_mul(1000).wrapping_add(i)).collect();
        let mut units = Vec::new();
        for class in CLASSES {
            let big = hostile(class, "DEALER", 0).len() > 100_000;
            for stage in 0..4u64 {
                let subs: &[u64] = if stage == 1 { &[0, 1, 2, 3, 4, 5, 6] } else { &[0] };
                for sub in subs {
                    let chunks: &[u64] = if big { &[0] } else { &[0, 1, 7] };
                    for chunk in chunks {
                        let ss: &[u64] = if class.starts_with("random") { &seeds } else { &seeds[..1] };
                        for sd in ss {
                            units.push(json!({"kind": "stream", "level": "codec", "class": class, "stage": stage,
                                              "sub": sub, "chunk": chunk, "seed": sd}));
                        }
                    }
                }
            }
        }
        for chunk in units.chunks(40) {
            groups.push(json!({"kind": "group", "units": chunk}));
        }
        // socket level: every type x stage x class
        let mut units = Vec::new();
        for ty in ALL_TYPES {
            for class in CLASSES {
                let heavy = matches!(*class, "more_empty_1e6" | "more_1byte_1e5" | "tiny_msgs_1e5" | "honest_4mib");
                for stage in 0..4u64 {
                    if heavy && stage != 3 && tier == Tier::Quick {
                        continue;
                    }
                    let subs: &[u64] = if stage == 1 { tier.pick(&[1, 4], &[0, 1, 2, 3, 4, 5, 6]) } else { &[0] };
                    for sub in subs {
                        let ss: &[u64] = if class.starts_with("random") { &seeds } else { &seeds[..1] };
                        for sd in ss {
                            units.push(json!({"kind": "stream", "level": "socket", "ty": ty, "class": class,
                                              "stage": stage, "sub": sub, "seed": sd, "variant": ""}));
                        }
                    }
                }
            }
            // write-failure variants (hostile peer that also refuses the socket's writes)
            for variant in ["fail_writes_after_ready", "fail_writes_at_once"] {
                for class in ["ready_then_ready", "random_16", "cmd_size0", "truncated_valid"] {
                    for stage in [2u64, 3] {
                        units.push(json!({"kind": "stream", "level": "socket", "ty": ty, "class": class,
                                          "stage": stage, "sub": 0, "seed": seeds[0], "variant": variant}));
                    }
                }
            }
        }
        // the built-in proxy as the consumer of a peer's bytes, either side
        for side in ["front", "back"] {
            for class in CLASSES {
                if hostile(class, "DEALER", 0).len() > 400_000 {
                    continue;
                }
                units.push(json!({"kind": "stream", "level": "proxy", "side": side, "class": class, "seed": seeds[0]}));
            }
            for extra in ["one_frame_msgs", "unknown_identity_msgs", "delimiter_only_msgs"] {
                units.push(json!({"kind": "stream", "level": "proxy", "side": side, "class": extra, "seed": seeds[0]}));
            }
        }
        for chunk in units.chunks(25) {
            groups.push(json!({"kind": "group", "units": chunk}));
        }
        // real accept path: the hostile / incomplete connection stays open
        for ty in ["PULL", "REP", "ROUTER", "PUB"] {
            for transport in ["tcp4", "ipc"] {
                for (class, stage) in [("", 0u64), ("", 1), ("", 2), ("size_2p40_cmd", 2), ("size_2p62", 2), ("truncated_valid", 3), ("more_empty_1e4_unterminated", 3), ("ready_value_len_truncated", 2),
                                       ("random_16", 0), ("all_00_1k", 0), ("cmd_unknown_name", 2), ("random_256", 2), ("greeting_gssapi", 0)] {
                    groups.push(json!({"kind": "rig_open", "ty": ty, "transport": transport, "class": class, "stage": stage}));
                }
            }
        }
        groups
    }

    fn run(&self, case: &Value, ctx: &mut Ctx) {
        match s(case, "kind") {
            "group" => {
                let units = case["units"].as_array().cloned().unwrap_or_default();
                ctx.sample("unit", || units.first().cloned().unwrap_or(Value::Null));
                run_units_in_child(ctx, &units, 0);
            }
            "stream" | "exh" => run_units_in_child(ctx, std::slice::from_ref(case), 0),
            "rig_open" => {
                ctx.eval(hash_str(&case.to_string()), true);
                ctx.sample("rig_open", || case.clone());
                rig_open_case(ctx, case);
            }
            "inproc" => {
                // sanitizer legs: same units, in this process (the sanitizer is the crash oracle)
                for unit in case["units"].as_array().cloned().unwrap_or_default() {
                    let mut out = UnitOut::new();
                    run_unit(&unit, &mut out);
                    merge_unit(ctx, &out.to_json());
                }
            }
            _ => ctx.inconclusive(format!("unknown case {case}")),
        }
    }

    fn sanitizer_cases(&self, seed: u64) -> Vec<Value> {
        let mut units = Vec::new();
        // exhaustive alphabet to length 3 after the greeting (1110 streams), codec level
        for p0 in 0..ALPHA.len() {
            for p1 in 0..ALPHA.len() {
                units.push(json!({"kind": "exh", "level": "codec", "p0": p0, "p1": p1, "maxlen": 3}));
            }
        }
        for class in CLASSES {
            if hostile(class, "DEALER", 0).len() > 5000 {
                continue;
            }
            for stage in [0u64, 2, 3] {
                units.push(json!({"kind": "stream", "level": "codec", "class": class, "stage": stage, "sub": 0, "chunk": if stage == 3 { 1 } else { 0 }, "seed": seed}));
            }
        }
        for ty in ["PULL", "REP", "PUB", "SUB", "REQ"] {
            for class in ["cmd_size0", "ready_value_len_ffffffff", "size_2p40", "more_empty_1e3", "random_256", "truncated_valid"] {
                units.push(json!({"kind": "stream", "level": "socket", "ty": ty, "class": class, "stage": 3, "sub": 0, "seed": seed, "variant": ""}));
            }
            units.push(json!({"kind": "stream", "level": "socket", "ty": ty, "class": "ready_then_ready", "stage": 2, "sub": 0, "seed": seed, "variant": "fail_writes_after_ready"}));
        }
        vec![json!({"kind": "inproc", "units": units})]
    }

    fn floors(&self, tier: Tier) -> Vec<(&'static str, u64)> {
        vec![
            ("exhaustive_streams", tier.pick(1_000_000, 10_000_000)),
            ("rig_healthy_peers_served_beside_an_open_hostile_connection", 50),
            ("proxy_streams", 100),
            ("reached_command_parser", 10_000),
            ("reached_long_size_path", 40),
            ("multipart_over_1000_frames", 4),
            ("codec_stage0", 40),
            ("codec_stage1", 40),
            ("codec_stage2", 40),
            ("codec_stage3", 40),
            ("socket_stage0", 300),
            ("socket_stage1", 300),
            ("socket_stage2", 300),
            ("socket_stage3", 300),
            ("class/malformed-command", 500),
            ("class/declared-size", 300),
            ("class/many-small-frames", 100),
            ("healthy_exchange_ok", 1000),
            ("codec_errors_returned", 100),
        ]
    }

    fn case_timeout(&self) -> Duration {
        Duration::from_secs(1800)
    }
}
