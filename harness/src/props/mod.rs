//! One workload + oracle module per property.

use crate::Prop;
use std::sync::Arc;

pub mod c19;

pub fn all() -> Vec<Arc<dyn Prop>> {
    vec![Arc::new(c19::C19)]
}

pub fn find(id: &str) -> Option<Arc<dyn Prop>> {
    all().into_iter().find(|p| p.id().eq_ignore_ascii_case(id))
}

/// Entry point of isolated child processes (`zmqmon child <kind> ...`).
pub fn child_main(args: &[String]) -> i32 {
    let _ = args;
    eprintln!("no child kinds yet");
    2
}
