//! One workload + oracle module per property.

use crate::Prop;
use std::sync::Arc;

pub mod c01;
pub mod c02;
pub mod c03;
pub mod c04;
pub mod c05;
pub mod c07;
pub mod c08;
pub mod c09;
pub mod c10;
pub mod c11;
pub mod c12;
pub mod c13;
pub mod c14;
pub mod c15;
pub mod c16;
pub mod c17;
pub mod c18;
pub mod c19;
pub mod c20;
pub mod common;

pub fn all() -> Vec<Arc<dyn Prop>> {
    vec![Arc::new(c01::C01), Arc::new(c02::C02), Arc::new(c03::C03), Arc::new(c04::C04), Arc::new(c05::C05), Arc::new(c05::C06), Arc::new(c07::C07), Arc::new(c08::C08), Arc::new(c09::C09), Arc::new(c10::C10), Arc::new(c11::C11), Arc::new(c12::C12), Arc::new(c13::C13), Arc::new(c14::C14), Arc::new(c15::C15), Arc::new(c16::C16), Arc::new(c17::C17), Arc::new(c18::C18), Arc::new(c19::C19), Arc::new(c20::C20)]
}

pub fn find(id: &str) -> Option<Arc<dyn Prop>> {
    all().into_iter().find(|p| p.id().eq_ignore_ascii_case(id))
}

/// Entry point of isolated child processes (`zmqmon child <kind> ...`).
pub fn child_main(args: &[String]) -> i32 {
    match args.first().map(|s| s.as_str()) {
        Some("c03") => c03::child(&args[1..]),
        Some("busyrecv") => c05::child_busy_recv(&args[1..]),
        Some("fdcycles") => c16::child_fd_cycles(&args[1..]),
        Some("acceptfail") => c18::child_accept_fail(&args[1..]),
        Some("substorm") => c12::child_sub_storm(&args[1..]),
        Some("c03open") => c03::child_rig_open(&args[1..]),
        _ => {
            eprintln!("unknown child kind");
            2
        }
    }
}
