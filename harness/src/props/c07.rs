//! C07 — REQ/REP envelopes are added, preserved and stripped exactly.

use super::common::*;
use crate::prng::hash_str;
use crate::refcodec::{self as rc, Frames};
use crate::report::{Ctx, Tier};
use crate::sim;
use crate::sock::{Peer, Sock};
use crate::Prop;
use serde_json::{json, Value};

pub struct C07;

const SIZES: [usize; 4] = [0, 5, 256, 70_000];
const IDLENS: [usize; 3] = [1, 5, 255];

fn payload_shapes() -> Vec<Vec<usize>> {
    payload_shapes_of(&SIZES)
}

/// further size alphabets walked by the thorough tier
const ALT_SIZES: [[usize; 4]; 3] = [[1, 255, 257, 65_536], [0, 254, 300, 131_072], [2, 256, 1000, 200_000]];

fn payload_shapes_of(sizes: &[usize; 4]) -> Vec<Vec<usize>> {
    let mut v = Vec::new();
    for n in 1..=4u32 {
        for code in 0..4usize.pow(n) {
            let mut c = code;
            let mut shape = Vec::new();
            for _ in 0..n {
                shape.push(sizes[c % 4]);
                c /= 4;
            }
            v.push(shape);
        }
    }
    v
}

fn prefixes() -> Vec<Vec<usize>> {
    let mut v: Vec<Vec<usize>> = vec![vec![]];
    for a in IDLENS {
        v.push(vec![a]);
        for b in IDLENS {
            v.push(vec![a, b]);
            for c in IDLENS {
                v.push(vec![a, b, c]);
            }
        }
    }
    v
}

fn mk(key: u64, lens: &[usize]) -> Frames {
    lens.iter()
        .enumerate()
        .map(|(i, l)| {
            let mut b = body(key, i, *l);
            // identity / payload frames of length > 0 never start with 0 by accident: irrelevant,
            // but keep non-empty frames non-empty
            if let Some(x) = b.first_mut() {
                *x |= 1;
            }
            b
        })
        .collect()
}

async fn rep_case(ctx: &mut Ctx, prefix: &[usize], request: &[usize], reply: &[usize], case: &Value) {
    let mut sock = Sock::new("REP", None);
    let peer = match Peer::attach(&sock, if prefix.is_empty() { "REQ" } else { "DEALER" }, None).await {
        Ok(p) => p,
        Err(e) => {
            ctx.inconclusive(format!("C07 attach: {e}"));
            return;
        }
    };
    let pre = mk(0xE0, prefix);
    let req = mk(0xE1, request);
    let rep = mk(0xE2, reply);
    let mut wire = pre.clone();
    wire.push(vec![]);
    wire.extend(req.clone());
    peer.send(&wire);
    if request.iter().any(|l| *l == 0) {
        ctx.count("payload_with_interior_empty_frame");
    }
    if prefix.len() >= 2 {
        ctx.count("multi_hop_prefix");
    }
    match recv_now(&mut sock).await {
        Some(Ok(m)) if m == req => {}
        other => {
            let got = match &other {
                Some(Ok(m)) => format!("Ok{}", rc::frames_summary(m)),
                Some(Err(e)) => format!("Err({e})"),
                None => "pending".into(),
            };
            ctx.violation_with(
                "C07/rep-recv-not-the-frames-after-the-delimiter",
                format!(
                    "request on the wire {} ; REP.recv returned {got}, expected {}",
                    rc::frames_summary(&wire),
                    rc::frames_summary(&req)
                ),
                case.clone(),
            );
            return;
        }
    }
    match sim::complete(sock.send(&rep)).await {
        Ok(Ok(())) => {}
        other => {
            ctx.violation_with(
                "C07/rep-send-failed",
                format!("REP.send after a received request failed: {other:?}"),
                case.clone(),
            );
            return;
        }
    }
    let mut want = pre.clone();
    want.push(vec![]);
    want.extend(rep.clone());
    match peer.out_msgs() {
        Ok(msgs) if msgs == vec![want.clone()] => {}
        other => {
            ctx.violation_with(
                "C07/rep-reply-envelope",
                format!(
                    "reply on the wire {:?}, expected exactly one message {}",
                    other.map(|ms| ms.iter().map(|m| rc::frames_summary(m)).collect::<Vec<_>>()),
                    rc::frames_summary(&want)
                ),
                case.clone(),
            );
        }
    }
}

async fn req_case(ctx: &mut Ctx, request: &[usize], reply: &[usize], case: &Value) {
    let mut sock = Sock::new("REQ", None);
    let peer = match Peer::attach(&sock, "REP", None).await {
        Ok(p) => p,
        Err(e) => {
            ctx.inconclusive(format!("C07 attach: {e}"));
            return;
        }
    };
    let req = mk(0xE3, request);
    let rep = mk(0xE4, reply);
    match sim::complete(sock.send(&req)).await {
        Ok(Ok(())) => {}
        other => {
            ctx.violation_with("C07/req-send-failed", format!("REQ.send failed: {other:?}"), case.clone());
            return;
        }
    }
    let mut want = vec![vec![]];
    want.extend(req.clone());
    match peer.out_msgs() {
        Ok(msgs) if msgs == vec![want.clone()] => {}
        other => {
            ctx.violation_with(
                "C07/req-request-envelope",
                format!(
                    "request on the wire {:?}, expected exactly [empty] + payload {}",
                    other.map(|ms| ms.iter().map(|m| rc::frames_summary(m)).collect::<Vec<_>>()),
                    rc::frames_summary(&want)
                ),
                case.clone(),
            );
            return;
        }
    }
    let mut wire = vec![vec![]];
    wire.extend(rep.clone());
    peer.send(&wire);
    if reply.iter().any(|l| *l == 0) {
        ctx.count("payload_with_interior_empty_frame");
    }
    match recv_now(&mut sock).await {
        Some(Ok(m)) if m == rep => {}
        other => {
            ctx.violation_with(
                "C07/req-recv-not-reply-minus-delimiter",
                format!(
                    "reply on the wire {} ; REQ.recv returned {other:?}",
                    rc::frames_summary(&wire)
                ),
                case.clone(),
            );
        }
    }
}

/// Several requests through ONE REP socket: the reply envelope must be the one of the
/// request being answered, whatever happened to earlier requests (answered, abandoned by
/// a further recv, requester gone).
async fn rep_two_requests(ctx: &mut Ctx, p1: &[usize], p2: &[usize], first: &str, case: &Value) {
    let mut sock = Sock::new("REP", None);
    let x = match Peer::attach(&sock, "DEALER", Some(b"X")).await {
        Ok(p) => p,
        Err(e) => {
            ctx.inconclusive(format!("C07 attach: {e}"));
            return;
        }
    };
    let y = match Peer::attach(&sock, if p2.is_empty() { "REQ" } else { "DEALER" }, Some(b"Y")).await {
        Ok(p) => p,
        Err(e) => {
            ctx.inconclusive(format!("C07 attach: {e}"));
            return;
        }
    };
    let (pre1, pre2) = (mk(0xF0, p1), mk(0xF1, p2));
    let (req1, req2) = (mk(0xF2, &[5, 0]), mk(0xF3, &[3]));
    let (rep1, rep2) = (mk(0xF4, &[2]), mk(0xF5, &[0, 4]));
    let wire = |pre: &Frames, req: &Frames| {
        let mut w = pre.clone();
        w.push(vec![]);
        w.extend(req.clone());
        w
    };
    x.send(&wire(&pre1, &req1));
    match recv_now(&mut sock).await {
        Some(Ok(m)) if m == req1 => {}
        other => {
            ctx.violation_with("C07/rep-recv-not-the-frames-after-the-delimiter", format!("first request: {other:?}"), case.clone());
            return;
        }
    }
    match first {
        "answered" => {
            if !matches!(sim::complete(sock.send(&rep1)).await, Ok(Ok(()))) {
                ctx.violation_with("C07/rep-send-failed", "first reply failed".into(), case.clone());
                return;
            }
            let mut want = pre1.clone();
            want.push(vec![]);
            want.extend(rep1.clone());
            if x.out_msgs().ok() != Some(vec![want]) {
                ctx.violation_with("C07/rep-reply-envelope", "first reply envelope wrong".into(), case.clone());
                return;
            }
        }
        "requester-gone" => {
            // the requester vanishes; the socket notices while the application polls recv
            x.conn.close_full(crate::pipe::EndKind::Eof);
            let _ = recv_now(&mut sock).await;
            let _ = sim::complete(sock.send(&rep1)).await; // may fail: the client is gone
            ctx.count("rep_requester_gone_before_reply");
        }
        _ => {
            // abandoned: the application just asks for the next request
            ctx.count("rep_request_abandoned");
        }
    }
    y.send(&wire(&pre2, &req2));
    match recv_now(&mut sock).await {
        Some(Ok(m)) if m == req2 => {}
        other => {
            ctx.violation_with(
                "C07/rep-recv-not-the-frames-after-the-delimiter",
                format!("second request (after the first was {first}): {other:?}"),
                case.clone(),
            );
            return;
        }
    }
    match sim::complete(sock.send(&rep2)).await {
        Ok(Ok(())) => {}
        other => {
            ctx.violation_with("C07/rep-send-failed", format!("reply to the second request (first was {first}): {other:?}"), case.clone());
            return;
        }
    }
    let mut want = pre2.clone();
    want.push(vec![]);
    want.extend(rep2.clone());
    match y.out_msgs() {
        Ok(msgs) if msgs == vec![want.clone()] => {}
        other => {
            ctx.violation_with(
                "C07/rep-reply-envelope-of-another-request",
                format!(
                    "first request (prefix {p1:?}) was {first}; reply to the second request (prefix {p2:?}) went out as {:?}, expected {}",
                    other.map(|ms| ms.iter().map(|m| rc::frames_summary(m)).collect::<Vec<_>>()),
                    rc::frames_summary(&want)
                ),
                case.clone(),
            );
            return;
        }
    }
    if first != "answered" && x.out_msgs().map(|m| m.iter().any(|f| f.ends_with(&rep2))).unwrap_or(false) {
        ctx.violation_with("C07/rep-reply-envelope-of-another-request", "the second reply was written to the first requester".into(), case.clone());
    }
}

/// A REQ socket with several peers; one dies while its request is outstanding (its id is
/// still queued in the rotation). Every later request must still go out behind exactly
/// one delimiter, and a send with no peer left must hand the message back intact.
async fn req_after_peer_death(ctx: &mut Ctx, npeers: usize, case: &Value) {
    let mut sock = Sock::new("REQ", None);
    let mut peers = Vec::new();
    for k in 0..npeers {
        match Peer::attach(&sock, "REP", Some(format!("srv{k}").as_bytes())).await {
            Ok(p) => peers.push(p),
            Err(e) => {
                ctx.inconclusive(format!("C07 attach: {e}"));
                return;
            }
        }
    }
    // first request goes to peer 0, which dies before answering
    if !matches!(sim::complete(sock.send(&mk(0xD0, &[3]))).await, Ok(Ok(()))) {
        ctx.inconclusive("C07 first send failed".into());
        return;
    }
    peers[0].conn.close_full(crate::pipe::EndKind::Eof);
    let _ = recv_now(&mut sock).await; // Err: the server is gone
    ctx.count("req_peer_died_with_request_outstanding");
    let mut seen: Vec<usize> = peers.iter().map(|p| p.out_msgs().map(|m| m.len()).unwrap_or(0)).collect();
    for round in 0..(2 * npeers + 1) {
        let payload = mk(0xD1 + round as u64, &[5, 0, 2]);
        let r = sim::complete(sock.send(&payload)).await;
        match r {
            Ok(Ok(())) => {
                let mut want = vec![vec![]];
                want.extend(payload.clone());
                let mut hit = None;
                for (k, p) in peers.iter().enumerate().skip(1) {
                    let msgs = p.out_msgs().unwrap_or_default();
                    if msgs.len() > seen[k] {
                        if msgs.len() != seen[k] + 1 || msgs[seen[k]] != want {
                            ctx.violation_with(
                                "C07/req-request-envelope",
                                format!(
                                    "after a peer died with a request outstanding, request #{round} went out as {} (expected exactly [empty] + payload {})",
                                    rc::frames_summary(&msgs[seen[k]]),
                                    rc::frames_summary(&want)
                                ),
                                case.clone(),
                            );
                            return;
                        }
                        seen[k] = msgs.len();
                        hit = Some(k);
                    }
                }
                match hit {
                    Some(k) => {
                        peers[k].send(&[vec![], b"ok".to_vec()]);
                        let _ = recv_now(&mut sock).await;
                    }
                    None => {
                        let _ = recv_now(&mut sock).await;
                    }
                }
            }
            Ok(Err(e)) => {
                if let Some(back) = &e.returned {
                    if back != &payload {
                        ctx.violation_with(
                            "C07/req-returned-message-altered",
                            format!("send failed ({}); the message handed back is {} instead of {}", e.text, rc::frames_summary(back), rc::frames_summary(&payload)),
                            case.clone(),
                        );
                        return;
                    }
                }
            }
            Err(_) => return,
        }
    }
}

/// Degenerate requests/replies: never Ok(message with zero frames); where the
/// statement defines the result (nothing after the delimiter) it must be an
/// error or a drop.
async fn degenerate(ctx: &mut Ctx, ty: &str, name: &str, wire: Frames, must_reject: bool, case: &Value) {
    let mut sock = Sock::new(ty, None);
    let peer = match Peer::attach(&sock, if ty == "REP" { "DEALER" } else { "REP" }, None).await {
        Ok(p) => p,
        Err(e) => {
            ctx.inconclusive(format!("C07 attach: {e}"));
            return;
        }
    };
    if ty == "REQ" {
        let _ = sim::complete(sock.send(&[b"q".to_vec()])).await;
    }
    peer.send(&wire);
    ctx.count(&format!("degenerate/{name}"));
    let r = recv_now(&mut sock).await;
    match r {
        Some(Ok(m)) if m.is_empty() => ctx.violation_with(
            &format!("C07/zero-frame-message/{ty}/{name}"),
            format!("{ty}.recv returned Ok with 0 frames for wire message {}", rc::frames_summary(&wire)),
            case.clone(),
        ),
        Some(Ok(m)) if must_reject => ctx.violation_with(
            &format!("C07/degenerate-accepted/{ty}/{name}"),
            format!(
                "{ty}.recv returned Ok{} for wire message {}",
                rc::frames_summary(&m),
                rc::frames_summary(&wire)
            ),
            case.clone(),
        ),
        _ => {}
    }
    // whatever became of that message, the NEXT proper request on the same connection is
    // handled as if it were the first: payload exact, reply envelope exactly its own
    if ty == "REP" && !peer.conn.reader_dropped() {
        let before = peer.out_msgs().map(|m| m.len()).unwrap_or(0);
        let req = mk(0xF1, &[5, 0]);
        let mut w: Frames = vec![b"hop-2".to_vec(), vec![]];
        w.extend(req.clone());
        // (the degenerate message once more, directly in front: both are there when recv looks)
        peer.send(&wire);
        peer.send(&w);
        let mut got = None;
        for _ in 0..3 {
            match recv_now(&mut sock).await {
                Some(Ok(m)) if !must_reject && m != req && got.is_none() && rc::parse_tag(&m, 0).is_err() && m.len() <= wire.len() => {
                    // the (acceptable) degenerate message itself, e.g. a request without delimiter
                    continue;
                }
                Some(Ok(m)) => {
                    got = Some(m);
                    break;
                }
                Some(Err(_)) => continue,
                None => break,
            }
        }
        if let Some(m) = got {
            if m != req {
                ctx.violation_with(
                    "C07/rep-recv-not-the-frames-after-the-delimiter",
                    format!("request {} sent after the degenerate message {} on the same connection: REP.recv returned {}", rc::frames_summary(&w), rc::frames_summary(&wire), rc::frames_summary(&m)),
                    case.clone(),
                );
                return;
            }
            let rpl = mk(0xF2, &[3]);
            let _ = sim::complete(sock.send(&rpl)).await;
            let mut want: Frames = vec![b"hop-2".to_vec(), vec![]];
            want.extend(rpl.clone());
            let outs = peer.out_msgs().unwrap_or_default();
            if outs.len() != before + 1 || outs.last() != Some(&want) {
                ctx.violation_with(
                    "C07/rep-reply-envelope",
                    format!(
                        "after the degenerate message {} a proper request {} was answered: reply on the wire {:?}, expected exactly {}",
                        rc::frames_summary(&wire),
                        rc::frames_summary(&w),
                        outs.iter().skip(before).map(|x| rc::frames_summary(x)).collect::<Vec<_>>(),
                        rc::frames_summary(&want)
                    ),
                    case.clone(),
                );
                return;
            }
            ctx.count("proper_requests_after_a_degenerate_one");
        }
    }
}

/// A real ROUTER hop in front of REP: raw REQ clients (no Identity property, an empty
/// one as libzmq sends it, or an announced one) talk to a library ROUTER; the harness
/// forwards frames verbatim as the DEALER side of a proxy would; a library REP serves.
async fn chain_case(ctx: &mut Ctx, ident: &str, nclients: usize, request: &[usize], reply: &[usize], case: &Value) {
    let mut router = Sock::new("ROUTER", None);
    let mut rep = Sock::new("REP", None);
    let back = match Peer::attach(&rep, "DEALER", None).await {
        Ok(p) => p,
        Err(e) => {
            ctx.inconclusive(format!("C07 attach: {e}"));
            return;
        }
    };
    let mut clients = Vec::new();
    for k in 0..nclients {
        let id: Option<Vec<u8>> = match ident {
            "none" => None,
            "empty" => Some(vec![]),
            "1" => Some(vec![0x41 + k as u8]),
            _ => Some((0..255).map(|i| if i == 0 { 0x80 + k as u8 } else { (i % 251) as u8 }).collect()),
        };
        match Peer::attach(&router, "REQ", id.as_deref()).await {
            Ok(p) => clients.push(p),
            Err(e) => {
                ctx.inconclusive(format!("C07 attach: {e}"));
                return;
            }
        }
    }
    let mut back_seen = 0usize;
    for round in 0..2u64 {
        for k in 0..nclients {
            let req = mk(0xC0 + (k as u64) * 2 + round, request);
            let rpl = mk(0xD0 + (k as u64) * 2 + round, reply);
            let mut wire: Frames = vec![vec![]];
            wire.extend(req.clone());
            clients[k].send(&wire);
            let m = match recv_now(&mut router).await {
                Some(Ok(m)) => m,
                other => {
                    ctx.violation_with(
                        "C07/chain/request-lost-at-router",
                        format!("client {k} (identity option {ident}) sent a request; ROUTER.recv gave {other:?}"),
                        case.clone(),
                    );
                    return;
                }
            };
            back.send(&m); // the proxy's DEALER side passes frames through unchanged
            match recv_now(&mut rep).await {
                Some(Ok(got)) if got == req => {}
                other => {
                    ctx.violation_with(
                        "C07/chain/rep-recv-not-the-request-payload",
                        format!(
                            "client {k} with identity option '{ident}' sent {} through a ROUTER hop (forwarded as {}); REP.recv returned {:?}",
                            rc::frames_summary(&req),
                            rc::frames_summary(&m),
                            other.map(|r| r.map(|f| rc::frames_summary(&f)))
                        ),
                        case.clone(),
                    );
                    return;
                }
            }
            if !matches!(sim::complete(rep.send(&rpl)).await, Ok(Ok(()))) {
                ctx.violation_with("C07/rep-send-failed", "REP.send after a chained request failed".into(), case.clone());
                return;
            }
            let outs = match back.out_msgs() {
                Ok(o) => o,
                Err(e) => {
                    ctx.violation_with("C07/rep-reply-envelope", format!("reply stream: {e}"), case.clone());
                    return;
                }
            };
            if outs.len() != back_seen + 1 {
                ctx.violation_with("C07/rep-reply-envelope", format!("{} replies on the wire, expected {}", outs.len(), back_seen + 1), case.clone());
                return;
            }
            back_seen += 1;
            let before: Vec<usize> = clients.iter().map(|c| c.conn.tap_len()).collect();
            let fwd = outs.last().cloned().unwrap_or_default();
            let sent = sim::complete(router.send(&fwd)).await;
            let mut want: Frames = vec![vec![]];
            want.extend(rpl.clone());
            let got = clients[k].conn.tap_from(before[k]);
            let stray = clients.iter().enumerate().any(|(i, c)| i != k && c.conn.tap_len() != before[i]);
            if !matches!(sent, Ok(Ok(()))) || got != rc::message(&want) || stray {
                ctx.violation_with(
                    "C07/chain/reply-did-not-retrace-the-route",
                    format!(
                        "reply {} for client {k} (identity option '{ident}'): ROUTER.send gave {sent:?}, the client received {} bytes (expected {}), another client was written to: {stray}",
                        rc::frames_summary(&fwd),
                        got.len(),
                        rc::message(&want).len()
                    ),
                    case.clone(),
                );
                return;
            }
            ctx.count("chain_round_trips");
            ctx.count(&format!("chain_identity/{ident}"));
        }
    }
    // ---- a client restarts: a new connection under the identity it announced, the old one
    // still open. The reply to a request read from the new connection retraces THAT route.
    if ident == "1" || ident == "255" {
        let id = clients[0].id.clone();
        let newc = match Peer::attach(&router, "REQ", Some(&id)).await {
            Ok(p) => p,
            Err(e) => {
                ctx.violation_with("C07/chain/reconnecting-client-rejected", e, case.clone());
                return;
            }
        };
        let req = mk(0xC9, request);
        let rpl = mk(0xD9, reply);
        let mut wire: Frames = vec![vec![]];
        wire.extend(req.clone());
        newc.send(&wire);
        let m = match recv_now(&mut router).await {
            Some(Ok(m)) => m,
            other => {
                ctx.violation_with("C07/chain/request-lost-at-router", format!("request on a client's new connection: ROUTER.recv gave {other:?}"), case.clone());
                return;
            }
        };
        back.send(&m);
        if !matches!(recv_now(&mut rep).await, Some(Ok(got)) if got == req) {
            ctx.violation_with("C07/chain/rep-recv-not-the-request-payload", "request of a reconnected client".into(), case.clone());
            return;
        }
        let _ = sim::complete(rep.send(&rpl)).await;
        let fwd = back.out_msgs().ok().and_then(|o| o.last().cloned()).unwrap_or_default();
        let old_before = clients[0].conn.tap_len();
        let sent = sim::complete(router.send(&fwd)).await;
        let mut want: Frames = vec![vec![]];
        want.extend(rpl.clone());
        let on_new = newc.out_msgs().ok() == Some(vec![want]);
        if !matches!(sent, Ok(Ok(()))) || !on_new || clients[0].conn.tap_len() != old_before {
            ctx.violation_with(
                "C07/chain/reply-did-not-retrace-the-route",
                format!(
                    "a client reconnected under its {}-byte identity (old connection still open) and sent a request on the new connection: ROUTER.send of the reply gave {sent:?}; on the new connection: {on_new}; bytes written to the old connection: {}",
                    id.len(),
                    clients[0].conn.tap_len() - old_before
                ),
                case.clone(),
            );
            return;
        }
        ctx.count("chain_replies_to_a_reconnected_client");
    }
}

impl Prop for C07 {
    fn id(&self) -> &'static str {
        "C07"
    }

    fn cases(&self, tier: Tier, _seed: u64) -> Vec<Value> {
        let mut v = Vec::new();
        let pres = prefixes();
        let shapes = payload_shapes();
        for (pi, pre) in pres.iter().enumerate() {
            let take = true;
            let _ = (tier, pi);
            if !take {
                continue;
            }
            for chunk in shapes.chunks(20) {
                v.push(json!({"kind": "rep_batch", "prefix": pre, "shapes": chunk}));
            }
        }
        for chunk in shapes.chunks(20) {
            v.push(json!({"kind": "req_batch", "shapes": chunk}));
        }
        if tier == Tier::Thorough {
            for alt in &ALT_SIZES {
                let shapes = payload_shapes_of(alt);
                for pre in pres.iter() {
                    for chunk in shapes.chunks(20) {
                        v.push(json!({"kind": "rep_batch", "prefix": pre, "shapes": chunk}));
                    }
                }
                for chunk in shapes.chunks(20) {
                    v.push(json!({"kind": "req_batch", "shapes": chunk}));
                    for ident in ["none", "empty", "255"] {
                        v.push(json!({"kind": "chain_batch", "ident": ident, "clients": 2, "shapes": chunk}));
                    }
                }
            }
        }
        v.push(json!({"kind": "degenerate"}));
        for ident in ["none", "empty", "1", "255"] {
            for n in 1..=3usize {
                for (i, chunk) in shapes.chunks(40).enumerate() {
                    if i % 3 == n % 3 {
                        v.push(json!({"kind": "chain_batch", "ident": ident, "clients": n, "shapes": chunk}));
                    }
                }
            }
        }
        for n in 1..=4usize {
            v.push(json!({"kind": "req_death", "peers": n}));
        }
        let pres: [&[usize]; 4] = [&[], &[5], &[1, 255], &[3, 3, 3]];
        for p1 in pres {
            for p2 in pres {
                for first in ["answered", "abandoned", "requester-gone"] {
                    v.push(json!({"kind": "rep_two", "p1": p1, "p2": p2, "first": first}));
                }
            }
        }
        v
    }

    fn run(&self, case: &Value, ctx: &mut Ctx) {
        let shapes_of = |c: &Value| -> Vec<Vec<usize>> {
            c["shapes"]
                .as_array()
                .map(|a| {
                    a.iter()
                        .map(|x| x.as_array().map(|y| y.iter().map(|z| z.as_u64().unwrap_or(0) as usize).collect()).unwrap_or_default())
                        .collect()
                })
                .unwrap_or_default()
        };
        match s(case, "kind") {
            "rep_batch" => {
                let pre = usizes(case, "prefix");
                let all = payload_shapes();
                for (k, req) in shapes_of(case).iter().enumerate() {
                    // the reply shape walks through the same shape space
                    let rep = &all[(shape_hash(req) as usize + k) % all.len()];
                    let one = json!({"kind": "rep", "prefix": pre, "request": req, "reply": rep});
                    ctx.eval(hash_str(&one.to_string()), true);
                    ctx.count("rep_cases");
                    ctx.count(&format!("rep_prefix_len/{}", pre.len()));
                    ctx.sample("rep", || one.clone());
                    sim::run(rep_case(ctx, &pre, req, rep, &one));
                }
            }
            "rep" => {
                ctx.eval(1, true);
                sim::run(rep_case(ctx, &usizes(case, "prefix"), &usizes(case, "request"), &usizes(case, "reply"), case));
            }
            "req_batch" => {
                let all = payload_shapes();
                for (k, req) in shapes_of(case).iter().enumerate() {
                    let rep = &all[(shape_hash(req) as usize + 7 * k + 3) % all.len()];
                    let one = json!({"kind": "req", "request": req, "reply": rep});
                    ctx.eval(hash_str(&one.to_string()), true);
                    ctx.count("req_cases");
                    ctx.sample("req", || one.clone());
                    sim::run(req_case(ctx, req, rep, &one));
                }
            }
            "req" => {
                ctx.eval(1, true);
                sim::run(req_case(ctx, &usizes(case, "request"), &usizes(case, "reply"), case));
            }
            "chain_batch" => {
                let all = payload_shapes();
                for (k, req) in shapes_of(case).iter().enumerate() {
                    let rep = &all[(shape_hash(req) as usize + 5 * k + 1) % all.len()];
                    let one = json!({"kind": "chain", "ident": s(case, "ident"), "clients": u(case, "clients"), "request": req, "reply": rep});
                    ctx.eval(hash_str(&one.to_string()), true);
                    ctx.sample("chain", || one.clone());
                    sim::run(chain_case(ctx, s(case, "ident"), u(case, "clients") as usize, req, rep, &one));
                }
            }
            "chain" => {
                ctx.eval(1, true);
                sim::run(chain_case(ctx, s(case, "ident"), u(case, "clients") as usize, &usizes(case, "request"), &usizes(case, "reply"), case));
            }
            "req_death" => {
                ctx.eval(hash_str(&case.to_string()), true);
                ctx.sample("req_death", || case.clone());
                sim::run(req_after_peer_death(ctx, u(case, "peers") as usize, case));
            }
            "rep_two" => {
                ctx.eval(hash_str(&case.to_string()), true);
                ctx.count("rep_two_request_sequences");
                ctx.sample("rep_two", || case.clone());
                sim::run(rep_two_requests(ctx, &usizes(case, "p1"), &usizes(case, "p2"), s(case, "first"), case));
            }
            "degenerate" => {
                let x = b"x".to_vec();
                let id = b"id".to_vec();
                let e: Vec<u8> = vec![];
                let list: Vec<(&str, &str, Frames, bool)> = vec![
                    ("REP", "delimiter-last", vec![x.clone(), e.clone()], true),
                    ("REP", "delimiter-last-after-two-ids", vec![id.clone(), x.clone(), e.clone()], true),
                    ("REP", "single-empty-frame", vec![e.clone()], true),
                    ("REP", "single-frame", vec![x.clone()], false),
                    ("REP", "no-delimiter", vec![x.clone(), x.clone()], false),
                    ("REP", "no-delimiter-three", vec![id.clone(), x.clone(), x.clone()], false),
                    ("REQ", "single-empty-frame", vec![e.clone()], true),
                    ("REQ", "single-frame", vec![x.clone()], false),
                    ("REQ", "no-delimiter", vec![x.clone(), x.clone()], false),
                ];
                for (ty, name, wire, must_reject) in list {
                    let one = json!({"kind": "degenerate1", "ty": ty, "name": name,
                                     "wire": wire.iter().map(|f| rc::hex(f)).collect::<Vec<_>>(), "must_reject": must_reject});
                    ctx.eval(hash_str(&one.to_string()), true);
                    ctx.sample("degenerate", || one.clone());
                    sim::run(degenerate(ctx, ty, name, wire, must_reject, &one));
                }
            }
            "degenerate1" => {
                let wire: Frames = case["wire"]
                    .as_array()
                    .map(|a| a.iter().map(|h| rc::unhex(h.as_str().unwrap_or(""))).collect())
                    .unwrap_or_default();
                ctx.eval(1, true);
                let (ty, name) = (s(case, "ty").to_string(), s(case, "name").to_string());
                sim::run(degenerate(ctx, &ty, &name, wire, case["must_reject"].as_bool().unwrap_or(false), case));
            }
            _ => ctx.inconclusive(format!("unknown case {case}")),
        }
    }

    fn floors(&self, _tier: Tier) -> Vec<(&'static str, u64)> {
        vec![
            ("rep_cases", 13_000),
            ("req_cases", 340),
            ("payload_with_interior_empty_frame", 100),
            ("multi_hop_prefix", 100),
            ("rep_two_request_sequences", 48),
            ("chain_round_trips", 1000),
            ("proper_requests_after_a_degenerate_one", 3),
            ("chain_replies_to_a_reconnected_client", 200),
            ("chain_identity/empty", 200),
            ("chain_identity/none", 200),
            ("req_peer_died_with_request_outstanding", 4),
            ("rep_request_abandoned", 16),
            ("rep_requester_gone_before_reply", 16),
            ("degenerate/delimiter-last", 1),
            ("degenerate/single-empty-frame", 2),
            ("degenerate/single-frame", 2),
            ("rep_prefix_len/0", 340),
            ("rep_prefix_len/3", 340),
        ]
    }
}
