//! C13 — a SUB socket's subscriptions reach every peer, including late joiners.

use super::common::*;
use crate::pipe::{Conn, EndKind};
use crate::prng::{hash_str, mix, Rng};
use crate::refcodec::{self as rc};
use crate::report::{Ctx, Tier};
use crate::sim::{self, Managed};
use crate::sock::{attach_future, library_handshake_len, Sock};
use crate::Prop;
use serde_json::{json, Value};
use std::collections::{BTreeMap, BTreeSet};

pub struct C13;

const TOPICS: [&str; 4] = ["a", "b", "ab", ""];

#[derive(Clone, Debug)]
enum Op {
    Sub(usize),
    Unsub(usize),
    /// the i-th peer's connection ends (not yet noticed by the socket) and the same
    /// publisher joins again under the identity it announced before
    Rejoin(usize),
    /// join; `stall`: Some(j) = the joining pipe accepts the library handshake + j
    /// more bytes, then withholds credit; `inner` runs while the join is stalled
    Join { stall: Option<usize>, inner: Option<Box<Op>> },
    /// low 4 bits: peer; bits 4..: how — 0 connection closed, 1 reset, 2 its writes
    /// fail with "connection reset" (read side silent), 3 its writes return 0
    Fail(usize),
    /// the i-th peer is not reading (accepts j more bytes) when the call is made, and reads
    /// again afterwards: it still has to be told
    StalledCall { peer: usize, credit: usize, inner: Box<Op> },
}

fn op_json(o: &Op) -> Value {
    match o {
        Op::Sub(t) => json!({"sub": TOPICS[*t]}),
        Op::Unsub(t) => json!({"unsub": TOPICS[*t]}),
        Op::Join { stall, inner } => json!({"join": {"stall": stall, "inner": inner.as_ref().map(|i| op_json(i))}}),
        Op::Fail(i) => json!({"fail": i}),
        Op::StalledCall { peer, credit, inner } => json!({"stalled_call": {"peer": peer, "credit": credit, "inner": op_json(inner)}}),
        Op::Rejoin(i) => json!({"rejoin": i}),
    }
}

fn op_from(v: &Value) -> Option<Op> {
    let t = |s: &str| TOPICS.iter().position(|x| *x == s);
    if let Some(x) = v.get("sub") {
        return Some(Op::Sub(t(x.as_str()?)?));
    }
    if let Some(x) = v.get("unsub") {
        return Some(Op::Unsub(t(x.as_str()?)?));
    }
    if let Some(x) = v.get("fail") {
        return Some(Op::Fail(x.as_u64()? as usize));
    }
    if let Some(x) = v.get("stalled_call") {
        return Some(Op::StalledCall {
            peer: x["peer"].as_u64()? as usize,
            credit: x["credit"].as_u64()? as usize,
            inner: Box::new(op_from(&x["inner"])?),
        });
    }
    if let Some(x) = v.get("rejoin") {
        return Some(Op::Rejoin(x.as_u64()? as usize));
    }
    if let Some(j) = v.get("join") {
        return Some(Op::Join {
            stall: j["stall"].as_u64().map(|x| x as usize),
            inner: if j["inner"].is_null() { None } else { op_from(&j["inner"]).map(Box::new) },
        });
    }
    None
}

struct PeerC {
    conn: Conn,
    hs_len: usize,
    failed: bool,
}

/// What a publisher would conclude from the subscription traffic on this tap.
fn peer_view(p: &PeerC) -> Result<BTreeSet<Vec<u8>>, String> {
    let b = p.conn.tap_from(p.hs_len);
    let d = rc::decode_stream(&b, false);
    if let Some((o, e)) = d.error {
        return Err(format!("tap invalid at {o}: {e}"));
    }
    if d.consumed != b.len() {
        return Err("tap ends inside a message".into());
    }
    let mut multiset: Vec<Vec<u8>> = Vec::new();
    for m in d.messages() {
        if m.len() != 1 || m[0].is_empty() {
            continue;
        }
        match m[0][0] {
            1 => multiset.push(m[0][1..].to_vec()),
            0 => {
                if let Some(i) = multiset.iter().position(|t| t[..] == m[0][1..]) {
                    multiset.remove(i);
                }
            }
            _ => {}
        }
    }
    Ok(multiset.into_iter().collect())
}

struct Model {
    set: BTreeSet<Vec<u8>>,
    counts: BTreeMap<Vec<u8>, u32>,
    ok_set: bool,
    ok_cnt: bool,
}

impl Model {
    fn apply(&mut self, op: &Op) {
        match op {
            Op::Sub(t) => {
                let k = TOPICS[*t].as_bytes().to_vec();
                self.set.insert(k.clone());
                *self.counts.entry(k).or_insert(0) += 1;
            }
            Op::Unsub(t) => {
                let k = TOPICS[*t].as_bytes().to_vec();
                self.set.remove(&k);
                if let Some(c) = self.counts.get_mut(&k) {
                    *c = c.saturating_sub(1);
                }
            }
            _ => {}
        }
    }
    fn counted(&self) -> BTreeSet<Vec<u8>> {
        self.counts.iter().filter(|(_, c)| **c > 0).map(|(k, _)| k.clone()).collect()
    }
}

fn fmt_set(s: &BTreeSet<Vec<u8>>) -> String {
    format!("{:?}", s.iter().map(|t| String::from_utf8_lossy(t).into_owned()).collect::<Vec<_>>())
}

/// Compare every live peer with the model at a quiescent point.
fn check_point(ctx: &mut Ctx, m: &mut Model, peers: &[PeerC], what: &str, hist: &str, case: &Value) -> bool {
    ctx.count("quiescent_points_checked");
    let counted = m.counted();
    let mut views = Vec::new();
    for (i, p) in peers.iter().enumerate() {
        if p.failed {
            continue;
        }
        match peer_view(p) {
            Ok(v) => views.push((i, v)),
            Err(e) => {
                ctx.violation_with("C13/subscription-traffic-corrupted", format!("peer {i}: {e}"), case.clone());
                return false;
            }
        }
    }
    for (i, v) in &views {
        if v != &m.set {
            m.ok_set = false;
        }
        if v != &counted {
            m.ok_cnt = false;
        }
        if !m.ok_set && !m.ok_cnt {
            let agree = views.iter().all(|(_, w)| w == v);
            let kind = if !agree { "peers-disagree" } else { "peers-differ-from-socket" };
            ctx.violation_with(
                &format!("C13/{kind}/{what}"),
                format!(
                    "after [{hist}]: socket's set is {} (or {} if repeated subscribes are counted); peer {i} was told {}; all peers: {:?}",
                    fmt_set(&m.set),
                    fmt_set(&counted),
                    fmt_set(v),
                    views.iter().map(|(j, w)| format!("{j}:{}", fmt_set(w))).collect::<Vec<_>>()
                ),
                case.clone(),
            );
            return false;
        }
    }
    true
}

async fn run(ctx: &mut Ctx, ops: &[Op], case: &Value) {
    // identities differ from case to case: the socket walks its peers in hash order
    let salt = hash_str(&case.to_string()) % 997;
    let ident = |k: usize| format!("pub{k}-{salt}").into_bytes();
    let mut sock = Sock::new("SUB", None);
    let mut peers: Vec<PeerC> = Vec::new();
    let mut m = Model { set: Default::default(), counts: Default::default(), ok_set: true, ok_cnt: true };
    let mut hist = String::new();
    // library handshake length (constant for a SUB without identity)
    let hs_probe = {
        let probe = Sock::new("SUB", None);
        match crate::sock::Peer::attach(&probe, "PUB", None).await {
            Ok(p) => p.hs_len,
            Err(e) => {
                ctx.inconclusive(format!("C13 probe: {e}"));
                return;
            }
        }
    };
    for op in ops {
        let what;
        match op {
            Op::Sub(t) | Op::Unsub(t) => {
                let r = match op {
                    Op::Sub(_) => sim::complete(sock.subscribe(TOPICS[*t])).await,
                    _ => sim::complete(sock.unsubscribe(TOPICS[*t])).await,
                };
                if let Err(why) = r {
                    ctx.violation_with("C13/subscribe-call-hangs", format!("subscribe/unsubscribe did not return: {why}"), case.clone());
                    return;
                }
                if matches!(op, Op::Sub(_)) && m.set.contains(TOPICS[*t].as_bytes()) {
                    ctx.count("repeated_subscribes");
                }
                if matches!(op, Op::Unsub(_)) && !m.set.contains(TOPICS[*t].as_bytes()) {
                    ctx.count("unsubscribes_of_absent_topic");
                }
                m.apply(op);
                what = "after-call";
            }
            Op::Fail(code) => {
                let (i, how) = (code & 15, code >> 4);
                if let Some(p) = peers.get_mut(i) {
                    if !p.failed {
                        p.failed = true;
                        match how {
                            0 => p.conn.close_full(EndKind::Eof),
                            1 => p.conn.close_full(EndKind::Reset),
                            2 => p.conn.fail_writes_after(p.conn.tap_len(), crate::pipe::WriteFail::ConnectionReset),
                            _ => p.conn.fail_writes_after(p.conn.tap_len(), crate::pipe::WriteFail::WriteZero),
                        }
                        ctx.count("failing_peers");
                        ctx.count(&format!("failing_peers/kind{}", how.min(3)));
                    }
                }
                what = "after-peer-failure";
            }
            Op::StalledCall { peer, credit, inner } => {
                let live: Vec<usize> = peers.iter().enumerate().filter(|(_, p)| !p.failed).map(|(k, _)| k).collect();
                if live.is_empty() {
                    continue;
                }
                let idx = live[*peer % live.len()];
                peers[idx].conn.set_credit(Some(*credit));
                let released;
                {
                    let mut call = Managed::new(async {
                        match &**inner {
                            Op::Sub(t) => sock.subscribe(TOPICS[*t]).await,
                            _ => sock.unsubscribe(TOPICS[match &**inner { Op::Unsub(t) => *t, _ => 0 }]).await,
                        }
                    });
                    let first = call.drive().await;
                    match first {
                        Ok(Some(_)) => {
                            ctx.count("calls_returning_while_a_peer_is_stalled");
                            released = false;
                        }
                        Ok(None) => {
                            // the call waits for the stalled peer: it reads again, the call completes
                            ctx.count("calls_waiting_for_a_stalled_peer");
                            peers[idx].conn.set_credit(None);
                            released = true;
                            if !matches!(call.drive().await, Ok(Some(_))) {
                                ctx.violation_with("C13/subscribe-call-hangs", "subscribe still pending after the stalled peer read again".into(), case.clone());
                                return;
                            }
                        }
                        Err(_) => {
                            ctx.violation_with("C13/subscribe-call-hangs", "subscribe spins while a peer is stalled".into(), case.clone());
                            return;
                        }
                    }
                }
                if !released {
                    peers[idx].conn.set_credit(None);
                }
                m.apply(inner);
                what = "after-call-with-a-stalled-peer";
            }
            Op::Rejoin(i) => {
                let Some(idx) = peers.iter().enumerate().filter(|(_, p)| !p.failed).map(|(k, _)| k).nth(*i % peers.len().max(1)) else {
                    continue;
                };
                peers[idx].conn.close_full(EndKind::Eof);
                peers[idx].failed = true;
                let (conn, r, w) = Conn::new();
                conn.feed(&rc::handshake("PUB", Some(&ident(idx))));
                match sim::complete(attach_future(sock.backend(), r, w)).await {
                    Ok(Ok(_)) => {
                        let hs_len = library_handshake_len(&conn.tap()).unwrap_or(0);
                        peers.push(PeerC { conn, hs_len, failed: false });
                        ctx.count("rejoins_under_the_same_identity");
                    }
                    other => {
                        ctx.violation_with("C13/join-failed", format!("a publisher re-joining under its identity: {other:?}"), case.clone());
                        return;
                    }
                }
                what = "after-rejoin";
            }
            Op::Join { stall, inner } => {
                let (conn, r, w) = Conn::new();
                conn.feed(&rc::handshake("PUB", Some(&ident(peers.len()))));
                if let Some(j) = stall {
                    conn.set_credit(Some(hs_probe + j));
                }
                let mut att = Managed::new(attach_future(sock.backend(), r, w));
                let mut res = match att.drive().await {
                    Ok(x) => x,
                    Err(_) => {
                        ctx.violation_with("C13/join-spins", "attach spins".into(), case.clone());
                        return;
                    }
                };
                if res.is_none() {
                    // the join is stalled between "socket read its set" and "peer registered"
                    ctx.count("joins_stalled_inside");
                    if let Some(inner) = inner {
                        let r = match &**inner {
                            Op::Sub(t) => sim::complete(sock.subscribe(TOPICS[*t])).await,
                            Op::Unsub(t) => sim::complete(sock.unsubscribe(TOPICS[*t])).await,
                            _ => Ok(Ok(())),
                        };
                        match r {
                            Ok(_) => {
                                m.apply(inner);
                                ctx.count("api_call_inside_join");
                            }
                            Err(_) => {
                                // the call waits for the join (a legitimate way to serialise the two):
                                // finish the join, then the call must complete
                                ctx.count("api_call_waited_for_join");
                                conn.set_credit(None);
                                res = att.drive().await.unwrap_or(None);
                                let r2 = match &**inner {
                                    Op::Sub(t) => sim::complete(sock.subscribe(TOPICS[*t])).await,
                                    Op::Unsub(t) => sim::complete(sock.unsubscribe(TOPICS[*t])).await,
                                    _ => Ok(Ok(())),
                                };
                                if r2.is_err() {
                                    ctx.violation_with("C13/subscribe-call-hangs", "subscribe still pending after the join completed".into(), case.clone());
                                    return;
                                }
                                // NB: the first (abandoned) call may or may not have taken effect; both
                                // readings agree on the set, counted semantics may see it twice
                                m.apply(inner);
                            }
                        }
                    }
                    conn.set_credit(None);
                    if res.is_none() {
                        res = att.drive().await.unwrap_or(None);
                    }
                } else if stall.is_some() {
                    ctx.count("joins_completed_before_stall_point");
                    conn.set_credit(None);
                }
                drop(att);
                match res {
                    Some(Ok(_)) => {
                        let hs_len = match library_handshake_len(&conn.tap()) {
                            Ok(n) => n,
                            Err(e) => {
                                ctx.inconclusive(format!("C13 tap: {e}"));
                                return;
                            }
                        };
                        peers.push(PeerC { conn, hs_len, failed: false });
                        ctx.count("joins");
                    }
                    other => {
                        ctx.violation_with("C13/join-failed", format!("a healthy PUB peer could not join: {other:?}"), case.clone());
                        return;
                    }
                }
                what = if stall.is_some() { "join-racing-a-call" } else { "after-join" };
            }
        }
        hist.push_str(&format!("{} ", op_json(op)));
        sim::settle().await;
        if !check_point(ctx, &mut m, &peers, what, &hist, case) {
            return;
        }
    }
}

fn gen_random(r: &mut Rng, len: usize) -> Vec<Op> {
    let mut ops = vec![Op::Join { stall: None, inner: None }];
    let mut npeers = 1;
    let mut failed = false;
    for _ in 0..len {
        let op = match r.below(10) {
            0..=3 => Op::Sub(r.below(4)),
            4..=5 => Op::Unsub(r.below(4)),
            6 => {
                if r.chance(1, 3) && npeers >= 1 {
                    Op::Rejoin(r.below(npeers))
                } else {
                    Op::Join { stall: None, inner: None }
                }
            }
            7 | 8 => Op::Join {
                stall: Some(r.below(14)),
                inner: Some(Box::new(if r.chance(2, 3) { Op::Sub(r.below(4)) } else { Op::Unsub(r.below(4)) })),
            },
            _ => {
                if !failed && npeers >= 2 && r.chance(1, 2) {
                    failed = true;
                    Op::Fail(r.below(npeers.min(15)) + 16 * r.below(4))
                } else {
                    Op::StalledCall {
                        peer: r.below(npeers),
                        credit: *r.pick(&[0usize, 1, 2, 3, 5, 40]),
                        inner: Box::new(if r.chance(2, 3) { Op::Sub(r.below(4)) } else { Op::Unsub(r.below(4)) }),
                    }
                }
            }
        };
        if matches!(op, Op::Join { .. } | Op::Rejoin(_)) {
            npeers += 1;
        }
        ops.push(op);
    }
    ops
}

/// SUB bound on TCP; raw publishers connect from other tasks of a multi-thread runtime
/// while subscribe() runs in a loop: every publisher must end up knowing the whole set,
/// wherever its join landed relative to the calls (true parallelism, no schedule control).
async fn rig_concurrent_joins(npeers: usize, ntopics: usize, seed: u64) -> Result<(u64, u64), String> {
    use crate::rig::{self, Raw, WAIT};
    use std::sync::atomic::{AtomicBool, AtomicU64, Ordering};
    use std::time::Duration;
    let loop_done = std::sync::Arc::new(AtomicBool::new(false));
    let during = std::sync::Arc::new(AtomicU64::new(0));
    let mut sock = Sock::new("SUB", None);
    let ep = sock.bind("tcp://127.0.0.1:0").await?;
    let mut tasks = Vec::new();
    for k in 0..npeers {
        let ep = ep.clone();
        let delay = (crate::prng::mix(seed ^ k as u64) % 40) as u64;
        let (loop_done, during) = (loop_done.clone(), during.clone());
        tasks.push(tokio::spawn(async move {
            tokio::time::sleep(Duration::from_micros(delay * 250)).await;
            let mut raw = Raw::connect(&ep).await.map_err(|e| e.to_string())?;
            raw.handshake("PUB", Some(format!("rigpub{k}").as_bytes())).await?;
            if !loop_done.load(Ordering::SeqCst) {
                during.fetch_add(1, Ordering::SeqCst);
            }
            // read subscription traffic until it has been quiet for a while
            let mut set: Vec<Vec<u8>> = Vec::new();
            loop {
                match raw.read_msg(Duration::from_millis(400)).await {
                    Ok(m) => {
                        if m.len() == 1 && !m[0].is_empty() {
                            match m[0][0] {
                                1 => set.push(m[0][1..].to_vec()),
                                0 => {
                                    if let Some(i) = set.iter().position(|t| t[..] == m[0][1..]) {
                                        set.remove(i);
                                    }
                                }
                                _ => {}
                            }
                        }
                    }
                    Err(rig::ReadEnd::Timeout) => break,
                    Err(e) => return Err(format!("publisher {k}: {e:?}")),
                }
            }
            let mut uniq: std::collections::BTreeSet<Vec<u8>> = set.into_iter().collect();
            let _ = &mut uniq;
            Ok::<std::collections::BTreeSet<Vec<u8>>, String>(uniq)
        }));
    }
    let mut want = std::collections::BTreeSet::new();
    for t in 0..ntopics {
        let topic = format!("topic-{t:04}");
        tokio::time::timeout(WAIT, sock.subscribe(&topic)).await.map_err(|_| "subscribe timed out".to_string())??;
        want.insert(topic.into_bytes());
        if t % 3 == 0 {
            tokio::task::yield_now().await;
        }
        if t % 8 == 0 {
            tokio::time::sleep(Duration::from_micros(200)).await;
        }
        if t % 10 == 5 {
            let gone = format!("topic-{:04}", t - 3);
            tokio::time::timeout(WAIT, sock.unsubscribe(&gone)).await.map_err(|_| "unsubscribe timed out".to_string())??;
            want.remove(gone.as_bytes());
        }
    }
    loop_done.store(true, Ordering::SeqCst);
    let mut checked = 0u64;
    for (k, t) in tasks.into_iter().enumerate() {
        let view = match tokio::time::timeout(Duration::from_secs(20), t).await {
            Ok(Ok(Ok(v))) => v,
            Ok(Ok(Err(e))) => return Err(e),
            _ => return Err(format!("publisher task {k} did not finish")),
        };
        if view != want {
            let missing: Vec<String> = want.difference(&view).take(4).map(|t| String::from_utf8_lossy(t).into_owned()).collect();
            let extra: Vec<String> = view.difference(&want).take(4).map(|t| String::from_utf8_lossy(t).into_owned()).collect();
            return Err(format!(
                "publisher {k} joined while subscribe() was running and ended up with {} topics instead of {}: missing {missing:?}, stale {extra:?}",
                view.len(),
                want.len()
            ));
        }
        checked += 1;
    }
    let _ = tokio::time::timeout(WAIT, sock.close()).await;
    Ok((checked, during.load(Ordering::SeqCst)))
}

impl Prop for C13 {
    fn id(&self) -> &'static str {
        "C13"
    }

    fn cases(&self, tier: Tier, seed: u64) -> Vec<Value> {
        let mut v = Vec::new();
        // targeted: prefix history x stall position x call issued inside the join
        let prefixes: Vec<Vec<Op>> = vec![
            vec![],
            vec![Op::Sub(0)],
            vec![Op::Sub(0), Op::Sub(2)],
            vec![Op::Sub(0), Op::Sub(1), Op::Sub(2), Op::Sub(3)],
            vec![Op::Sub(0), Op::Sub(0)],
            vec![Op::Sub(0), Op::Sub(0), Op::Unsub(0)],
            vec![Op::Sub(1), Op::Unsub(1)],
            vec![Op::Unsub(1)],
        ];
        for (pi, pre) in prefixes.iter().enumerate() {
            for early_peer in [false, true] {
                v.push(json!({"kind": "targeted", "prefix": pi, "early": early_peer}));
                let _ = pre;
            }
        }
        for k in 0..tier.pick(6, 200) {
            v.push(json!({"kind": "rig_joins", "peers": 8, "topics": 120, "seed": mix(seed ^ 0x13A ^ k as u64)}));
        }
        for k in 0..tier.pick(4000, 400_000) {
            v.push(json!({"kind": "random", "seed": mix(seed ^ 0xC13 ^ k as u64), "len": 12}));
        }
        v
    }

    fn run(&self, case: &Value, ctx: &mut Ctx) {
        let prefixes: Vec<Vec<Op>> = vec![
            vec![],
            vec![Op::Sub(0)],
            vec![Op::Sub(0), Op::Sub(2)],
            vec![Op::Sub(0), Op::Sub(1), Op::Sub(2), Op::Sub(3)],
            vec![Op::Sub(0), Op::Sub(0)],
            vec![Op::Sub(0), Op::Sub(0), Op::Unsub(0)],
            vec![Op::Sub(1), Op::Unsub(1)],
            vec![Op::Unsub(1)],
        ];
        match s(case, "kind") {
            "targeted" => {
                let pre = &prefixes[u(case, "prefix") as usize % prefixes.len()];
                let early = case["early"].as_bool().unwrap_or(false);
                ctx.sample("targeted", || case.clone());
                for stall in 0..16usize {
                    for inner in [Op::Sub(0), Op::Sub(1), Op::Sub(3), Op::Unsub(0), Op::Unsub(1), Op::Unsub(2)] {
                        let mut ops: Vec<Op> = Vec::new();
                        if early {
                            ops.push(Op::Join { stall: None, inner: None });
                        }
                        ops.extend(pre.clone());
                        ops.push(Op::Join { stall: Some(stall), inner: Some(Box::new(inner.clone())) });
                        // and a plain late joiner plus one more change afterwards
                        ops.push(Op::Join { stall: None, inner: None });
                        ops.push(Op::Sub(2));
                        let one = json!({"kind": "ops", "ops": ops.iter().map(op_json).collect::<Vec<_>>()});
                        ctx.eval(hash_str(&one.to_string()), true);
                        ctx.count("targeted_histories");
                        sim::run(run(ctx, &ops, &one));
                    }
                }
            }
            "rig_joins" => {
                ctx.eval(hash_str(&case.to_string()), true);
                ctx.sample("rig_joins", || case.clone());
                let (res, _) = crate::rig::run(4, rig_concurrent_joins(u(case, "peers") as usize, u(case, "topics") as usize, u(case, "seed")));
                match res {
                    Ok((n, during)) => {
                        ctx.add("rig_publishers_checked", n);
                        ctx.add("rig_publishers_joined_during_subscribe_loop", during);
                    }
                    Err(e) => {
                        if e.contains("timed out") || e.contains("did not finish") {
                            ctx.inconclusive(format!("C13 rig: {e}"));
                        } else {
                            ctx.violation_with("C13/rig/peer-joined-concurrently-differs-from-socket", e, case.clone());
                        }
                    }
                }
            }
            "random" => {
                let mut r = Rng::keyed(u(case, "seed"), &[13]);
                let ops = gen_random(&mut r, u(case, "len") as usize);
                let one = json!({"kind": "ops", "ops": ops.iter().map(op_json).collect::<Vec<_>>()});
                ctx.eval(hash_str(&one.to_string()), true);
                ctx.count("random_histories");
                ctx.sample("random", || one.clone());
                sim::run(run(ctx, &ops, &one));
            }
            "ops" => {
                let ops: Vec<Op> = case["ops"].as_array().map(|a| a.iter().filter_map(op_from).collect()).unwrap_or_default();
                ctx.eval(1, true);
                sim::run(run(ctx, &ops, case));
            }
            _ => ctx.inconclusive(format!("unknown case {case}")),
        }
    }

    fn floors(&self, _tier: Tier) -> Vec<(&'static str, u64)> {
        vec![
            ("targeted_histories", 1500),
            ("random_histories", 400),
            ("quiescent_points_checked", 10_000),
            ("joins", 3000),
            ("joins_stalled_inside", 500),
            ("api_call_inside_join", 0),
            ("repeated_subscribes", 500),
            ("unsubscribes_of_absent_topic", 200),
            ("failing_peers", 50),
            ("rejoins_under_the_same_identity", 100),
            ("rig_publishers_joined_during_subscribe_loop", 10),
        ]
    }
}
