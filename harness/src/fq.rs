//! Fair-queue probe engine (hook H3) shared by C05 and C06: scripted streams
//! whose readiness the harness owns, actions that can also be executed
//! re-entrantly from inside a stream's `poll_next` (the window in which the
//! queue has released its lock and checked the stream out), an exactly-once /
//! in-order delivery model, the lost-wake-up probe and the overtaking bound.

use crate::prng::{mix, Rng};
use futures::Stream;
use std::collections::VecDeque;
use std::pin::Pin;
use std::sync::atomic::{AtomicBool, AtomicU64, Ordering};
use std::sync::{Arc, Mutex};
use std::task::{Context, Poll, Wake, Waker};
use zeromq::__verif::{FairQueueHandle, FairQueueProbe};

#[derive(Clone, Copy, Debug, PartialEq, Eq)]
pub enum Act {
    Arrive(usize),
    Insert(usize),
    Close(usize),
    Remove(usize),
    /// receiver polls if a faithful executor would (never polled, got an item
    /// last time, or woken since it parked)
    Poll,
    /// the same actions executed from inside the next stream poll
    NArrive(usize),
    NInsert(usize),
    NClose(usize),
    /// the stream starts yielding cooperatively (Pending + self-wake) until the
    /// receiver's current/next poll returns
    Yield(usize),
    /// the receiving socket is handed to another task: every later poll uses a new waker
    NewWaker,
    /// a new stream is inserted under a key that is still registered (a peer coming back
    /// under its identity): the old stream is replaced
    Reinsert(usize),
}

impl Act {
    pub fn code(&self) -> u64 {
        match self {
            Act::Yield(i) => 0x90 + *i as u64,
            Act::NewWaker => 0xA0,
            Act::Reinsert(i) => 0xB0 + *i as u64,
            Act::Arrive(i) => 0x10 + *i as u64,
            Act::Insert(i) => 0x20 + *i as u64,
            Act::Close(i) => 0x30 + *i as u64,
            Act::Remove(i) => 0x40 + *i as u64,
            Act::Poll => 0x50,
            Act::NArrive(i) => 0x60 + *i as u64,
            Act::NInsert(i) => 0x70 + *i as u64,
            Act::NClose(i) => 0x80 + *i as u64,
        }
    }
    pub fn name(&self) -> String {
        match self {
            Act::Arrive(i) => format!("arrive({i})"),
            Act::Insert(i) => format!("insert({i})"),
            Act::Close(i) => format!("close({i})"),
            Act::Remove(i) => format!("remove({i})"),
            Act::Poll => "poll".into(),
            Act::NArrive(i) => format!("mid-poll:arrive({i})"),
            Act::NInsert(i) => format!("mid-poll:insert({i})"),
            Act::NClose(i) => format!("mid-poll:close({i})"),
            Act::Yield(i) => format!("yield({i})"),
            Act::NewWaker => "new-waker".into(),
            Act::Reinsert(i) => format!("reinsert({i})"),
        }
    }
    pub fn from_name(s: &str) -> Option<Act> {
        let idx = |s: &str| s.trim_end_matches(')').rsplit('(').next().and_then(|x| x.parse::<usize>().ok());
        Some(if s == "poll" {
            Act::Poll
        } else if s == "new-waker" {
            Act::NewWaker
        } else if s.starts_with("reinsert") {
            Act::Reinsert(idx(s)?)
        } else if let Some(r) = s.strip_prefix("mid-poll:") {
            match Act::from_name(r)? {
                Act::Arrive(i) => Act::NArrive(i),
                Act::Insert(i) => Act::NInsert(i),
                Act::Close(i) => Act::NClose(i),
                _ => return None,
            }
        } else if s.starts_with("arrive") {
            Act::Arrive(idx(s)?)
        } else if s.starts_with("insert") {
            Act::Insert(idx(s)?)
        } else if s.starts_with("close") {
            Act::Close(idx(s)?)
        } else if s.starts_with("remove") {
            Act::Remove(idx(s)?)
        } else if s.starts_with("yield") {
            Act::Yield(idx(s)?)
        } else {
            return None;
        })
    }
}

struct St {
    avail: VecDeque<u32>,
    produced: u32,
    delivered: u32,
    waker: Option<Waker>,
    closed: bool,
    inserted: bool,
    removed: bool,
    ended: bool, // returned None to the queue
    polls: u64,
    /// items were lost legitimately (removed with items pending)
    forfeited: bool,
    /// global delivery count when this stream last became "ready and known to the queue"
    ready_since: Option<u64>,
    new_since_last_poll: bool,
    /// cooperative yielding (what tokio's coop budget does to a transport): every
    /// poll returns Pending after waking its own waker, until the receiver's
    /// poll returns to the executor
    yielding: bool,
}

struct World {
    st: Vec<St>,
    nested: Vec<Act>,
    handle: Option<FairQueueHandle<ScriptStream, usize>>,
    in_stream_poll: bool,
    deliveries: u64,
    counters: Counters,
    /// stream polls inside the current receiver poll
    polls_this_recv_poll: u64,
    spin_detected: bool,
}

#[derive(Default, Clone, Debug)]
pub struct Counters {
    pub arrival_inside_checkout_window: u64,
    pub insert_mid_poll: u64,
    pub close_mid_poll: u64,
    pub insert_while_parked: u64,
    pub arrival_while_parked: u64,
    pub stale_polls: u64,
    pub stream_polls: u64,
    pub deliveries: u64,
    pub parks: u64,
    pub probes: u64,
    pub last_stream_closed_while_parked: u64,
    pub wake_consumed_then_second_arrival: u64,
    pub max_overtaken: u64,
    pub max_overtaken_n: u64,
    pub yield_polls: u64,
    pub yielding_streams: u64,
    pub waker_changes: u64,
    pub reinserts: u64,
}

pub struct ScriptStream {
    idx: usize,
    world: Arc<Mutex<World>>,
}

/// Execute an arrival / close / insert against the world. Wakers are fired
/// outside the world lock.
fn exec_basic(world: &Arc<Mutex<World>>, a: Act) {
    match a {
        Act::Arrive(i) | Act::NArrive(i) => {
            let w = {
                let mut g = world.lock().unwrap();
                let nested = g.in_stream_poll;
                let d = g.deliveries;
                let s = &mut g.st[i];
                if s.closed {
                    return;
                }
                let v = s.produced;
                s.produced += 1;
                s.avail.push_back(v);
                s.new_since_last_poll = true;
                if s.inserted && !s.removed && s.ready_since.is_none() {
                    s.ready_since = Some(d);
                }
                let w = s.waker.take();
                if nested {
                    g.counters.arrival_inside_checkout_window += 1;
                }
                w
            };
            if let Some(w) = w {
                w.wake();
            }
        }
        Act::Close(i) | Act::NClose(i) => {
            let w = {
                let mut g = world.lock().unwrap();
                let nested = g.in_stream_poll;
                let s = &mut g.st[i];
                if s.closed {
                    return;
                }
                s.closed = true;
                s.new_since_last_poll = true;
                let w = s.waker.take();
                if nested {
                    g.counters.close_mid_poll += 1;
                }
                w
            };
            if let Some(w) = w {
                w.wake();
            }
        }
        Act::Insert(i) | Act::NInsert(i) => {
            let h = {
                let mut g = world.lock().unwrap();
                let nested = g.in_stream_poll;
                let d = g.deliveries;
                let s = &mut g.st[i];
                if s.inserted {
                    return;
                }
                s.inserted = true;
                if !s.avail.is_empty() {
                    s.ready_since = Some(d);
                }
                if nested {
                    g.counters.insert_mid_poll += 1;
                }
                g.handle.clone()
            };
            if let Some(h) = h {
                h.insert(i, ScriptStream { idx: i, world: world.clone() });
            }
        }
        _ => {}
    }
}

impl Stream for ScriptStream {
    type Item = u32;

    fn poll_next(self: Pin<&mut Self>, cx: &mut Context<'_>) -> Poll<Option<u32>> {
        let this = self.get_mut();
        // 1. re-entrant actions: the queue lock is released, this stream is checked out
        let nested: Vec<Act> = {
            let mut g = this.world.lock().unwrap();
            g.counters.stream_polls += 1;
            g.in_stream_poll = true;
            std::mem::take(&mut g.nested)
        };
        for a in nested {
            exec_basic(&this.world, a);
        }
        let mut g = this.world.lock().unwrap();
        g.in_stream_poll = false;
        g.polls_this_recv_poll += 1;
        if g.st[this.idx].yielding {
            if g.polls_this_recv_poll > 5000 {
                // the queue keeps re-polling inside one poll_next: escape and report
                g.spin_detected = true;
                g.st[this.idx].yielding = false;
            } else {
                g.counters.yield_polls += 1;
                // A stream that answers Pending although it has items gives its turn away:
                // for the overtaking bound it is ready "as of now", not as of when its items
                // arrived (each cooperative yield legitimately lets every other ready stream
                // go first once more).
                let d = g.deliveries;
                if g.st[this.idx].ready_since.is_some() {
                    g.st[this.idx].ready_since = Some(d);
                }
                drop(g);
                cx.waker().wake_by_ref();
                return Poll::Pending;
            }
        }
        let s = &mut g.st[this.idx];
        s.polls += 1;
        let stale = !s.new_since_last_poll;
        s.new_since_last_poll = false;
        let res = if let Some(v) = s.avail.pop_front() {
            Poll::Ready(Some(v))
        } else if s.closed {
            s.ended = true;
            Poll::Ready(None)
        } else {
            s.waker = Some(cx.waker().clone());
            Poll::Pending
        };
        if stale && res.is_pending() {
            g.counters.stale_polls += 1;
        }
        res
    }
}

pub struct RecvFlag {
    woken: AtomicBool,
    count: AtomicU64,
}

impl Wake for RecvFlag {
    fn wake(self: Arc<Self>) {
        self.wake_by_ref()
    }
    fn wake_by_ref(self: &Arc<Self>) {
        self.woken.store(true, Ordering::SeqCst);
        self.count.fetch_add(1, Ordering::SeqCst);
    }
}

#[derive(Clone, Debug)]
pub struct Finding {
    /// "C05/..." or "C06/..."
    pub signature: String,
    pub message: String,
}

pub struct Engine {
    world: Arc<Mutex<World>>,
    probe: FairQueueProbe<ScriptStream, usize>,
    flag: Arc<RecvFlag>,
    /// receiver is parked (last poll returned Pending)
    parked: bool,
    polled_once: bool,
    got_none: bool,
    pub findings: Vec<Finding>,
    pub trace: u64,
    k: usize,
    last_wake_count_at_park: u64,
}

pub struct Outcome {
    pub findings: Vec<Finding>,
    pub counters: Counters,
    pub trace: u64,
    pub delivered: u64,
}

impl Engine {
    pub fn new(k: usize, block_on_no_clients: bool) -> Engine {
        let probe = FairQueueProbe::new(block_on_no_clients);
        let world = Arc::new(Mutex::new(World {
            st: (0..k)
                .map(|_| St {
                    avail: VecDeque::new(),
                    produced: 0,
                    delivered: 0,
                    waker: None,
                    closed: false,
                    inserted: false,
                    removed: false,
                    ended: false,
                    polls: 0,
                    forfeited: false,
                    ready_since: None,
                    new_since_last_poll: true,
                    yielding: false,
                })
                .collect(),
            nested: Vec::new(),
            handle: Some(probe.handle()),
            in_stream_poll: false,
            deliveries: 0,
            counters: Counters::default(),
            polls_this_recv_poll: 0,
            spin_detected: false,
        }));
        Engine {
            world,
            probe,
            flag: Arc::new(RecvFlag { woken: AtomicBool::new(false), count: AtomicU64::new(0) }),
            parked: false,
            polled_once: false,
            got_none: false,
            findings: Vec::new(),
            trace: 0xF0,
            k,
            last_wake_count_at_park: 0,
        }
    }

    fn woken(&self) -> bool {
        self.flag.woken.load(Ordering::SeqCst)
    }

    pub fn runnable(&self) -> bool {
        !self.parked || self.woken()
    }

    fn finding(&mut self, sig: &str, msg: String) {
        if self.findings.len() < 4 {
            self.findings.push(Finding { signature: sig.into(), message: msg });
        }
    }

    /// One receiver poll; checks the result against the model.
    fn do_poll(&mut self) -> bool {
        self.flag.woken.store(false, Ordering::SeqCst);
        let waker = Waker::from(self.flag.clone());
        let mut cx = Context::from_waker(&waker);
        self.polled_once = true;
        self.world.lock().unwrap().polls_this_recv_poll = 0;
        let polled = self.probe.poll_next(&mut cx);
        {
            // the receiver's poll returned to the executor: budgets are reset
            let mut g = self.world.lock().unwrap();
            let spin = g.spin_detected;
            g.spin_detected = false;
            for s in g.st.iter_mut() {
                s.yielding = false;
            }
            drop(g);
            if spin {
                self.finding(
                    "C06/fq/spins-on-yielding-stream",
                    "a stream returned Pending after waking itself (cooperative yielding); the queue re-polled it more than 5000 times inside a single poll_next instead of returning to the executor".into(),
                );
            }
        }
        match polled {
            Poll::Ready(Some((k, item))) => {
                self.parked = false;
                let mut g = self.world.lock().unwrap();
                g.deliveries += 1;
                g.counters.deliveries += 1;
                let d = g.deliveries;
                let n_inserted = g.st.iter().filter(|s| s.inserted && !s.removed && !s.ended).count().max(1) as u64;
                if k >= g.st.len() {
                    drop(g);
                    self.finding("C05/fq/unknown-key", format!("delivery labelled with unknown key {k}"));
                    return true;
                }
                let s = &mut g.st[k];
                let expected = s.delivered;
                let mut bad = None;
                if item != expected {
                    bad = Some(if item < expected {
                        ("C05/fq/duplicate-delivery", format!("stream {k}: item {item} delivered again (next expected {expected})"))
                    } else {
                        ("C05/fq/out-of-order-or-skipped", format!("stream {k}: item {item} delivered, expected {expected}"))
                    });
                }
                s.delivered = item.max(expected) + 1;
                // fairness: how many deliveries from others since this stream became ready
                let mut over = None;
                if let Some(since) = s.ready_since {
                    let others = d - 1 - since; // deliveries since then, all from other streams or earlier items of k
                    over = Some((others, n_inserted));
                }
                s.ready_since = if s.avail.is_empty() { None } else { Some(d) };
                if let Some((others, n)) = over {
                    if others > g.counters.max_overtaken {
                        g.counters.max_overtaken = others;
                        g.counters.max_overtaken_n = n;
                    }
                    // every *other* stream that is ready and was served resets; this
                    // counts deliveries of k itself too, which only makes it stricter
                    // for k's later items, so subtract k's own deliveries: handled by
                    // resetting ready_since at each of k's deliveries above.
                    if others > 2 * self.k as u64 {
                        drop(g);
                        self.finding(
                            "C06/fq/starvation",
                            format!("stream {k} was ready while {others} deliveries from other streams overtook it ({n} streams inserted, bound {})", 2 * self.k),
                        );
                        if let Some((sig, msg)) = bad {
                            self.finding(sig, msg);
                        }
                        return true;
                    }
                }
                drop(g);
                if let Some((sig, msg)) = bad {
                    self.finding(sig, msg);
                }
                true
            }
            Poll::Ready(None) => {
                self.parked = true; // nothing will come until an insert; treat as parked
                self.got_none = true;
                false
            }
            Poll::Pending => {
                if !self.parked {
                    self.world.lock().unwrap().counters.parks += 1;
                }
                self.parked = true;
                self.last_wake_count_at_park = self.flag.count.load(Ordering::SeqCst);
                false
            }
        }
    }

    pub fn step(&mut self, a: Act) {
        self.trace = mix(self.trace ^ a.code());
        match a {
            Act::Poll => {
                if self.runnable() {
                    self.do_poll();
                }
            }
            Act::Arrive(i) => {
                if self.parked && !self.woken() {
                    let mut g = self.world.lock().unwrap();
                    if g.st[i].inserted && !g.st[i].removed {
                        g.counters.arrival_while_parked += 1;
                    }
                }
                exec_basic(&self.world, a);
            }
            Act::Insert(i) => {
                if self.parked && !self.woken() {
                    let mut g = self.world.lock().unwrap();
                    if !g.st[i].inserted {
                        g.counters.insert_while_parked += 1;
                    }
                }
                exec_basic(&self.world, a);
            }
            Act::Close(i) => {
                if self.parked && !self.woken() {
                    let mut g = self.world.lock().unwrap();
                    let open_others = g.st.iter().enumerate().filter(|(j, s)| *j != i && s.inserted && !s.removed && !s.closed).count();
                    if g.st[i].inserted && !g.st[i].closed && open_others == 0 {
                        g.counters.last_stream_closed_while_parked += 1;
                    }
                }
                exec_basic(&self.world, a);
            }
            Act::Remove(i) => {
                let h = {
                    let mut g = self.world.lock().unwrap();
                    let s = &mut g.st[i];
                    if !s.inserted || s.removed {
                        return;
                    }
                    s.removed = true;
                    if !s.avail.is_empty() {
                        s.forfeited = true;
                    }
                    s.ready_since = None;
                    g.handle.clone()
                };
                if let Some(h) = h {
                    h.remove(&i);
                }
            }
            Act::NArrive(_) | Act::NInsert(_) | Act::NClose(_) => {
                self.world.lock().unwrap().nested.push(a);
            }
            Act::NewWaker => {
                // a fresh recv call on another task: it polls at least once with its own waker
                self.flag = Arc::new(RecvFlag { woken: AtomicBool::new(false), count: AtomicU64::new(0) });
                self.parked = false;
                self.world.lock().unwrap().counters.waker_changes += 1;
            }
            Act::Reinsert(i) => {
                let h = {
                    let mut g = self.world.lock().unwrap();
                    let d = g.deliveries;
                    let s = &mut g.st[i];
                    if !s.inserted || s.removed || s.closed || s.ended {
                        return;
                    }
                    // what the old connection had not delivered yet goes with it
                    if !s.avail.is_empty() {
                        s.delivered += s.avail.len() as u32;
                        s.avail.clear();
                    }
                    s.waker = None;
                    s.yielding = false;
                    s.new_since_last_poll = true;
                    s.ready_since = None;
                    let _ = d;
                    g.counters.reinserts += 1;
                    g.handle.clone()
                };
                if let Some(h) = h {
                    h.insert(i, ScriptStream { idx: i, world: self.world.clone() });
                }
            }
            Act::Yield(i) => {
                let w = {
                    let mut g = self.world.lock().unwrap();
                    if !g.st[i].inserted || g.st[i].removed || g.st[i].closed {
                        return;
                    }
                    g.st[i].yielding = true;
                    g.counters.yielding_streams += 1;
                    g.st[i].waker.take()
                };
                // it has something to say (that is why it will be polled)
                if let Some(w) = w {
                    w.wake();
                }
            }
        }
    }

    /// Behave like the application `loop { recv().await }` on a faithful
    /// executor until quiescent, then judge what is left.
    pub fn finish(mut self) -> Outcome {
        // nested actions that never found a stream poll are executed plainly
        let left: Vec<Act> = std::mem::take(&mut self.world.lock().unwrap().nested);
        for a in left {
            exec_basic(&self.world, a);
        }
        let mut guard = 0;
        while self.runnable() && guard < 100_000 {
            self.do_poll();
            guard += 1;
        }
        if guard >= 100_000 {
            self.finding("C06/fq/receiver-spins", "receiver keeps being woken without progress".into());
        }
        // quiescent: receiver parked and not woken. Anything still deliverable?
        let undelivered: Vec<(usize, u32)> = {
            let g = self.world.lock().unwrap();
            g.st.iter()
                .enumerate()
                .filter(|(_, s)| s.inserted && !s.removed && !s.avail.is_empty())
                .map(|(i, s)| (i, s.avail.len() as u32))
                .collect()
        };
        if !undelivered.is_empty() && self.findings.is_empty() {
            // lost-wake-up probe: a spurious poll
            self.world.lock().unwrap().counters.probes += 1;
            let got = self.do_poll();
            if got {
                self.finding(
                    "C06/fq/lost-wakeup",
                    format!("receiver parked and never woken although items were available on inserted streams {undelivered:?}; a spurious poll returned one"),
                );
            } else {
                self.finding(
                    "C05/fq/item-never-delivered",
                    format!("items left undelivered on inserted, open streams {undelivered:?}; even a spurious poll does not return them"),
                );
            }
        } else {
            self.world.lock().unwrap().counters.probes += 1;
        }
        // break the stream <-> world cycle
        let (counters, delivered) = {
            let mut g = self.world.lock().unwrap();
            g.handle = None;
            for s in g.st.iter_mut() {
                s.waker = None;
            }
            (g.counters.clone(), g.deliveries)
        };
        Outcome { findings: self.findings, counters, trace: self.trace, delivered }
    }
}

/// Enabled-ness for generators (a light model; the engine tolerates no-ops).
#[derive(Clone)]
pub struct Gen {
    pub inserted: Vec<bool>,
    pub removed: Vec<bool>,
    pub closed: Vec<bool>,
    pub produced: Vec<u32>,
    pub max_items: u32,
}

impl Gen {
    pub fn new(k: usize, max_items: u32) -> Gen {
        Gen { inserted: vec![false; k], removed: vec![false; k], closed: vec![false; k], produced: vec![0; k], max_items }
    }
    pub fn enabled(&self, with_nested: bool, with_remove: bool) -> Vec<Act> {
        let mut v = vec![Act::Poll];
        for i in 0..self.inserted.len() {
            if !self.closed[i] && self.produced[i] < self.max_items && !self.removed[i] {
                v.push(Act::Arrive(i));
                if with_nested {
                    v.push(Act::NArrive(i));
                }
            }
            if !self.inserted[i] {
                v.push(Act::Insert(i));
                if with_nested {
                    v.push(Act::NInsert(i));
                }
            }
            if !self.closed[i] && !self.removed[i] {
                v.push(Act::Close(i));
                if with_nested {
                    v.push(Act::NClose(i));
                }
            }
            if with_remove && self.inserted[i] && !self.removed[i] {
                v.push(Act::Remove(i));
            }
        }
        v
    }
    pub fn apply(&mut self, a: Act) {
        match a {
            Act::Arrive(i) | Act::NArrive(i) => self.produced[i] += 1,
            Act::Insert(i) | Act::NInsert(i) => self.inserted[i] = true,
            Act::Close(i) | Act::NClose(i) => self.closed[i] = true,
            Act::Remove(i) => self.removed[i] = true,
            Act::Poll | Act::Yield(_) | Act::NewWaker | Act::Reinsert(_) => {}
        }
    }
}

pub fn run_actions(k: usize, block: bool, pre_inserted: bool, acts: &[Act]) -> Outcome {
    let mut e = Engine::new(k, block);
    if pre_inserted {
        for i in 0..k {
            e.step(Act::Insert(i));
        }
    }
    for a in acts {
        e.step(*a);
        if !e.findings.is_empty() {
            break;
        }
    }
    e.finish()
}

/// Seeded random walk; returns the action list too (for witnesses).
pub fn random_walk(k: usize, len: usize, seed: u64, saturate: bool) -> (Vec<Act>, Outcome) {
    let mut r = Rng::keyed(seed, &[0xF9, k as u64, len as u64]);
    let mut g = Gen::new(k, if saturate { 500 } else { 12 });
    let mut e = Engine::new(k, true);
    let mut acts = Vec::new();
    if saturate {
        // n-1 busy streams with a lot queued, one late
        for i in 0..k {
            acts.push(Act::Insert(i));
        }
        let late = r.below(k);
        for i in 0..k {
            if i != late {
                for _ in 0..r.range(50, 300) {
                    acts.push(Act::Arrive(i));
                }
            }
        }
        let mut polls = r.range(0, 100);
        while polls > 0 {
            acts.push(Act::Poll);
            polls -= 1;
        }
        acts.push(if r.chance(1, 2) { Act::Arrive(late) } else { Act::NArrive(late) });
        for _ in 0..len {
            acts.push(Act::Poll);
            if r.chance(1, 6) {
                acts.push(Act::Arrive(r.below(k)));
            }
        }
        for a in &acts {
            g.apply(*a);
        }
    } else {
        for _ in 0..len {
            let mut en = g.enabled(true, true);
            for i in 0..k {
                if g.inserted[i] && !g.removed[i] && !g.closed[i] {
                    en.push(Act::Yield(i));
                    en.push(Act::Reinsert(i));
                }
            }
            en.push(Act::NewWaker);
            // polls are frequent, structural changes rare
            let a = loop {
                let a = *r.pick(&en);
                let keep = match a {
                    Act::Poll => true,
                    Act::Arrive(_) | Act::NArrive(_) => r.chance(2, 3),
                    Act::Insert(_) | Act::NInsert(_) => r.chance(1, 2),
                    Act::Close(_) | Act::NClose(_) => r.chance(1, 12),
                    Act::Remove(_) => r.chance(1, 12),
                    Act::Yield(_) => r.chance(1, 4),
                    Act::NewWaker => r.chance(1, 6),
                    Act::Reinsert(_) => r.chance(1, 10),
                };
                if keep {
                    break a;
                }
            };
            g.apply(a);
            acts.push(a);
        }
    }
    for a in &acts {
        e.step(*a);
        if !e.findings.is_empty() {
            break;
        }
    }
    (acts, e.finish())
}

// ------------------------------------------------------------ threaded leg

/// Stream fed by a producer thread. Check-and-park is atomic under its own
/// lock, so this stream by itself can never lose a wake-up.
pub struct ChanStream {
    q: Arc<Mutex<(VecDeque<u32>, Option<Waker>, bool)>>,
}

impl Stream for ChanStream {
    type Item = u32;
    fn poll_next(self: Pin<&mut Self>, cx: &mut Context<'_>) -> Poll<Option<u32>> {
        let mut g = self.q.lock().unwrap();
        if let Some(v) = g.0.pop_front() {
            Poll::Ready(Some(v))
        } else if g.2 {
            Poll::Ready(None)
        } else {
            g.1 = Some(cx.waker().clone());
            Poll::Pending
        }
    }
}

struct ThreadWaker {
    thread: std::thread::Thread,
    count: AtomicU64,
}

impl Wake for ThreadWaker {
    fn wake(self: Arc<Self>) {
        self.wake_by_ref()
    }
    fn wake_by_ref(self: &Arc<Self>) {
        self.count.fetch_add(1, Ordering::SeqCst);
        self.thread.unpark();
    }
}

#[derive(Default, Debug, Clone)]
pub struct ThreadedStats {
    pub runs: u64,
    pub deliveries: u64,
    pub parks: u64,
    pub parks_followed_by_wake: u64,
    pub inserts_from_producer_thread: u64,
    pub watchdog_expired: u64,
}

/// Many very short truly-parallel runs: producers insert/feed from their own
/// threads while one consumer polls. Verdict by the closed-system criterion:
/// once every producer has finished nothing can wake the consumer any more, so
/// "consumer parked, wake count unchanged since it parked, items undelivered"
/// is a certain lost wake-up. Wall-clock only bounds the wait (inconclusive).
pub fn threaded_runs(runs: u64, seed: u64) -> (Vec<Finding>, ThreadedStats) {
    let mut stats = ThreadedStats::default();
    let mut findings = Vec::new();
    let mut r = Rng::keyed(seed, &[0x7E4D]);
    // persistent producer threads (spawning per run costs more than the run)
    type Job = Box<dyn FnOnce() + Send>;
    const MAXP: usize = 4;
    let mut txs: Vec<std::sync::mpsc::Sender<Job>> = Vec::new();
    let mut joins = Vec::new();
    for _ in 0..MAXP {
        let (tx, rx) = std::sync::mpsc::channel::<Job>();
        txs.push(tx);
        joins.push(std::thread::spawn(move || {
            while let Ok(job) = rx.recv() {
                job();
            }
        }));
    }
    let waker_obj = Arc::new(ThreadWaker { thread: std::thread::current(), count: AtomicU64::new(0) });
    let waker = Waker::from(waker_obj.clone());
    for run in 0..runs {
        let nprod = r.range(2, MAXP);
        let per = r.range(1, 3) as u32;
        let insert_from_thread: Vec<bool> = (0..nprod).map(|_| r.chance(1, 2)).collect();
        let mut probe: FairQueueProbe<ChanStream, usize> = FairQueueProbe::new(true);
        let handle = probe.handle();
        let chans: Vec<Arc<Mutex<(VecDeque<u32>, Option<Waker>, bool)>>> =
            (0..nprod).map(|_| Arc::new(Mutex::new((VecDeque::new(), None, false)))).collect();
        for (i, c) in chans.iter().enumerate() {
            if !insert_from_thread[i] {
                handle.insert(i, ChanStream { q: c.clone() });
            } else {
                stats.inserts_from_producer_thread += 1;
            }
        }
        let done = Arc::new(AtomicU64::new(0));
        let total = nprod as u32 * per;
        let mut delivered = vec![0u32; nprod];
        let mut got = 0u32;
        let mut lost = None;
        for i in 0..nprod {
            let c = chans[i].clone();
            let h = handle.clone();
            let done = done.clone();
            let ins = insert_from_thread[i];
            let spin = r.below(300);
            let _ = txs[i].send(Box::new(move || {
                for _ in 0..spin {
                    std::hint::spin_loop();
                }
                if ins {
                    h.insert(i, ChanStream { q: c.clone() });
                }
                for v in 0..per {
                    let w = {
                        let mut g = c.lock().unwrap();
                        g.0.push_back(v);
                        g.1.take()
                    };
                    if let Some(w) = w {
                        w.wake();
                    }
                }
                drop(h);
                done.fetch_add(1, Ordering::SeqCst);
            }));
        }
        // consumer
        let t0 = std::time::Instant::now();
        'consume: loop {
            // wake count before this poll: any wake after this point forces a re-poll
            let base = waker_obj.count.load(Ordering::SeqCst);
            let mut cx = Context::from_waker(&waker);
            match probe.poll_next(&mut cx) {
                Poll::Ready(Some((k, v))) => {
                    if k < nprod && v == delivered[k] {
                        delivered[k] += 1;
                    } else {
                        lost = Some(Finding {
                            signature: "C05/fq-threaded/wrong-item".into(),
                            message: format!("run {run}: stream {k} delivered item {v}, expected {}", delivered.get(k).copied().unwrap_or(0)),
                        });
                        break 'consume;
                    }
                    got += 1;
                    stats.deliveries += 1;
                    if got == total {
                        break 'consume;
                    }
                }
                Poll::Ready(None) => {}
                Poll::Pending => {
                    stats.parks += 1;
                    loop {
                        // read "all producers finished" BEFORE the wake count: a
                        // producer bumps `done` only after its last wake
                        let all_done = done.load(Ordering::SeqCst) == nprod as u64;
                        if waker_obj.count.load(Ordering::SeqCst) != base {
                            stats.parks_followed_by_wake += 1;
                            break;
                        }
                        if all_done {
                            // closed system: nobody is left to wake us
                            lost = Some(Finding {
                                signature: "C06/fq-threaded/lost-wakeup".into(),
                                message: format!(
                                    "run {run}: {nprod} producers x {per} items all finished, consumer parked and never woken since before its last poll, {got} of {total} delivered"
                                ),
                            });
                            break 'consume;
                        }
                        if t0.elapsed() > std::time::Duration::from_secs(20) {
                            stats.watchdog_expired += 1;
                            break 'consume;
                        }
                        std::thread::park_timeout(std::time::Duration::from_micros(20));
                    }
                }
            }
        }
        // wait for the producers of this run before tearing it down
        let t1 = std::time::Instant::now();
        while done.load(Ordering::SeqCst) != nprod as u64 {
            std::hint::spin_loop();
            if t1.elapsed() > std::time::Duration::from_secs(20) {
                stats.watchdog_expired += 1;
                break;
            }
        }
        stats.runs += 1;
        // break cycles: close channels and drop wakers
        for c in &chans {
            let mut g = c.lock().unwrap();
            g.1 = None;
            g.2 = true;
        }
        drop(probe);
        if let Some(f) = lost {
            findings.push(f);
            break;
        }
        if stats.watchdog_expired > 0 {
            break;
        }
    }
    drop(txs);
    for j in joins {
        let _ = j.join();
    }
    (findings, stats)
}
