//! Uniform wrapper over the nine socket types + scripted peers attached
//! through in-memory pipes (hook H2).

use crate::pipe::{Conn, PipeReader, PipeWriter};
use crate::refcodec::{self as rc, Frames, RItem};
use crate::sim;
use bytes::Bytes;
use std::convert::TryFrom;
use std::sync::Arc;
use zeromq::prelude::*;
use zeromq::util::PeerIdentity;
use zeromq::{
    DealerSocket, MultiPeerBackend, PubSocket, PullSocket, PushSocket, RepSocket, ReqSocket,
    RouterSocket, SocketOptions, SubSocket, XPubSocket, ZmqError, ZmqMessage,
};

pub const ALL_TYPES: [&str; 9] = [
    "PUB", "SUB", "REQ", "REP", "DEALER", "ROUTER", "PULL", "PUSH", "XPUB",
];
pub const RECV_TYPES: [&str; 7] = ["SUB", "REQ", "REP", "DEALER", "ROUTER", "PULL", "XPUB"];
pub const FQ_TYPES: [&str; 6] = ["SUB", "REP", "DEALER", "ROUTER", "PULL", "XPUB"];
pub const SEND_TYPES: [&str; 7] = ["PUB", "REQ", "REP", "DEALER", "ROUTER", "PUSH", "XPUB"];

/// A peer type the given local type accepts (RFC compatibility table).
pub fn peer_type_for(local: &str) -> &'static str {
    match local {
        "PUB" => "SUB",
        "XPUB" => "SUB",
        "SUB" => "PUB",
        "REQ" => "REP",
        "REP" => "REQ",
        "DEALER" => "ROUTER",
        "ROUTER" => "DEALER",
        "PULL" => "PUSH",
        "PUSH" => "PULL",
        _ => "PAIR",
    }
}

pub enum Sock {
    Pub(PubSocket),
    Sub(SubSocket),
    Req(ReqSocket),
    Rep(RepSocket),
    Dealer(DealerSocket),
    Router(RouterSocket),
    Pull(PullSocket),
    Push(PushSocket),
    XPub(XPubSocket),
}

#[derive(Debug, Clone)]
pub struct SendErr {
    pub text: String,
    /// message handed back to the caller (ReturnToSender)
    pub returned: Option<Frames>,
}

pub fn to_msg(frames: &[Vec<u8>]) -> ZmqMessage {
    let v: Vec<Bytes> = frames.iter().map(|f| Bytes::copy_from_slice(f)).collect();
    ZmqMessage::try_from(v).expect("non-empty message")
}

pub fn from_msg(m: &ZmqMessage) -> Frames {
    m.iter().map(|b| b.to_vec()).collect()
}

fn send_err(e: ZmqError) -> SendErr {
    let text = e.to_string();
    match e {
        ZmqError::ReturnToSender { message, .. } => SendErr {
            text,
            returned: Some(from_msg(&message)),
        },
        _ => SendErr {
            text,
            returned: None,
        },
    }
}

impl Sock {
    pub fn new(ty: &str, identity: Option<&[u8]>) -> Sock {
        let mut opts = SocketOptions::default();
        if let Some(id) = identity {
            opts.peer_identity(PeerIdentity::try_from(id.to_vec()).expect("identity"));
        }
        match ty {
            "PUB" => Sock::Pub(PubSocket::with_options(opts)),
            "SUB" => Sock::Sub(SubSocket::with_options(opts)),
            "REQ" => Sock::Req(ReqSocket::with_options(opts)),
            "REP" => Sock::Rep(RepSocket::with_options(opts)),
            "DEALER" => Sock::Dealer(DealerSocket::with_options(opts)),
            "ROUTER" => Sock::Router(RouterSocket::with_options(opts)),
            "PULL" => Sock::Pull(PullSocket::with_options(opts)),
            "PUSH" => Sock::Push(PushSocket::with_options(opts)),
            "XPUB" => Sock::XPub(XPubSocket::with_options(opts)),
            _ => panic!("harness: unknown socket type {ty}"),
        }
    }

    pub fn ty(&self) -> &'static str {
        match self {
            Sock::Pub(_) => "PUB",
            Sock::Sub(_) => "SUB",
            Sock::Req(_) => "REQ",
            Sock::Rep(_) => "REP",
            Sock::Dealer(_) => "DEALER",
            Sock::Router(_) => "ROUTER",
            Sock::Pull(_) => "PULL",
            Sock::Push(_) => "PUSH",
            Sock::XPub(_) => "XPUB",
        }
    }

    pub fn backend(&self) -> Arc<dyn MultiPeerBackend> {
        match self {
            Sock::Pub(s) => s.backend(),
            Sock::Sub(s) => s.backend(),
            Sock::Req(s) => s.backend(),
            Sock::Rep(s) => s.backend(),
            Sock::Dealer(s) => s.backend(),
            Sock::Router(s) => s.backend(),
            Sock::Pull(s) => s.backend(),
            Sock::Push(s) => s.backend(),
            Sock::XPub(s) => s.backend(),
        }
    }

    pub fn can_send(&self) -> bool {
        SEND_TYPES.contains(&self.ty())
    }

    pub fn can_recv(&self) -> bool {
        RECV_TYPES.contains(&self.ty())
    }

    pub async fn send(&mut self, frames: &[Vec<u8>]) -> Result<(), SendErr> {
        let m = to_msg(frames);
        let r = match self {
            Sock::Pub(s) => s.send(m).await,
            Sock::Req(s) => s.send(m).await,
            Sock::Rep(s) => s.send(m).await,
            Sock::Dealer(s) => s.send(m).await,
            Sock::Router(s) => s.send(m).await,
            Sock::Push(s) => s.send(m).await,
            Sock::XPub(s) => s.send(m).await,
            Sock::Sub(_) | Sock::Pull(_) => panic!("harness: send on {}", self.ty()),
        };
        r.map_err(send_err)
    }

    pub async fn recv(&mut self) -> Result<Frames, String> {
        let r = match self {
            Sock::Sub(s) => s.recv().await,
            Sock::Req(s) => s.recv().await,
            Sock::Rep(s) => s.recv().await,
            Sock::Dealer(s) => s.recv().await,
            Sock::Router(s) => s.recv().await,
            Sock::Pull(s) => s.recv().await,
            Sock::XPub(s) => s.recv().await,
            Sock::Pub(_) | Sock::Push(_) => panic!("harness: recv on {}", self.ty()),
        };
        match r {
            Ok(m) => Ok(from_msg(&m)),
            Err(e) => Err(e.to_string()),
        }
    }

    pub async fn subscribe(&mut self, topic: &str) -> Result<(), String> {
        match self {
            Sock::Sub(s) => s.subscribe(topic).await.map_err(|e| e.to_string()),
            _ => panic!("harness: subscribe on {}", self.ty()),
        }
    }

    pub async fn unsubscribe(&mut self, topic: &str) -> Result<(), String> {
        match self {
            Sock::Sub(s) => s.unsubscribe(topic).await.map_err(|e| e.to_string()),
            _ => panic!("harness: unsubscribe on {}", self.ty()),
        }
    }
}

/// Future of hook H2 over a fresh pipe.
pub fn attach_future(
    backend: Arc<dyn MultiPeerBackend>,
    r: PipeReader,
    w: PipeWriter,
) -> impl std::future::Future<Output = Result<Vec<u8>, String>> {
    async move {
        match zeromq::__verif::attach(backend, r, w).await {
            Ok(id) => Ok(id.as_ref().to_vec()),
            Err(e) => Err(e.to_string()),
        }
    }
}

/// A scripted remote peer speaking through the reference codec.
pub struct Peer {
    pub conn: Conn,
    /// identity under which the library registered this connection
    pub id: Vec<u8>,
    /// peer's own socket type
    pub ty: String,
    /// length of the library's greeting + READY at the start of the tap
    pub hs_len: usize,
}

impl Peer {
    /// Complete handshake as a well-behaved peer of type `peer_ty`.
    pub async fn attach(sock: &Sock, peer_ty: &str, identity: Option<&[u8]>) -> Result<Peer, String> {
        let (conn, r, w) = Conn::new();
        conn.feed(&rc::handshake(peer_ty, identity));
        let id = sim::complete(attach_future(sock.backend(), r, w)).await??;
        let hs_len = library_handshake_len(&conn.tap())?;
        Ok(Peer {
            conn,
            id,
            ty: peer_ty.to_string(),
            hs_len,
        })
    }

    /// Same, through a backend handle (usable while `recv` borrows the socket).
    pub async fn attach_backend(
        backend: Arc<dyn MultiPeerBackend>,
        peer_ty: &str,
        identity: Option<&[u8]>,
    ) -> Result<Peer, String> {
        let (conn, r, w) = Conn::new();
        conn.feed(&rc::handshake(peer_ty, identity));
        let id = sim::complete(attach_future(backend, r, w)).await??;
        let hs_len = library_handshake_len(&conn.tap())?;
        Ok(Peer {
            conn,
            id,
            ty: peer_ty.to_string(),
            hs_len,
        })
    }

    pub fn send(&self, frames: &[Vec<u8>]) {
        self.conn.feed(&rc::message_as_peer(frames));
    }

    pub fn send_held(&self, frames: &[Vec<u8>]) {
        self.conn.feed_held(&rc::message_as_peer(frames));
    }

    /// Everything the library wrote after its handshake.
    pub fn out_bytes(&self) -> Vec<u8> {
        self.conn.tap_from(self.hs_len)
    }

    pub fn out(&self) -> rc::Decoded {
        rc::decode_stream(&self.out_bytes(), false)
    }

    /// Messages the library wrote to this peer; Err when the tap is not a
    /// clean sequence of complete items.
    pub fn out_msgs(&self) -> Result<Vec<Frames>, String> {
        let b = self.out_bytes();
        let d = rc::decode_stream(&b, false);
        if let Some((o, e)) = &d.error {
            return Err(format!("tap invalid at {o}: {e}"));
        }
        if d.consumed != b.len() || d.partial_frames != 0 {
            return Err(format!(
                "tap ends inside an item ({} of {} bytes form complete items)",
                d.consumed,
                b.len()
            ));
        }
        Ok(d.messages())
    }
}

/// Length of greeting + first command at the start of a library tap.
pub fn library_handshake_len(tap: &[u8]) -> Result<usize, String> {
    let d = rc::decode_stream(tap, true);
    if let Some((o, e)) = d.error {
        return Err(format!("library handshake bytes invalid at {o}: {e}"));
    }
    let mut it = d.items.iter().zip(d.ends.iter());
    match it.next() {
        Some((RItem::Greeting(_), _)) => {}
        _ => return Err("library wrote no complete greeting".into()),
    }
    match it.next() {
        Some((RItem::Command { .. }, end)) => Ok(*end),
        _ => Err("library wrote no command after its greeting".into()),
    }
}

/// Connect two real sockets through an in-memory wire: both production
/// handshakes run against each other. Returns the wire and the identity under
/// which each side registered the other.
pub async fn connect_pair(
    a: Arc<dyn MultiPeerBackend>,
    b: Arc<dyn MultiPeerBackend>,
) -> Result<(crate::pipe::Wire, Vec<u8>, Vec<u8>), String> {
    let (ca, ra, wa) = Conn::new();
    let (cb, rb, wb) = Conn::new();
    let mut wire = crate::pipe::Wire::new(ca, cb);
    let mut fa = sim::Managed::new(attach_future(a, ra, wa));
    let mut fb = sim::Managed::new(attach_future(b, rb, wb));
    let mut ra_res = None;
    let mut rb_res = None;
    for _ in 0..200 {
        if ra_res.is_none() {
            if let Ok(Some(r)) = fa.drive().await {
                ra_res = Some(r);
            }
        }
        if rb_res.is_none() {
            if let Ok(Some(r)) = fb.drive().await {
                rb_res = Some(r);
            }
        }
        let moved = wire.pump(usize::MAX);
        if ra_res.is_some() && rb_res.is_some() {
            break;
        }
        if moved == 0 && !fa.woken() && !fb.woken() {
            return Err("handshake between two library sockets made no progress".into());
        }
    }
    match (ra_res, rb_res) {
        (Some(Ok(ia)), Some(Ok(ib))) => Ok((wire, ia, ib)),
        (x, y) => Err(format!("lib-to-lib handshake failed: {x:?} / {y:?}")),
    }
}

// ------------------------------------------------- real-transport operations

impl Sock {
    pub async fn bind(&mut self, ep: &str) -> Result<String, String> {
        let r = match self {
            Sock::Pub(s) => s.bind(ep).await,
            Sock::Sub(s) => s.bind(ep).await,
            Sock::Req(s) => s.bind(ep).await,
            Sock::Rep(s) => s.bind(ep).await,
            Sock::Dealer(s) => s.bind(ep).await,
            Sock::Router(s) => s.bind(ep).await,
            Sock::Pull(s) => s.bind(ep).await,
            Sock::Push(s) => s.bind(ep).await,
            Sock::XPub(s) => s.bind(ep).await,
        };
        r.map(|e| e.to_string()).map_err(|e| e.to_string())
    }

    pub async fn connect(&mut self, ep: &str) -> Result<(), String> {
        let r = match self {
            Sock::Pub(s) => s.connect(ep).await,
            Sock::Sub(s) => s.connect(ep).await,
            Sock::Req(s) => s.connect(ep).await,
            Sock::Rep(s) => s.connect(ep).await,
            Sock::Dealer(s) => s.connect(ep).await,
            Sock::Router(s) => s.connect(ep).await,
            Sock::Pull(s) => s.connect(ep).await,
            Sock::Push(s) => s.connect(ep).await,
            Sock::XPub(s) => s.connect(ep).await,
        };
        r.map_err(|e| e.to_string())
    }

    /// unbind by the text form of an endpoint; Err(text) carries the error
    pub async fn unbind(&mut self, ep: &str) -> Result<(), String> {
        let e: zeromq::Endpoint = match ep.parse::<zeromq::Endpoint>() {
            Ok(e) => e,
            Err(_) => return Err(format!("unparsable endpoint {ep}")),
        };
        let r = match self {
            Sock::Pub(s) => s.unbind(e).await,
            Sock::Sub(s) => s.unbind(e).await,
            Sock::Req(s) => s.unbind(e).await,
            Sock::Rep(s) => s.unbind(e).await,
            Sock::Dealer(s) => s.unbind(e).await,
            Sock::Router(s) => s.unbind(e).await,
            Sock::Pull(s) => s.unbind(e).await,
            Sock::Push(s) => s.unbind(e).await,
            Sock::XPub(s) => s.unbind(e).await,
        };
        r.map_err(|e| match e {
            ZmqError::NoSuchBind(_) => format!("NoSuchBind: {e}"),
            other => other.to_string(),
        })
    }

    pub fn binds(&mut self) -> Vec<String> {
        let m = match self {
            Sock::Pub(s) => s.binds(),
            Sock::Sub(s) => s.binds(),
            Sock::Req(s) => s.binds(),
            Sock::Rep(s) => s.binds(),
            Sock::Dealer(s) => s.binds(),
            Sock::Router(s) => s.binds(),
            Sock::Pull(s) => s.binds(),
            Sock::Push(s) => s.binds(),
            Sock::XPub(s) => s.binds(),
        };
        let mut v: Vec<String> = m.keys().map(|e| e.to_string()).collect();
        v.sort();
        v
    }

    pub async fn close(self) -> Vec<String> {
        let errs = match self {
            Sock::Pub(s) => s.close().await,
            Sock::Sub(s) => s.close().await,
            Sock::Req(s) => s.close().await,
            Sock::Rep(s) => s.close().await,
            Sock::Dealer(s) => s.close().await,
            Sock::Router(s) => s.close().await,
            Sock::Pull(s) => s.close().await,
            Sock::Push(s) => s.close().await,
            Sock::XPub(s) => s.close().await,
        };
        errs.into_iter().map(|e| e.to_string()).collect()
    }

    pub fn monitor(&mut self) -> futures::channel::mpsc::Receiver<zeromq::SocketEvent> {
        match self {
            Sock::Pub(s) => s.monitor(),
            Sock::Sub(s) => s.monitor(),
            Sock::Req(s) => s.monitor(),
            Sock::Rep(s) => s.monitor(),
            Sock::Dealer(s) => s.monitor(),
            Sock::Router(s) => s.monitor(),
            Sock::Pull(s) => s.monitor(),
            Sock::Push(s) => s.monitor(),
            Sock::XPub(s) => s.monitor(),
        }
    }
}
