//! Independent ZMTP 3.0 encoder/decoder written from RFC 23 only (DESIGN.md
//! §3.2). Shares no code with zmq.rs. It is the wire oracle: scripted peers
//! speak through it and library output is judged by it.

use crate::prng::{hash_bytes, mix, Rng};

pub type Frames = Vec<Vec<u8>>;

#[derive(Clone, Debug, PartialEq, Eq)]
pub struct RGreeting {
    pub sig_ok: bool,
    pub padding_zero: bool,
    pub version: (u8, u8),
    pub mechanism: [u8; 20],
    pub as_server: u8,
    pub filler_zero: bool,
}

impl RGreeting {
    /// mechanism name with NUL padding removed; None if bytes follow the first NUL
    pub fn mechanism_name(&self) -> Option<Vec<u8>> {
        let end = self.mechanism.iter().position(|b| *b == 0).unwrap_or(20);
        if self.mechanism[end..].iter().any(|b| *b != 0) {
            return None;
        }
        Some(self.mechanism[..end].to_vec())
    }
}

#[derive(Clone, Debug, PartialEq, Eq)]
pub struct RFrameMeta {
    pub flags: u8,
    pub long: bool,
    pub more: bool,
    pub len: usize,
    /// offset of the flags byte in the decoded stream
    pub start: usize,
}

#[derive(Clone, Debug, PartialEq, Eq)]
pub enum RItem {
    Greeting(RGreeting),
    Command {
        name: Vec<u8>,
        /// command data after the name
        data: Vec<u8>,
        meta: RFrameMeta,
    },
    Message {
        frames: Frames,
        metas: Vec<RFrameMeta>,
    },
}

impl RItem {
    pub fn as_message(&self) -> Option<&Frames> {
        match self {
            RItem::Message { frames, .. } => Some(frames),
            _ => None,
        }
    }
}

#[derive(Clone, Debug, Default)]
pub struct Decoded {
    pub items: Vec<RItem>,
    /// end offset (exclusive) of each item in the input
    pub ends: Vec<usize>,
    /// first offset not covered by a complete item (== input length when the
    /// input ends exactly at an item boundary)
    pub consumed: usize,
    /// frames of an unfinished multipart message at the end of the input
    pub partial_frames: usize,
    /// hard protocol error: (offset, reason)
    pub error: Option<(usize, String)>,
    /// notes that are not errors for a tolerant reader but matter for C01
    pub notes: Vec<(usize, String)>,
}

impl Decoded {
    pub fn messages(&self) -> Vec<Frames> {
        self.items
            .iter()
            .filter_map(|i| i.as_message().cloned())
            .collect()
    }

    pub fn clean(&self, input_len: usize) -> bool {
        self.error.is_none() && self.consumed == input_len && self.partial_frames == 0
    }
}

/// Parse a metadata/property list: *( name-len name value-len(4) value ).
pub fn parse_props(mut d: &[u8]) -> Result<Vec<(Vec<u8>, Vec<u8>)>, String> {
    let mut out = Vec::new();
    while !d.is_empty() {
        let nl = d[0] as usize;
        d = &d[1..];
        if nl == 0 {
            return Err("property name of length 0".into());
        }
        if d.len() < nl {
            return Err("property name runs past the command body".into());
        }
        let name = d[..nl].to_vec();
        d = &d[nl..];
        if d.len() < 4 {
            return Err("property value length truncated".into());
        }
        let vl = u32::from_be_bytes([d[0], d[1], d[2], d[3]]) as usize;
        d = &d[4..];
        if d.len() < vl {
            return Err("property value runs past the command body".into());
        }
        out.push((name, d[..vl].to_vec()));
        d = &d[vl..];
    }
    Ok(out)
}

/// Decode as much of `input` as forms complete items.
pub fn decode_stream(input: &[u8], expect_greeting: bool) -> Decoded {
    let mut out = Decoded::default();
    let mut pos = 0usize;
    if expect_greeting {
        if input.len() < 64 {
            // a wrong first byte is already an error
            if !input.is_empty() && input[0] != 0xFF {
                out.error = Some((0, "greeting signature byte 0 is not 0xFF".into()));
            }
            return out;
        }
        let g = &input[..64];
        let mut mech = [0u8; 20];
        mech.copy_from_slice(&g[12..32]);
        let gr = RGreeting {
            sig_ok: g[0] == 0xFF && g[9] == 0x7F,
            padding_zero: g[1..9].iter().all(|b| *b == 0),
            version: (g[10], g[11]),
            mechanism: mech,
            as_server: g[32],
            filler_zero: g[33..64].iter().all(|b| *b == 0),
        };
        out.items.push(RItem::Greeting(gr));
        pos = 64;
        out.ends.push(pos);
        out.consumed = pos;
    }
    let mut cur_frames: Frames = Vec::new();
    let mut cur_metas: Vec<RFrameMeta> = Vec::new();
    loop {
        if pos >= input.len() {
            break;
        }
        let start = pos;
        let flags = input[pos];
        if flags & 0xF8 != 0 {
            out.notes
                .push((pos, format!("reserved flag bits set ({flags:#04x})")));
        }
        let command = flags & 0x04 != 0;
        let long = flags & 0x02 != 0;
        let more = flags & 0x01 != 0;
        let (len, hdr) = if long {
            if input.len() - pos < 9 {
                break;
            }
            let mut b = [0u8; 8];
            b.copy_from_slice(&input[pos + 1..pos + 9]);
            let l = u64::from_be_bytes(b);
            if l > (usize::MAX / 2) as u64 {
                out.error = Some((pos, format!("frame size {l} has the sign bit set")));
                break;
            }
            (l as usize, 9)
        } else {
            if input.len() - pos < 2 {
                break;
            }
            (input[pos + 1] as usize, 2)
        };
        if long && len <= 255 {
            out.notes
                .push((pos, format!("long size form used for a body of {len} bytes")));
        }
        if input.len() - pos - hdr < len {
            break;
        }
        let body = &input[pos + hdr..pos + hdr + len];
        pos += hdr + len;
        let meta = RFrameMeta {
            flags,
            long,
            more,
            len,
            start,
        };
        if command {
            if more {
                out.notes.push((start, "MORE set on a command frame".into()));
            }
            if !cur_frames.is_empty() {
                out.notes
                    .push((start, "command inside a multipart message".into()));
            }
            if body.is_empty() {
                out.error = Some((start, "command frame with empty body".into()));
                break;
            }
            let nl = body[0] as usize;
            if body.len() < 1 + nl {
                out.error = Some((start, "command name runs past the body".into()));
                break;
            }
            out.items.push(RItem::Command {
                name: body[1..1 + nl].to_vec(),
                data: body[1 + nl..].to_vec(),
                meta,
            });
            out.ends.push(pos);
            if cur_frames.is_empty() {
                out.consumed = pos;
            }
        } else {
            cur_frames.push(body.to_vec());
            cur_metas.push(meta);
            if !more {
                out.items.push(RItem::Message {
                    frames: std::mem::take(&mut cur_frames),
                    metas: std::mem::take(&mut cur_metas),
                });
                out.ends.push(pos);
                out.consumed = pos;
            }
        }
    }
    out.partial_frames = cur_frames.len();
    out
}

// ---------------------------------------------------------------- encoders

pub fn greeting() -> Vec<u8> {
    greeting_with((3, 0), b"NULL", 0xFF, 0x7F, 0)
}

pub fn greeting_with(version: (u8, u8), mech: &[u8], b0: u8, b9: u8, as_server: u8) -> Vec<u8> {
    let mut g = vec![0u8; 64];
    g[0] = b0;
    g[9] = b9;
    g[10] = version.0;
    g[11] = version.1;
    let n = mech.len().min(20);
    g[12..12 + n].copy_from_slice(&mech[..n]);
    g[32] = as_server;
    g
}

pub fn frame_hdr(flags: u8, len: usize, force_long: bool) -> Vec<u8> {
    let mut v = Vec::with_capacity(9);
    if len > 255 || force_long {
        v.push(flags | 0x02);
        v.extend_from_slice(&(len as u64).to_be_bytes());
    } else {
        v.push(flags);
        v.push(len as u8);
    }
    v
}

pub fn frame(body: &[u8], more: bool) -> Vec<u8> {
    let mut v = frame_hdr(if more { 1 } else { 0 }, body.len(), false);
    v.extend_from_slice(body);
    v
}

pub fn message(frames: &[Vec<u8>]) -> Vec<u8> {
    assert!(!frames.is_empty());
    let mut v = Vec::new();
    for (i, f) in frames.iter().enumerate() {
        v.extend_from_slice(&frame(f, i + 1 != frames.len()));
    }
    v
}

/// The same message with every frame in the 8-octet size form (legal for any body length:
/// "long-size: body is 0 to 2^63-1 octets").
pub fn message_long(frames: &[Vec<u8>]) -> Vec<u8> {
    assert!(!frames.is_empty());
    let mut v = Vec::new();
    for (i, f) in frames.iter().enumerate() {
        v.extend_from_slice(&frame_hdr(if i + 1 != frames.len() { 1 } else { 0 }, f.len(), true));
        v.extend_from_slice(f);
    }
    v
}

/// How a scripted *peer* writes a message: mostly the shortest size form, but one message in
/// eight (decided by its content) with every size in the 8-octet form — peers need not
/// pick the shortest form, only the library's own output is held to that (C01).
pub fn message_as_peer(frames: &[Vec<u8>]) -> Vec<u8> {
    let h = frames.iter().fold(frames.len() as u64, |a, f| crate::prng::mix(a ^ f.len() as u64 ^ f.first().copied().unwrap_or(0) as u64 ^ ((f.last().copied().unwrap_or(0) as u64) << 8)));
    if h % 8 == 0 {
        message_long(frames)
    } else {
        message(frames)
    }
}

pub fn props(list: &[(&[u8], &[u8])]) -> Vec<u8> {
    let mut v = Vec::new();
    for (n, val) in list {
        assert!(n.len() <= 255);
        v.push(n.len() as u8);
        v.extend_from_slice(n);
        v.extend_from_slice(&(val.len() as u32).to_be_bytes());
        v.extend_from_slice(val);
    }
    v
}

/// command frame: name + raw data
pub fn command(name: &[u8], data: &[u8]) -> Vec<u8> {
    assert!(name.len() <= 255);
    let len = 1 + name.len() + data.len();
    let mut v = frame_hdr(0x04, len, false);
    v.push(name.len() as u8);
    v.extend_from_slice(name);
    v.extend_from_slice(data);
    v
}

pub fn ready(socket_type: &[u8], identity: Option<&[u8]>) -> Vec<u8> {
    let mut list: Vec<(&[u8], &[u8])> = vec![(b"Socket-Type", socket_type)];
    if let Some(id) = identity {
        list.push((b"Identity", id));
    }
    command(b"READY", &props(&list))
}

pub fn handshake(socket_type: &str, identity: Option<&[u8]>) -> Vec<u8> {
    let mut v = greeting();
    v.extend_from_slice(&ready(socket_type.as_bytes(), identity));
    v
}

/// Self-check: what a scripted peer is about to send as *valid* must decode,
/// under this module's own decoder, to what the script meant. A mismatch is a
/// harness error, never a library violation.
pub fn self_check_valid(stream: &[u8], expect_greeting: bool) -> Result<Decoded, String> {
    let d = decode_stream(stream, expect_greeting);
    if let Some((o, e)) = &d.error {
        return Err(format!("reference stream invalid at {o}: {e}"));
    }
    if !d.notes.is_empty() {
        return Err(format!("reference stream has notes: {:?}", d.notes));
    }
    if d.consumed != stream.len() || d.partial_frames != 0 {
        return Err("reference stream does not end at an item boundary".into());
    }
    Ok(d)
}

// ------------------------------------------------------- tagged messages

pub const TAG_LEN: usize = 16;

fn fill_frame(origin: u16, seq: u32, idx: usize, len: usize) -> Vec<u8> {
    let mut r = Rng::keyed(0x7A6D_715F_6D73_6773, &[origin as u64, seq as u64, idx as u64]);
    r.bytes(len)
}

fn checksum(frames: &[Vec<u8>]) -> u64 {
    let mut h = 0x51ED_2701_A4B7_33C5u64;
    for f in frames {
        h = mix(h ^ (f.len() as u64));
        h = mix(h ^ hash_bytes(f));
    }
    h
}

/// Frames of the given sizes filled from a keyed PRNG, followed by a 16-byte
/// tag frame (`TG`, origin, seq, frame count, checksum over the other frames).
/// Any message seen anywhere identifies the unique send it came from, and
/// merged / split / truncated / altered messages fail the checksum.
///
/// A quarter of all (origin, seq) pairs additionally end in one **empty frame**
/// after the tag (marked `TE` in the tag, so a lost or spurious trailing frame is
/// still detected): a message whose last frame has no body completes without any
/// further byte arriving, which is a code path of its own in a decoder.
pub fn tagged(origin: u16, seq: u32, shape: &[usize]) -> Frames {
    let mut frames: Frames = shape
        .iter()
        .enumerate()
        .map(|(i, l)| fill_frame(origin, seq, i, *l))
        .collect();
    let te = trailing_empty(origin, seq);
    let tag = make_tag(origin, seq, &frames, te);
    frames.push(tag);
    if te {
        frames.push(Vec::new());
    }
    frames
}

pub fn trailing_empty(origin: u16, seq: u32) -> bool {
    (origin as u32).wrapping_mul(7).wrapping_add(seq) % 4 == 3
}

/// Tagged message whose first frames are given verbatim (topic, envelope...).
pub fn tagged_with_prefix(origin: u16, seq: u32, prefix: &[Vec<u8>], shape: &[usize]) -> Frames {
    let mut frames: Frames = prefix.to_vec();
    for (i, l) in shape.iter().enumerate() {
        frames.push(fill_frame(origin, seq, i, *l));
    }
    let te = trailing_empty(origin, seq);
    let tag = make_tag(origin, seq, &frames, te);
    frames.push(tag);
    if te {
        frames.push(Vec::new());
    }
    frames
}

fn make_tag(origin: u16, seq: u32, body: &[Vec<u8>], trailing_empty: bool) -> Vec<u8> {
    let mut t = Vec::with_capacity(TAG_LEN);
    t.extend_from_slice(if trailing_empty { b"TE" } else { b"TG" });
    t.extend_from_slice(&origin.to_be_bytes());
    t.extend_from_slice(&seq.to_be_bytes());
    t.extend_from_slice(&((body.len() + 1) as u16).to_be_bytes());
    t.extend_from_slice(&checksum(body).to_be_bytes()[..6]);
    t
}

#[derive(Clone, Copy, Debug, PartialEq, Eq, Hash, PartialOrd, Ord)]
pub struct Tag {
    pub origin: u16,
    pub seq: u32,
}

/// Parse the tag of a message. `skip` leading frames are excluded from the
/// checksum (identity frames a ROUTER prepended, for example).
pub fn parse_tag(frames: &[Vec<u8>], skip: usize) -> Result<Tag, String> {
    if frames.len() < skip + 1 {
        return Err(format!("message has {} frames, no tag", frames.len()));
    }
    let is_tag = |f: &Vec<u8>, kind: &[u8; 2]| f.len() == TAG_LEN && &f[..2] == kind;
    // `TE` tags are followed by exactly one empty frame, `TG` tags by nothing
    let frames: &[Vec<u8>] = match frames.last() {
        Some(l) if is_tag(l, b"TG") => frames,
        Some(l) if is_tag(l, b"TE") => return Err("the empty frame that ended this message is missing".into()),
        Some(l) if l.is_empty() && frames.len() >= skip + 2 && is_tag(&frames[frames.len() - 2], b"TE") => &frames[..frames.len() - 1],
        _ => return Err("last frame is not a tag".into()),
    };
    let t = frames.last().unwrap();
    let origin = u16::from_be_bytes([t[2], t[3]]);
    let seq = u32::from_be_bytes([t[4], t[5], t[6], t[7]]);
    let n = u16::from_be_bytes([t[8], t[9]]) as usize;
    let body = &frames[skip..frames.len() - 1];
    if n != body.len() + 1 {
        return Err(format!(
            "tag of ({origin},{seq}) says {n} frames, message has {}",
            body.len() + 1
        ));
    }
    let c = checksum(body).to_be_bytes();
    if t[10..16] != c[..6] {
        return Err(format!("checksum mismatch for ({origin},{seq})"));
    }
    Ok(Tag { origin, seq })
}

pub fn frames_summary(frames: &[Vec<u8>]) -> String {
    let lens: Vec<String> = frames
        .iter()
        .map(|f| {
            if f.len() <= 8 {
                format!("{}:{}", f.len(), hex(f))
            } else {
                format!("{}:{}..", f.len(), hex(&f[..8]))
            }
        })
        .collect();
    format!("[{}]", lens.join(", "))
}

pub fn hex(b: &[u8]) -> String {
    let mut s = String::with_capacity(b.len() * 2);
    for x in b {
        s.push_str(&format!("{x:02x}"));
    }
    s
}

pub fn unhex(s: &str) -> Vec<u8> {
    (0..s.len() / 2)
        .map(|i| u8::from_str_radix(&s[2 * i..2 * i + 2], 16).unwrap_or(0))
        .collect()
}
