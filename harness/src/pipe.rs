//! In-memory connection under harness control (DESIGN.md §3.1).
//!
//! One `Conn` = an inbound byte queue (peer -> library) whose delivery the
//! harness decides, and an outbound wire tap (library -> peer) whose
//! acceptance the harness decides. The library side gets a `PipeReader`
//! (`futures::AsyncRead`) and a `PipeWriter` (`futures::AsyncWrite`).

use futures::{AsyncRead, AsyncWrite};
use std::cell::Cell;
use std::io;
use std::pin::Pin;
use std::sync::{Arc, Mutex};
use std::task::{Context, Poll, Waker};

thread_local! {
    /// Counts every pipe operation and every instrumented task poll on this
    /// thread; "unchanged across yields" is the logical quiescence criterion.
    static ACTIVITY: Cell<u64> = const { Cell::new(0) };
    /// Logical clock: stamps wire-tap writes so taps can be correlated.
    static CLOCK: Cell<u64> = const { Cell::new(0) };
}

pub fn activity() -> u64 {
    ACTIVITY.with(|a| a.get())
}

pub fn bump_activity() {
    ACTIVITY.with(|a| a.set(a.get() + 1));
}

pub fn tick() -> u64 {
    CLOCK.with(|c| {
        let v = c.get() + 1;
        c.set(v);
        v
    })
}

pub fn now() -> u64 {
    CLOCK.with(|c| c.get())
}

#[derive(Clone, Copy, Debug, PartialEq, Eq)]
pub enum EndKind {
    /// orderly close: reads return Ok(0)
    Eof,
    /// reads fail with ConnectionReset
    Reset,
}

#[derive(Clone, Copy, Debug, PartialEq, Eq)]
pub enum WriteFail {
    BrokenPipe,
    ConnectionReset,
    /// `poll_write` returns Ok(0)
    WriteZero,
}

#[derive(Default, Clone, Debug)]
pub struct Stats {
    pub reads: u64,
    pub read_pending: u64,
    pub read_wakes: u64,
    pub writes: u64,
    pub write_pending: u64,
    pub write_wakes: u64,
    pub bytes_in: u64,
    pub bytes_out: u64,
    pub end_returns: u64,
    pub write_errors: u64,
}

struct Inner {
    // inbound (peer -> library)
    inbuf: Vec<u8>,
    in_pos: usize,   // bytes already handed to the library
    released: usize, // bytes the library may read (absolute offset into inbuf)
    chunks: std::collections::VecDeque<usize>, // explicit sizes of the next reads
    max_read: usize,
    yield_reads: u32, // the next reads return Pending after waking their own waker
    in_end: Option<EndKind>,
    read_waker: Option<Waker>,
    // outbound (library -> peer)
    tap: Vec<u8>,
    tap_marks: Vec<(usize, u64)>, // (offset after write, logical clock)
    credit: Option<usize>,        // None = unlimited
    max_write: usize,
    write_fail: Option<WriteFail>,
    fail_after: Option<(usize, WriteFail)>, // writes fail once the tap holds this many bytes
    write_waker: Option<Waker>,
    // observation
    reader_dropped: Option<u64>,
    writer_dropped: Option<u64>,
    end_observed: Option<u64>,
    write_err_observed: Option<u64>,
    stats: Stats,
}

#[derive(Clone)]
pub struct Conn(Arc<Mutex<Inner>>);

pub struct PipeReader(Arc<Mutex<Inner>>);
pub struct PipeWriter(Arc<Mutex<Inner>>);

impl Conn {
    pub fn new() -> (Conn, PipeReader, PipeWriter) {
        let inner = Arc::new(Mutex::new(Inner {
            inbuf: Vec::new(),
            in_pos: 0,
            released: 0,
            chunks: Default::default(),
            max_read: usize::MAX,
            yield_reads: 0,
            in_end: None,
            read_waker: None,
            tap: Vec::new(),
            tap_marks: Vec::new(),
            credit: None,
            max_write: usize::MAX,
            write_fail: None,
            fail_after: None,
            write_waker: None,
            reader_dropped: None,
            writer_dropped: None,
            end_observed: None,
            write_err_observed: None,
            stats: Stats::default(),
        }));
        (
            Conn(inner.clone()),
            PipeReader(inner.clone()),
            PipeWriter(inner),
        )
    }

    fn wake_reader(g: &mut Inner) -> Option<Waker> {
        let w = g.read_waker.take();
        if w.is_some() {
            g.stats.read_wakes += 1;
        }
        w
    }

    /// Append bytes and make them readable at once.
    pub fn feed(&self, bytes: &[u8]) {
        let w = {
            let mut g = self.0.lock().unwrap();
            g.inbuf.extend_from_slice(bytes);
            g.released = g.inbuf.len();
            if bytes.is_empty() {
                None
            } else {
                Self::wake_reader(&mut g)
            }
        };
        bump_activity();
        if let Some(w) = w {
            w.wake();
        }
    }

    /// Append bytes without making them readable (see `release`).
    pub fn feed_held(&self, bytes: &[u8]) {
        self.0.lock().unwrap().inbuf.extend_from_slice(bytes);
    }

    /// Make `n` more bytes readable. Returns how many were actually released.
    pub fn release(&self, n: usize) -> usize {
        let (w, k) = {
            let mut g = self.0.lock().unwrap();
            let avail = g.inbuf.len() - g.released;
            let k = n.min(avail);
            g.released += k;
            let w = if k > 0 { Self::wake_reader(&mut g) } else { None };
            (w, k)
        };
        bump_activity();
        if let Some(w) = w {
            w.wake();
        }
        k
    }

    pub fn release_all(&self) -> usize {
        self.release(usize::MAX)
    }

    /// Bytes appended but not yet released.
    pub fn held(&self) -> usize {
        let g = self.0.lock().unwrap();
        g.inbuf.len() - g.released
    }

    /// Bytes released but not yet read by the library.
    pub fn unread(&self) -> usize {
        let g = self.0.lock().unwrap();
        g.released - g.in_pos
    }

    pub fn consumed(&self) -> usize {
        self.0.lock().unwrap().in_pos
    }

    /// The next reads return exactly these many bytes each (when available);
    /// afterwards `max_read` applies again.
    pub fn set_read_chunks(&self, chunks: &[usize]) {
        let mut g = self.0.lock().unwrap();
        g.chunks = chunks.iter().copied().filter(|c| *c > 0).collect();
    }

    /// The next `n` reads behave like a tokio resource whose task budget is exhausted: they
    /// wake their own waker and return `Pending` although data may be there.
    pub fn yield_next_reads(&self, n: u32) {
        self.0.lock().unwrap().yield_reads = n;
    }

    pub fn set_max_read(&self, n: usize) {
        self.0.lock().unwrap().max_read = n.max(1);
    }

    /// After the released bytes are consumed, reads end this way.
    pub fn end_inbound(&self, kind: EndKind) {
        let w = {
            let mut g = self.0.lock().unwrap();
            g.in_end = Some(kind);
            Self::wake_reader(&mut g)
        };
        bump_activity();
        if let Some(w) = w {
            w.wake();
        }
    }

    /// The connection ended in both directions.
    pub fn close_full(&self, kind: EndKind) {
        self.fail_writes(match kind {
            EndKind::Eof => WriteFail::BrokenPipe,
            EndKind::Reset => WriteFail::ConnectionReset,
        });
        self.end_inbound(kind);
    }

    pub fn tap(&self) -> Vec<u8> {
        self.0.lock().unwrap().tap.clone()
    }

    pub fn tap_len(&self) -> usize {
        self.0.lock().unwrap().tap.len()
    }

    pub fn tap_from(&self, off: usize) -> Vec<u8> {
        let g = self.0.lock().unwrap();
        g.tap[off.min(g.tap.len())..].to_vec()
    }

    /// (offset after write, logical clock) per accepted write.
    pub fn tap_marks(&self) -> Vec<(usize, u64)> {
        self.0.lock().unwrap().tap_marks.clone()
    }

    /// Logical time at which tap offset `off` (exclusive end) was written.
    pub fn tap_time(&self, off: usize) -> Option<u64> {
        let g = self.0.lock().unwrap();
        g.tap_marks.iter().find(|(o, _)| *o >= off).map(|(_, t)| *t)
    }

    /// `None` = accept everything; `Some(n)` = accept at most n more bytes,
    /// then `Pending` (back-pressure) until more credit is granted.
    pub fn set_credit(&self, credit: Option<usize>) {
        let w = {
            let mut g = self.0.lock().unwrap();
            g.credit = credit;
            if credit != Some(0) {
                let w = g.write_waker.take();
                if w.is_some() {
                    g.stats.write_wakes += 1;
                }
                w
            } else {
                None
            }
        };
        bump_activity();
        if let Some(w) = w {
            w.wake();
        }
    }

    pub fn add_credit(&self, n: usize) {
        let cur = self.0.lock().unwrap().credit;
        match cur {
            None => {}
            Some(c) => self.set_credit(Some(c.saturating_add(n))),
        }
    }

    pub fn credit(&self) -> Option<usize> {
        self.0.lock().unwrap().credit
    }

    pub fn set_max_write(&self, n: usize) {
        self.0.lock().unwrap().max_write = n.max(1);
    }

    pub fn fail_writes(&self, kind: WriteFail) {
        let w = {
            let mut g = self.0.lock().unwrap();
            g.write_fail = Some(kind);
            g.write_waker.take()
        };
        bump_activity();
        if let Some(w) = w {
            w.wake();
        }
    }

    /// Writes succeed until the tap holds `n` bytes, then fail with `kind`.
    pub fn fail_writes_after(&self, n: usize, kind: WriteFail) {
        self.0.lock().unwrap().fail_after = Some((n, kind));
    }

    pub fn reader_dropped(&self) -> bool {
        self.0.lock().unwrap().reader_dropped.is_some()
    }

    pub fn writer_dropped(&self) -> bool {
        self.0.lock().unwrap().writer_dropped.is_some()
    }

    pub fn released_both(&self) -> bool {
        let g = self.0.lock().unwrap();
        g.reader_dropped.is_some() && g.writer_dropped.is_some()
    }

    /// The library's read side was handed the end of the stream (Ok(0)/Err).
    pub fn end_observed(&self) -> bool {
        self.0.lock().unwrap().end_observed.is_some()
    }

    /// A library write was answered with an error.
    pub fn write_err_observed(&self) -> bool {
        self.0.lock().unwrap().write_err_observed.is_some()
    }

    pub fn reader_parked(&self) -> bool {
        self.0.lock().unwrap().read_waker.is_some()
    }

    pub fn writer_parked(&self) -> bool {
        self.0.lock().unwrap().write_waker.is_some()
    }

    pub fn stats(&self) -> Stats {
        self.0.lock().unwrap().stats.clone()
    }
}

impl AsyncRead for PipeReader {
    fn poll_read(
        self: Pin<&mut Self>,
        cx: &mut Context<'_>,
        buf: &mut [u8],
    ) -> Poll<io::Result<usize>> {
        bump_activity();
        let mut g = self.0.lock().unwrap();
        g.stats.reads += 1;
        if g.yield_reads > 0 {
            g.yield_reads -= 1;
            g.stats.read_pending += 1;
            drop(g);
            cx.waker().wake_by_ref();
            return Poll::Pending;
        }
        let avail = g.released - g.in_pos;
        if avail == 0 {
            return match g.in_end {
                Some(kind) if g.released == g.inbuf.len() => {
                    g.stats.end_returns += 1;
                    if g.end_observed.is_none() {
                        g.end_observed = Some(tick());
                    }
                    match kind {
                        EndKind::Eof => Poll::Ready(Ok(0)),
                        EndKind::Reset => Poll::Ready(Err(io::Error::new(
                            io::ErrorKind::ConnectionReset,
                            "connection reset by peer (injected)",
                        ))),
                    }
                }
                _ => {
                    g.stats.read_pending += 1;
                    g.read_waker = Some(cx.waker().clone());
                    Poll::Pending
                }
            };
        }
        let mut n = avail.min(buf.len()).min(g.max_read);
        if let Some(c) = g.chunks.front().copied() {
            if c <= n {
                n = c;
                g.chunks.pop_front();
            } else {
                // chunk larger than what can be delivered now: deliver what we
                // can and keep the remainder of the chunk for the next read
                *g.chunks.front_mut().unwrap() = c - n;
            }
        }
        let start = g.in_pos;
        buf[..n].copy_from_slice(&g.inbuf[start..start + n]);
        g.in_pos += n;
        g.stats.bytes_in += n as u64;
        tick();
        Poll::Ready(Ok(n))
    }
}

impl AsyncWrite for PipeWriter {
    fn poll_write(
        self: Pin<&mut Self>,
        cx: &mut Context<'_>,
        buf: &[u8],
    ) -> Poll<io::Result<usize>> {
        bump_activity();
        let mut g = self.0.lock().unwrap();
        g.stats.writes += 1;
        if let Some((n, kind)) = g.fail_after {
            if g.tap.len() >= n {
                g.write_fail = Some(kind);
            }
        }
        if let Some(f) = g.write_fail {
            g.stats.write_errors += 1;
            if g.write_err_observed.is_none() {
                g.write_err_observed = Some(tick());
            }
            return match f {
                WriteFail::BrokenPipe => Poll::Ready(Err(io::Error::new(
                    io::ErrorKind::BrokenPipe,
                    "broken pipe (injected)",
                ))),
                WriteFail::ConnectionReset => Poll::Ready(Err(io::Error::new(
                    io::ErrorKind::ConnectionReset,
                    "connection reset (injected)",
                ))),
                WriteFail::WriteZero => Poll::Ready(Ok(0)),
            };
        }
        if buf.is_empty() {
            return Poll::Ready(Ok(0));
        }
        let mut n = buf.len().min(g.max_write);
        if let Some((limit, _)) = g.fail_after {
            n = n.min(limit - g.tap.len());
        }
        if let Some(c) = g.credit {
            if c == 0 {
                g.stats.write_pending += 1;
                g.write_waker = Some(cx.waker().clone());
                return Poll::Pending;
            }
            n = n.min(c);
            g.credit = Some(c - n);
        }
        {
            #[cfg(feature = "heapmon")]
            let _p = crate::heap::Paused::new();
            g.tap.extend_from_slice(&buf[..n]);
        }
        g.stats.bytes_out += n as u64;
        let off = g.tap.len();
        let t = tick();
        g.tap_marks.push((off, t));
        Poll::Ready(Ok(n))
    }

    fn poll_flush(self: Pin<&mut Self>, _cx: &mut Context<'_>) -> Poll<io::Result<()>> {
        Poll::Ready(Ok(()))
    }

    fn poll_close(self: Pin<&mut Self>, _cx: &mut Context<'_>) -> Poll<io::Result<()>> {
        Poll::Ready(Ok(()))
    }
}

impl Drop for PipeReader {
    fn drop(&mut self) {
        bump_activity();
        // take the waker out under the lock, drop it outside (dropping a
        // library waker may release other pipe halves)
        let w = match self.0.lock() {
            Ok(mut g) => {
                g.reader_dropped = Some(tick());
                g.read_waker.take()
            }
            Err(_) => None,
        };
        drop(w);
    }
}

impl Drop for PipeWriter {
    fn drop(&mut self) {
        bump_activity();
        let w = match self.0.lock() {
            Ok(mut g) => {
                g.writer_dropped = Some(tick());
                g.write_waker.take()
            }
            Err(_) => None,
        };
        drop(w);
    }
}

/// Cross-connects two `Conn`s so that two real zmq.rs sockets talk to each
/// other: what the socket on `a` writes becomes readable on `b` and vice
/// versa. Moving bytes is a harness action (`pump`), so delivery stays under
/// schedule control and both taps stay inspectable.
pub struct Wire {
    pub a: Conn,
    pub b: Conn,
    a_pos: usize,
    b_pos: usize,
}

impl Wire {
    pub fn new(a: Conn, b: Conn) -> Wire {
        Wire { a, b, a_pos: 0, b_pos: 0 }
    }

    /// Bytes written on either side and not yet moved to the other.
    pub fn in_flight(&self) -> (usize, usize) {
        (self.a.tap_len() - self.a_pos, self.b.tap_len() - self.b_pos)
    }

    /// Move at most `max` bytes in each direction; returns how many moved.
    pub fn pump(&mut self, max: usize) -> usize {
        let mut moved = 0;
        let fa = self.a.tap_from(self.a_pos);
        if !fa.is_empty() {
            let n = fa.len().min(max);
            self.b.feed(&fa[..n]);
            self.a_pos += n;
            moved += n;
        }
        let fb = self.b.tap_from(self.b_pos);
        if !fb.is_empty() {
            let n = fb.len().min(max);
            self.a.feed(&fb[..n]);
            self.b_pos += n;
            moved += n;
        }
        moved
    }
}
