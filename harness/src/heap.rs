//! Counting global allocator (DESIGN.md §3.5). Keeps no addresses, so it does
//! not hide leaks from LSan/Miri; compiled out (`--no-default-features`) for
//! the sanitizer legs anyway.

use std::alloc::{GlobalAlloc, Layout, System};
use std::cell::Cell;

pub struct Counting;

thread_local! {
    static ON: Cell<bool> = const { Cell::new(false) };
    static LIVE: Cell<i64> = const { Cell::new(0) };
    static PEAK: Cell<i64> = const { Cell::new(0) };
    static LARGEST: Cell<usize> = const { Cell::new(0) };
}

#[inline]
fn note_alloc(size: usize) {
    let _ = ON.try_with(|on| {
        if on.get() {
            let _ = LIVE.try_with(|l| {
                let v = l.get() + size as i64;
                l.set(v);
                let _ = PEAK.try_with(|p| {
                    if v > p.get() {
                        p.set(v)
                    }
                });
            });
            let _ = LARGEST.try_with(|m| {
                if size > m.get() {
                    m.set(size)
                }
            });
        }
    });
}

#[inline]
fn note_free(size: usize) {
    let _ = ON.try_with(|on| {
        if on.get() {
            let _ = LIVE.try_with(|l| l.set(l.get() - size as i64));
        }
    });
}

unsafe impl GlobalAlloc for Counting {
    unsafe fn alloc(&self, layout: Layout) -> *mut u8 {
        note_alloc(layout.size());
        System.alloc(layout)
    }
    unsafe fn dealloc(&self, ptr: *mut u8, layout: Layout) {
        note_free(layout.size());
        System.dealloc(ptr, layout)
    }
    unsafe fn alloc_zeroed(&self, layout: Layout) -> *mut u8 {
        note_alloc(layout.size());
        System.alloc_zeroed(layout)
    }
    unsafe fn realloc(&self, ptr: *mut u8, layout: Layout, new_size: usize) -> *mut u8 {
        // the request itself is what matters for "largest single request"
        note_free(layout.size());
        note_alloc(new_size);
        System.realloc(ptr, layout, new_size)
    }
}

#[global_allocator]
static GLOBAL: Counting = Counting;

/// Start attributing this thread's allocations; resets the counters.
pub fn start() {
    LIVE.with(|l| l.set(0));
    PEAK.with(|p| p.set(0));
    LARGEST.with(|m| m.set(0));
    ON.with(|o| o.set(true));
}

#[derive(Clone, Copy, Debug)]
pub struct HeapStats {
    pub live: i64,
    pub peak: i64,
    pub largest: usize,
}

pub fn snapshot() -> HeapStats {
    HeapStats {
        live: LIVE.with(|l| l.get()),
        peak: PEAK.with(|p| p.get()),
        largest: LARGEST.with(|m| m.get()),
    }
}

pub fn stop() -> HeapStats {
    ON.with(|o| o.set(false));
    snapshot()
}

/// Pause attribution on this thread (harness-owned allocations such as the
/// wire tap must not be charged to the library). Returns the previous state.
pub fn set_on(on: bool) -> bool {
    ON.with(|o| o.replace(on))
}

pub struct Paused(bool);

impl Paused {
    pub fn new() -> Paused {
        Paused(set_on(false))
    }
}

impl Default for Paused {
    fn default() -> Self {
        Self::new()
    }
}

impl Drop for Paused {
    fn drop(&mut self) {
        set_on(self.0);
    }
}
