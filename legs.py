"""Extra (sanitizer) legs of the thorough tier. Each leg runs the property's
reduced in-memory workload (`zmqmon sanitize <ID>`) under another oracle:

  miri          cargo +nightly miri run  (UB, data races with real threads, leak check at exit)
  miri-seeds    the same under -Zmiri-many-seeds (different thread schedules)
  asan          -Zsanitizer=address build (heap/stack errors in dependencies, LeakSanitizer at exit)
  plain-release C03 only: the hostile corpus again without debug assertions / overflow checks

A sanitizer report is a violation with the report's first line as signature; a
build failure or timeout of a leg is inconclusive, never a violation."""
import json
import os
import re
import subprocess
import time

NIGHTLY = "+nightly"


def _env(extra=None):
    e = dict(os.environ)
    e["CARGO_NET_OFFLINE"] = "true"
    e["CARGO_TERM_COLOR"] = "never"
    e.pop("RUSTFLAGS", None)
    if extra:
        e.update(extra)
    return e


def _parse_result(stdout):
    """All SANITIZE-RESULT lines of the run (one per Miri seed), merged: cases and
    evaluations summed, violations and inconclusive notes concatenated."""
    merged = None
    for line in stdout.splitlines():
        i = line.find("SANITIZE-RESULT ")
        if i < 0:
            continue
        try:
            r = json.loads(line[i + len("SANITIZE-RESULT "):])
        except ValueError:
            continue
        if merged is None:
            merged = r
            merged["runs"] = 1
        else:
            merged["runs"] += 1
            merged["cases"] = (merged.get("cases") or 0) + (r.get("cases") or 0)
            merged["evaluations"] = (merged.get("evaluations") or 0) + (r.get("evaluations") or 0)
            merged.setdefault("violations", []).extend(r.get("violations", []))
            merged.setdefault("inconclusive", []).extend(r.get("inconclusive", []))
    return merged


def _report_signature(pid, leg, text):
    """First error line of a sanitizer report, made stable."""
    m = re.search(r"error: (Undefined Behavior|memory leaked|[Dd]ata race|unsupported operation|the evaluated program deadlocked|abnormal termination)[^\n]*", text)
    if m:
        kind = m.group(1).lower().replace(" ", "-")
        return "%s/%s/%s" % (pid, leg, kind), m.group(0)[:400]
    m = re.search(r"ERROR: (AddressSanitizer|LeakSanitizer): ([^\n]*)", text)
    if m:
        what = m.group(2).split(" on address")[0].split(" in ")[0].strip().replace(" ", "-")[:60]
        return "%s/%s/%s-%s" % (pid, leg, m.group(1), what), m.group(0)[:400]
    return None, None


def _run(cmd, cwd, env, timeout):
    t0 = time.time()
    try:
        p = subprocess.run(cmd, cwd=cwd, env=env, stdout=subprocess.PIPE, stderr=subprocess.PIPE, text=True, timeout=timeout)
        return p.returncode, p.stdout, p.stderr, time.time() - t0
    except subprocess.TimeoutExpired as e:
        out = e.stdout if isinstance(e.stdout, str) else (e.stdout or b"").decode("utf-8", "replace")
        err = e.stderr if isinstance(e.stderr, str) else (e.stderr or b"").decode("utf-8", "replace")
        return 124, out, err, time.time() - t0


def _judge(pid, leg, rc, out, err, dt, extra_summary=None):
    res = {"summary": {"wall_s": round(dt, 1), "exit": rc}, "violations": [], "inconclusive": []}
    if extra_summary:
        res["summary"].update(extra_summary)
    parsed = _parse_result(out)
    sig, line = _report_signature(pid, leg, err + "\n" + out)
    if sig:
        res["violations"].append({"signature": sig, "message": "%s leg: %s" % (leg, line),
                                  "case": {"kind": "leg", "leg": leg, "cmd": "see legs.py"}})
        res["summary"]["report"] = line
    if parsed:
        res["summary"]["runs"] = parsed.get("runs", 1)
        res["summary"]["cases"] = parsed.get("cases")
        res["summary"]["evaluations"] = parsed.get("evaluations")
        res["summary"]["observed"] = {k: v for k, v in list(parsed.get("counters", {}).items())[:12]}
        for v in parsed.get("violations", []):
            v = dict(v)
            v["message"] = "[%s leg] %s" % (leg, v.get("message", ""))
            res["violations"].append(v)
        for i in parsed.get("inconclusive", []):
            res["inconclusive"].append("%s leg: %s" % (leg, i))
    elif not sig:
        if rc == 124:
            res["inconclusive"].append("%s leg timed out after %.0fs" % (leg, dt))
        else:
            tail = (err or out)[-600:].replace("\n", " | ")
            res["inconclusive"].append("%s leg produced no result (exit %s): %s" % (leg, rc, tail))
    return res


def run(leg, pid, tier, seed, root):
    harness = os.path.join(root, "harness")
    seed = int(seed) % (1 << 31)
    if leg in ("miri", "miri-seeds"):
        flags = "-Zmiri-disable-isolation"
        if leg == "miri-seeds":
            flags += " -Zmiri-many-seeds=0..6"
        env = _env({"MIRIFLAGS": flags, "CARGO_TARGET_DIR": os.path.join(harness, "target-miri")})
        cmd = ["cargo", NIGHTLY, "miri", "run", "--offline", "--no-default-features", "--", "sanitize", pid, "--seed", str(seed)]
        rc, out, err, dt = _run(cmd, harness, env, 3000)
        return _judge(pid, leg, rc, out, err, dt)
    if leg == "asan":
        tdir = os.path.join(harness, "target-asan")
        env = _env({"RUSTFLAGS": "-Zsanitizer=address -Cforce-frame-pointers=yes", "CARGO_TARGET_DIR": tdir,
                    "ASAN_OPTIONS": "detect_leaks=1:halt_on_error=1:abort_on_error=0", "LSAN_OPTIONS": "report_objects=1"})
        b = ["cargo", NIGHTLY, "build", "--offline", "--release", "--no-default-features", "--target", "x86_64-unknown-linux-gnu"]
        rc, out, err, dt0 = _run(b, harness, env, 1800)
        if rc != 0:
            return {"summary": {"exit": rc}, "violations": [], "inconclusive": ["asan build failed: " + err[-400:].replace("\n", " | ")]}
        binp = os.path.join(tdir, "x86_64-unknown-linux-gnu", "release", "zmqmon")
        rc, out, err, dt = _run([binp, "sanitize", pid, "--seed", str(seed)], root, env, 1800)
        return _judge(pid, leg, rc, out, err, dt, {"build_s": round(dt0, 1)})
    if leg == "plain-release":
        # C03: recursion depth / overflow behaviour differ without debug assertions
        tdir = os.path.join(harness, "target-plain")
        env = _env({"CARGO_TARGET_DIR": tdir})
        rc, out, err, dt0 = _run(["cargo", "build", "--offline", "--profile", "plain"], harness, env, 1800)
        if rc != 0:
            return {"summary": {"exit": rc}, "violations": [], "inconclusive": ["plain build failed: " + err[-400:].replace("\n", " | ")]}
        binp = os.path.join(tdir, "plain", "zmqmon")
        outp = os.path.join(root, ".work", "%s.plain.%d.json" % (pid, os.getpid()))
        rc, out, err, dt = _run([binp, "run", pid, "--tier", "quick", "--seed", str(seed), "--out", outp], root, env, 3000)
        res = {"summary": {"wall_s": round(dt, 1), "build_s": round(dt0, 1), "exit": rc}, "violations": [], "inconclusive": []}
        try:
            with open(outp) as f:
                r = json.load(f)
            os.unlink(outp)
            res["summary"]["evaluations"] = r.get("evaluations")
            for v in r.get("violations", []):
                v = dict(v)
                v["message"] = "[plain-release build] " + v.get("message", "")
                res["violations"].append(v)
            for i in r.get("inconclusive", []):
                res["inconclusive"].append("plain-release leg: " + i)
        except Exception as e:  # noqa
            res["inconclusive"].append("plain-release leg produced no result (exit %s): %s" % (rc, (err or out)[-300:]))
        return res
    return {"summary": {}, "violations": [], "inconclusive": ["unknown leg " + leg]}
